package accessory

import (
	"testing"

	"github.com/brutella/hc/characteristic"
	"github.com/brutella/hc/service"
)

// A: characteristic added to a service that already belongs to an accessory in a container
func TestZZHuntLateCharacteristic(t *testing.T) {
	acc := NewLightbulb(Info{Name: "lamp"})
	c := NewContainer()
	if err := c.AddAccessory(acc.Accessory); err != nil {
		t.Fatal(err)
	}
	acc.Lightbulb.AddCharacteristic(characteristic.NewBrightness().Characteristic)
	acc.Lightbulb.AddCharacteristic(characteristic.NewHue().Characteristic)
	zzCheck(t, "late-char", c)
}

// A2: characteristic added between New... and AddAccessory (the documented flow)
func TestZZHuntCharacteristicBeforeContainer(t *testing.T) {
	acc := NewTelevision(Info{Name: "tv"})
	acc.Television.AddCharacteristic(characteristic.NewHue().Characteristic)
	c := NewContainer()
	if err := c.AddAccessory(acc.Accessory); err != nil {
		t.Fatal(err)
	}
	zzCheck(t, "char-before-container", c)
}

// B: the same service added twice
func TestZZHuntBorderlineSameServiceTwice(t *testing.T) {
	a := New(Info{Name: "a"}, TypeOther)
	s := service.NewSwitch().Service
	a.AddService(s)
	a.AddService(s)
	c := NewContainer()
	c.AddAccessory(a)
	zzCheck(t, "svc-twice", c)
}

// B2: a service shared by two accessories
func TestZZHuntBorderlineSharedService(t *testing.T) {
	s := service.NewSwitch().Service
	a1 := New(Info{Name: "a1"}, TypeOther)
	a1.AddService(service.NewOutlet().Service)
	a1.AddService(s)
	a2 := New(Info{Name: "a2"}, TypeOther)
	a2.AddService(s)
	c := NewContainer()
	c.AddAccessory(a1)
	c.AddAccessory(a2)
	zzCheck(t, "svc-shared", c)
}

// C: linked service that is not part of the accessory
func TestZZHuntBorderlineLinkedNotAdded(t *testing.T) {
	a := NewTelevision(Info{Name: "tv"})
	in := service.NewInputSource()
	a.Television.AddLinkedService(in.Service)
	c := NewContainer()
	c.AddAccessory(a.Accessory)
	zzCheck(t, "linked-not-added", c)
}

// D: explicit ids mixed, order
func TestZZHuntExplicitIds(t *testing.T) {
	c := NewContainer()
	ids := []uint64{0, 0, 10, 0, 11, 3, 0, 18446744073709551615}
	for _, id := range ids {
		if err := c.AddAccessory(New(Info{Name: "x", ID: id}, TypeOther)); err != nil {
			t.Logf("id %d rejected: %v (explicit id equal to an earlier automatic one, accessory dropped, ids stay unique)", id, err)
		}
	}
	zzCheck(t, "explicit", c)
	t.Log(func() (r []uint64) {
		for _, a := range c.Accessories {
			r = append(r, a.ID)
		}
		return
	}())
}

// K: remove and add
func TestZZHuntRemoveAdd(t *testing.T) {
	c := NewContainer()
	a1 := New(Info{Name: "1"}, TypeOther)
	a2 := New(Info{Name: "2"}, TypeOther)
	a3 := New(Info{Name: "3"}, TypeOther)
	c.AddAccessory(a1)
	c.AddAccessory(a2)
	c.RemoveAccessory(a1)
	c.AddAccessory(a3)
	zzCheck(t, "remove-add", c)
	c.RemoveAccessory(a3)
	c.RemoveAccessory(a2)
	zzCheck(t, "remove-all", c)
	if len(c.Accessories) != 0 {
		t.Errorf("not removed")
	}
}

// Same accessory object in two containers
func TestZZHuntTwoContainers(t *testing.T) {
	c1 := NewContainer()
	c2 := NewContainer()
	c2.AddAccessory(New(Info{Name: "pad"}, TypeOther))
	a := NewSwitch(Info{Name: "s"}).Accessory
	c1.AddAccessory(a)
	c2.AddAccessory(a)
	zzCheck(t, "c1", c1)
	zzCheck(t, "c2", c2)
	t.Log(a.ID, len(c2.Accessories))
}

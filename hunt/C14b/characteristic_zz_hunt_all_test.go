package characteristic

import (
	"encoding/json"
	"testing"
)

func zzAll() map[string]*Characteristic {
	return map[string]*Characteristic{
		"NewAccessoryFlags":                        NewAccessoryFlags().Characteristic,
		"NewAccessoryIdentifier":                   NewAccessoryIdentifier().Characteristic,
		"NewActive":                                NewActive().Characteristic,
		"NewActiveIdentifier":                      NewActiveIdentifier().Characteristic,
		"NewAdministratorOnlyAccess":               NewAdministratorOnlyAccess().Characteristic,
		"NewAirParticulateDensity":                 NewAirParticulateDensity().Characteristic,
		"NewAirParticulateSize":                    NewAirParticulateSize().Characteristic,
		"NewAirQuality":                            NewAirQuality().Characteristic,
		"NewAppMatchingIdentifier":                 NewAppMatchingIdentifier().Characteristic,
		"NewAudioFeedback":                         NewAudioFeedback().Characteristic,
		"NewBatteryLevel":                          NewBatteryLevel().Characteristic,
		"NewBrightness":                            NewBrightness().Characteristic,
		"NewCarbonDioxideDetected":                 NewCarbonDioxideDetected().Characteristic,
		"NewCarbonDioxideLevel":                    NewCarbonDioxideLevel().Characteristic,
		"NewCarbonDioxidePeakLevel":                NewCarbonDioxidePeakLevel().Characteristic,
		"NewCarbonMonoxideDetected":                NewCarbonMonoxideDetected().Characteristic,
		"NewCarbonMonoxideLevel":                   NewCarbonMonoxideLevel().Characteristic,
		"NewCarbonMonoxidePeakLevel":               NewCarbonMonoxidePeakLevel().Characteristic,
		"NewCategory":                              NewCategory().Characteristic,
		"NewChargingState":                         NewChargingState().Characteristic,
		"NewClosedCaptions":                        NewClosedCaptions().Characteristic,
		"NewColorTemperature":                      NewColorTemperature().Characteristic,
		"NewConfigureBridgedAccessory":             NewConfigureBridgedAccessory().Characteristic,
		"NewConfigureBridgedAccessoryStatus":       NewConfigureBridgedAccessoryStatus().Characteristic,
		"NewConfiguredName":                        NewConfiguredName().Characteristic,
		"NewContactSensorState":                    NewContactSensorState().Characteristic,
		"NewCoolingThresholdTemperature":           NewCoolingThresholdTemperature().Characteristic,
		"NewCurrentAirPurifierState":               NewCurrentAirPurifierState().Characteristic,
		"NewCurrentAmbientLightLevel":              NewCurrentAmbientLightLevel().Characteristic,
		"NewCurrentDoorState":                      NewCurrentDoorState().Characteristic,
		"NewCurrentFanState":                       NewCurrentFanState().Characteristic,
		"NewCurrentHeaterCoolerState":              NewCurrentHeaterCoolerState().Characteristic,
		"NewCurrentHeatingCoolingState":            NewCurrentHeatingCoolingState().Characteristic,
		"NewCurrentHorizontalTiltAngle":            NewCurrentHorizontalTiltAngle().Characteristic,
		"NewCurrentHumidifierDehumidifierState":    NewCurrentHumidifierDehumidifierState().Characteristic,
		"NewCurrentMediaState":                     NewCurrentMediaState().Characteristic,
		"NewCurrentPosition":                       NewCurrentPosition().Characteristic,
		"NewCurrentRelativeHumidity":               NewCurrentRelativeHumidity().Characteristic,
		"NewCurrentSlatState":                      NewCurrentSlatState().Characteristic,
		"NewCurrentTemperature":                    NewCurrentTemperature().Characteristic,
		"NewCurrentTiltAngle":                      NewCurrentTiltAngle().Characteristic,
		"NewCurrentTime":                           NewCurrentTime().Characteristic,
		"NewCurrentTransport":                      NewCurrentTransport().Characteristic,
		"NewCurrentVerticalTiltAngle":              NewCurrentVerticalTiltAngle().Characteristic,
		"NewCurrentVisibilityState":                NewCurrentVisibilityState().Characteristic,
		"NewDayOfTheWeek":                          NewDayOfTheWeek().Characteristic,
		"NewDigitalZoom":                           NewDigitalZoom().Characteristic,
		"NewDiscoverBridgedAccessories":            NewDiscoverBridgedAccessories().Characteristic,
		"NewDiscoveredBridgedAccessories":          NewDiscoveredBridgedAccessories().Characteristic,
		"NewDisplayOrder":                          NewDisplayOrder().Characteristic,
		"NewFilterChangeIndication":                NewFilterChangeIndication().Characteristic,
		"NewFilterLifeLevel":                       NewFilterLifeLevel().Characteristic,
		"NewFirmwareRevision":                      NewFirmwareRevision().Characteristic,
		"NewHardwareRevision":                      NewHardwareRevision().Characteristic,
		"NewHeatingThresholdTemperature":           NewHeatingThresholdTemperature().Characteristic,
		"NewHoldPosition":                          NewHoldPosition().Characteristic,
		"NewHue":                                   NewHue().Characteristic,
		"NewIdentifier":                            NewIdentifier().Characteristic,
		"NewIdentify":                              NewIdentify().Characteristic,
		"NewImageMirroring":                        NewImageMirroring().Characteristic,
		"NewImageRotation":                         NewImageRotation().Characteristic,
		"NewInUse":                                 NewInUse().Characteristic,
		"NewInputDeviceType":                       NewInputDeviceType().Characteristic,
		"NewInputSourceType":                       NewInputSourceType().Characteristic,
		"NewIsConfigured":                          NewIsConfigured().Characteristic,
		"NewLeakDetected":                          NewLeakDetected().Characteristic,
		"NewLinkQuality":                           NewLinkQuality().Characteristic,
		"NewLockControlPoint":                      NewLockControlPoint().Characteristic,
		"NewLockCurrentState":                      NewLockCurrentState().Characteristic,
		"NewLockLastKnownAction":                   NewLockLastKnownAction().Characteristic,
		"NewLockManagementAutoSecurityTimeout":     NewLockManagementAutoSecurityTimeout().Characteristic,
		"NewLockPhysicalControls":                  NewLockPhysicalControls().Characteristic,
		"NewLockTargetState":                       NewLockTargetState().Characteristic,
		"NewLogs":                                  NewLogs().Characteristic,
		"NewManufacturer":                          NewManufacturer().Characteristic,
		"NewModel":                                 NewModel().Characteristic,
		"NewMotionDetected":                        NewMotionDetected().Characteristic,
		"NewMute":                                  NewMute().Characteristic,
		"NewName":                                  NewName().Characteristic,
		"NewNightVision":                           NewNightVision().Characteristic,
		"NewNitrogenDioxideDensity":                NewNitrogenDioxideDensity().Characteristic,
		"NewObstructionDetected":                   NewObstructionDetected().Characteristic,
		"NewOccupancyDetected":                     NewOccupancyDetected().Characteristic,
		"NewOn":                                    NewOn().Characteristic,
		"NewOpticalZoom":                           NewOpticalZoom().Characteristic,
		"NewOutletInUse":                           NewOutletInUse().Characteristic,
		"NewOzoneDensity":                          NewOzoneDensity().Characteristic,
		"NewPairSetup":                             NewPairSetup().Characteristic,
		"NewPairVerify":                            NewPairVerify().Characteristic,
		"NewPairingFeatures":                       NewPairingFeatures().Characteristic,
		"NewPairingPairings":                       NewPairingPairings().Characteristic,
		"NewPictureMode":                           NewPictureMode().Characteristic,
		"NewPM10Density":                           NewPM10Density().Characteristic,
		"NewPositionState":                         NewPositionState().Characteristic,
		"NewPowerModeSelection":                    NewPowerModeSelection().Characteristic,
		"NewProgramMode":                           NewProgramMode().Characteristic,
		"NewProgrammableSwitchEvent":               NewProgrammableSwitchEvent().Characteristic,
		"NewProgrammableSwitchOutputState":         NewProgrammableSwitchOutputState().Characteristic,
		"NewReachable":                             NewReachable().Characteristic,
		"NewRelativeHumidityDehumidifierThreshold": NewRelativeHumidityDehumidifierThreshold().Characteristic,
		"NewRelativeHumidityHumidifierThreshold":   NewRelativeHumidityHumidifierThreshold().Characteristic,
		"NewRemainingDuration":                     NewRemainingDuration().Characteristic,
		"NewRemoteKey":                             NewRemoteKey().Characteristic,
		"NewResetFilterIndication":                 NewResetFilterIndication().Characteristic,
		"NewRotationDirection":                     NewRotationDirection().Characteristic,
		"NewRotationSpeed":                         NewRotationSpeed().Characteristic,
		"NewSaturation":                            NewSaturation().Characteristic,
		"NewSecuritySystemAlarmType":               NewSecuritySystemAlarmType().Characteristic,
		"NewSecuritySystemCurrentState":            NewSecuritySystemCurrentState().Characteristic,
		"NewSecuritySystemTargetState":             NewSecuritySystemTargetState().Characteristic,
		"NewSelectedCameraRecordingConfiguration":  NewSelectedCameraRecordingConfiguration().Characteristic,
		"NewSelectedRTPStreamConfiguration":        NewSelectedRTPStreamConfiguration().Characteristic,
		"NewSelectedStreamConfiguration":           NewSelectedStreamConfiguration().Characteristic,
		"NewSerialNumber":                          NewSerialNumber().Characteristic,
		"NewServiceLabelIndex":                     NewServiceLabelIndex().Characteristic,
		"NewServiceLabelNamespace":                 NewServiceLabelNamespace().Characteristic,
		"NewSetDuration":                           NewSetDuration().Characteristic,
		"NewSetupEndpoints":                        NewSetupEndpoints().Characteristic,
		"NewSlatType":                              NewSlatType().Characteristic,
		"NewSleepDiscoveryMode":                    NewSleepDiscoveryMode().Characteristic,
		"NewSmokeDetected":                         NewSmokeDetected().Characteristic,
		"NewSoftwareRevision":                      NewSoftwareRevision().Characteristic,
		"NewStatusActive":                          NewStatusActive().Characteristic,
		"NewStatusFault":                           NewStatusFault().Characteristic,
		"NewStatusJammed":                          NewStatusJammed().Characteristic,
		"NewStatusLowBattery":                      NewStatusLowBattery().Characteristic,
		"NewStatusTampered":                        NewStatusTampered().Characteristic,
		"NewStreamingStatus":                       NewStreamingStatus().Characteristic,
		"NewSulphurDioxideDensity":                 NewSulphurDioxideDensity().Characteristic,
		"NewSupportedAudioRecordingConfiguration":  NewSupportedAudioRecordingConfiguration().Characteristic,
		"NewSupportedAudioStreamConfiguration":     NewSupportedAudioStreamConfiguration().Characteristic,
		"NewSupportedCameraRecordingConfiguration": NewSupportedCameraRecordingConfiguration().Characteristic,
		"NewSupportedRTPConfiguration":             NewSupportedRTPConfiguration().Characteristic,
		"NewSupportedVideoRecordingConfiguration":  NewSupportedVideoRecordingConfiguration().Characteristic,
		"NewSupportedVideoStreamConfiguration":     NewSupportedVideoStreamConfiguration().Characteristic,
		"NewSwingMode":                             NewSwingMode().Characteristic,
		"NewTargetAirPurifierState":                NewTargetAirPurifierState().Characteristic,
		"NewTargetAirQuality":                      NewTargetAirQuality().Characteristic,
		"NewTargetDoorState":                       NewTargetDoorState().Characteristic,
		"NewTargetFanState":                        NewTargetFanState().Characteristic,
		"NewTargetHeaterCoolerState":               NewTargetHeaterCoolerState().Characteristic,
		"NewTargetHeatingCoolingState":             NewTargetHeatingCoolingState().Characteristic,
		"NewTargetHorizontalTiltAngle":             NewTargetHorizontalTiltAngle().Characteristic,
		"NewTargetHumidifierDehumidifierState":     NewTargetHumidifierDehumidifierState().Characteristic,
		"NewTargetMediaState":                      NewTargetMediaState().Characteristic,
		"NewTargetPosition":                        NewTargetPosition().Characteristic,
		"NewTargetRelativeHumidity":                NewTargetRelativeHumidity().Characteristic,
		"NewTargetSlatState":                       NewTargetSlatState().Characteristic,
		"NewTargetTemperature":                     NewTargetTemperature().Characteristic,
		"NewTargetTiltAngle":                       NewTargetTiltAngle().Characteristic,
		"NewTargetVerticalTiltAngle":               NewTargetVerticalTiltAngle().Characteristic,
		"NewTargetVisibilityState":                 NewTargetVisibilityState().Characteristic,
		"NewTemperatureDisplayUnits":               NewTemperatureDisplayUnits().Characteristic,
		"NewTimeUpdate":                            NewTimeUpdate().Characteristic,
		"NewTunnelConnectionTimeout":               NewTunnelConnectionTimeout().Characteristic,
		"NewTunneledAccessoryAdvertising":          NewTunneledAccessoryAdvertising().Characteristic,
		"NewTunneledAccessoryConnected":            NewTunneledAccessoryConnected().Characteristic,
		"NewTunneledAccessoryStateNumber":          NewTunneledAccessoryStateNumber().Characteristic,
		"NewValveType":                             NewValveType().Characteristic,
		"NewVersion":                               NewVersion().Characteristic,
		"NewVOCDensity":                            NewVOCDensity().Characteristic,
		"NewVolume":                                NewVolume().Characteristic,
		"NewVolumeControlType":                     NewVolumeControlType().Characteristic,
		"NewVolumeSelector":                        NewVolumeSelector().Characteristic,
		"NewWaterLevel":                            NewWaterLevel().Characteristic,
		"NewWifiCapabilities":                      NewWifiCapabilities().Characteristic,
		"NewWifiConfigurationControl":              NewWifiConfigurationControl().Characteristic,
	}
}

func TestZZHuntAllCharacteristics(t *testing.T) {
	validFmt := map[string]bool{FormatString: true, FormatBool: true, FormatFloat: true, FormatUInt8: true, FormatUInt16: true, FormatUInt32: true, FormatInt32: true, FormatUInt64: true, FormatData: true, FormatTLV8: true}
	validPerm := map[string]bool{PermRead: true, PermWrite: true, PermEvents: true, "aa": true, "tw": true, "hd": true, "wr": true}
	types := map[string]string{}
	for name, c := range zzAll() {
		if c.Type == "" {
			t.Errorf("%s: empty type", name)
		}
		if other, ok := types[c.Type]; ok {
			t.Logf("%s: type %s shared with %s (two names of one HAP characteristic, not a violation)", name, c.Type, other)
		}
		types[c.Type] = name
		if !validFmt[c.Format] {
			t.Errorf("%s: invalid format %q", name, c.Format)
		}
		if len(c.Perms) == 0 {
			t.Errorf("%s: empty perms", name)
		}
		seen := map[string]bool{}
		for _, p := range c.Perms {
			if !validPerm[p] {
				t.Errorf("%s: invalid perm %q", name, p)
			}
			if seen[p] {
				t.Errorf("%s: dup perm %q", name, p)
			}
			seen[p] = true
		}
		b, err := json.Marshal(c)
		if err != nil {
			t.Errorf("%s: marshal: %v", name, err)
			continue
		}
		m := map[string]interface{}{}
		if err := json.Unmarshal(b, &m); err != nil {
			t.Errorf("%s: unmarshal: %v", name, err)
		}
		for _, k := range []string{"iid", "type", "perms", "format"} {
			if _, ok := m[k]; !ok {
				t.Errorf("%s: key %s missing in %s", name, k, b)
			}
		}
		if _, ok := m["value"]; ok && !seen[PermRead] {
			t.Logf("%s: write-only/no-read has value in JSON: %s", name, b)
		}
		if _, ok := m["value"]; !ok && seen[PermRead] {
			t.Logf("%s: readable without value: %s", name, b)
		}
	}
}

package hc

import (
	"bytes"
	"encoding/json"
	"fmt"
	mrand "math/rand"
	"net"
	"os"
	"strings"
	"testing"
	"time"

	"github.com/brutella/hc/accessory"
	"github.com/brutella/hc/db"
	"github.com/brutella/hc/log"
)

type h5acc struct {
	t    *ipTransport
	addr string
	dir  string
	pin  string
	done chan struct{}
}

func h5FreePort(t testing.TB) string {
	l, err := net.Listen("tcp", "127.0.0.1:0")
	if err != nil {
		t.Fatal(err)
	}
	_, p, _ := net.SplitHostPort(l.Addr().String())
	l.Close()
	return p
}

func h5Start(t testing.TB, dir, pin string, n int) *h5acc {
	var as []*accessory.Accessory
	for i := 0; i < n; i++ {
		as = append(as, accessory.NewSwitch(accessory.Info{Name: fmt.Sprintf("Switch %d %s", i, strings.Repeat("x", 20))}).Accessory)
	}
	br := accessory.NewBridge(accessory.Info{Name: "Bridge"})
	port := h5FreePort(t)
	tr, err := NewIPTransport(Config{StoragePath: dir, Pin: pin, Port: port}, br.Accessory, as...)
	if err != nil {
		t.Fatal(err)
	}
	a := &h5acc{t: tr, addr: "127.0.0.1:" + port, dir: dir, pin: pin, done: make(chan struct{})}
	go func() { tr.Start(); close(a.done) }()
	for i := 0; i < 200; i++ {
		c, err := net.Dial("tcp", a.addr)
		if err == nil {
			c.Close()
			break
		}
		time.Sleep(5 * time.Millisecond)
	}
	return a
}

func (a *h5acc) stop() {
	<-a.t.Stop()
}

func h5Controllers(t testing.TB, dir string) map[string][]byte {
	st, err := db.NewDatabase(dir)
	if err != nil {
		t.Fatal(err)
	}
	es, err := st.Entities()
	if err != nil {
		t.Fatal(err)
	}
	m := map[string][]byte{}
	for _, e := range es {
		if len(e.PrivateKey) == 0 {
			m[e.Name] = e.PublicKey
		}
	}
	return m
}

func TestHunt5Differential(t *testing.T) {
	seeds := 6
	if s := os.Getenv("H5SEEDS"); s != "" {
		fmt.Sscan(s, &seeds)
	}
	base := int64(1)
	if s := os.Getenv("H5BASE"); s != "" {
		fmt.Sscan(s, &base)
	}
	for seed := base; seed < base+int64(seeds); seed++ {
		seed := seed
		t.Run(fmt.Sprint("seed", seed), func(t *testing.T) {
			if os.Getenv("H5PAR") != "" {
				t.Parallel()
			}
			rnd := mrand.New(mrand.NewSource(seed))
			log.Info.Disable()
			iid := 0
			dir := t.TempDir()
			pin := refRandomPin(rnd)
			acc := h5Start(t, dir, pin, 1+rnd.Intn(12))
			defer acc.stop()

			// wrong setup code first
			id := refRandomID(rnd)
			c := newRefController(rnd, id)
			if err := c.dial(acc.addr); err != nil {
				t.Fatal(err)
			}
			wrong := refRandomPin(rnd)
			for wrong == pin {
				wrong = refRandomPin(rnd)
			}
			err := c.pairSetup(refFmtPin(wrong))
			if ae, ok := err.(refAuthError); !ok || ae.code != 2 {
				if err != nil && strings.HasPrefix(err.Error(), "skip") {
					t.Skip(err)
				}
				t.Fatalf("wrong setup code: %v", err)
			}
			if m := h5Controllers(t, dir); len(m) != 0 {
				t.Fatalf("wrong setup code: stored %v", m)
			}
			if rnd.Intn(2) == 0 {
				c.close()
				c.dial(acc.addr)
			}
			// right code
			err = c.pairSetup(refFmtPin(pin))
			if err != nil {
				if strings.HasPrefix(err.Error(), "skip") {
					t.Skip(err)
				}
				t.Fatalf("pair-setup id=%q: %v", id, err)
			}
			m := h5Controllers(t, dir)
			if len(m) != 1 || !bytes.Equal(m[string(id)], c.pub) {
				t.Fatalf("stored after M6: %q, want %q", m, id)
			}
			if rnd.Intn(2) == 0 {
				c.close()
				c.dial(acc.addr)
			}
			for round := 0; round < 3; round++ {
				h5Verify(t, c, acc.addr)
				mode := rnd.Intn(4)
				c.frameMax = func() int {
					switch mode {
					case 0:
						return 1024
					case 1:
						return 1 + rnd.Intn(1024)
					case 2:
						return 1 + rnd.Intn(8)
					}
					return []int{1, 255, 256, 1023, 1024}[rnd.Intn(5)]
				}
				for i := 0; i < 30; i++ {
					k := rnd.Intn(3)
					if iid == 0 {
						k = 0
					}
					switch k {
					case 0:
						st, _, body, err := c.do("GET", "/accessories", "", nil)
						if err != nil || st != 200 {
							t.Fatalf("GET /accessories: %d %v", st, err)
						}
						var v map[string]interface{}
						if err := json.Unmarshal(body, &v); err != nil {
							t.Fatalf("/accessories body: %v", err)
						}
						if i := bytes.Index(body, []byte(`"type":"25"`)); i < 0 {
							t.Fatalf("no On characteristic in %s", body)
						}
						iid = h5OnIID(body)
					case 1:
						// a PUT with many entries: many frames
						n := 1 + rnd.Intn(200)
						var es []string
						val := rnd.Intn(2) == 0
						for j := 0; j < n; j++ {
							es = append(es, fmt.Sprintf(`{"aid":%d,"iid":%d,"value":%v}`, 2, iid, val))
						}
						body := []byte(`{"characteristics":[` + strings.Join(es, ",") + `]}`)
						st, _, rb, err := c.do("PUT", "/characteristics", "application/hap+json", body)
						if err != nil || st != 204 {
							t.Fatalf("PUT /characteristics (%d bytes): %d %v %s", len(body), st, err, rb)
						}
					case 2:
						st, _, body, err := c.do("GET", fmt.Sprintf("/characteristics?id=2.%d", iid), "", nil)
						if err != nil || st != 200 {
							t.Fatalf("GET /characteristics: %d %v %s", st, err, body)
						}
					}
				}
				c.close()
				if err := c.dial(acc.addr); err != nil {
					t.Fatal(err)
				}
			}
			c.close()
		})
	}
}

func h5OnIID(body []byte) int {
	var v struct {
		Accessories []struct {
			Aid      int
			Services []struct {
				Characteristics []struct {
					Iid  int
					Type string
				}
			}
		}
	}
	json.Unmarshal(body, &v)
	for _, a := range v.Accessories {
		if a.Aid != 2 {
			continue
		}
		for _, s := range a.Services {
			for _, c := range s.Characteristics {
				if c.Type == "25" {
					return c.Iid
				}
			}
		}
	}
	return 0
}

package hc

import (
	"bytes"
	mrand "math/rand"
	"strings"
	"testing"

	"github.com/brutella/hc/log"
)

// tolerate the known hand-over race (M4 sent encrypted): retry on a new connection
func h5Verify(t *testing.T, c *refController, addr string) {
	for i := 0; i < 5; i++ {
		err := c.pairVerify()
		if err == nil {
			return
		}
		if strings.Contains(err.Error(), "V3/V4: malformed") {
			c.close()
			c.dial(addr)
			continue
		}
		t.Fatalf("pair-verify: %v", err)
	}
	t.Fatal("pair-verify failed 5 times")
}

func TestHunt5Lifecycle(t *testing.T) {
	log.Info.Disable()
	for seed := int64(1); seed <= 5; seed++ {
		rnd := mrand.New(mrand.NewSource(seed))
		dir := t.TempDir()
		pin := refRandomPin(rnd)
		acc := h5Start(t, dir, pin, 2)
		c := newRefController(rnd, refRandomID(rnd))
		c.dial(acc.addr)
		if err := c.pairSetup(refFmtPin(pin)); err != nil {
			if strings.HasPrefix(err.Error(), "skip") {
				acc.stop()
				continue
			}
			t.Fatal(err)
		}
		h5Verify(t, c, acc.addr)
		if st, _, _, err := c.do("GET", "/accessories", "", nil); st != 200 || err != nil {
			t.Fatal(st, err)
		}
		id0, k0 := c.accID, c.accLTPK
		acc.stop()
		// the connection must be gone
		if st, _, _, err := c.do("GET", "/accessories", "", nil); err == nil {
			t.Fatalf("request answered after Stop: %d", st)
		}
		for r := 0; r < 3; r++ {
			pin2 := pin
			if r == 1 {
				pin2 = refRandomPin(rnd)
			}
			acc = h5Start(t, dir, pin2, 2+r)
			c.dial(acc.addr)
			h5Verify(t, c, acc.addr) // checks identifier and signature against pair-setup's LTPK
			if st, _, _, err := c.do("GET", "/accessories", "", nil); st != 200 || err != nil {
				t.Fatal(st, err)
			}
			// a second controller pairs after restart and sees the same identity
			c2 := newRefController(rnd, refRandomID(rnd))
			c2.dial(acc.addr)
			if err := c2.pairSetup(refFmtPin(pin2)); err != nil {
				if !strings.HasPrefix(err.Error(), "skip") {
					t.Fatal(err)
				}
			} else if !bytes.Equal(c2.accID, id0) || !bytes.Equal(c2.accLTPK, k0) {
				t.Fatalf("identity changed over restart: %q/%x -> %q/%x", id0, k0, c2.accID, c2.accLTPK)
			}
			c2.close()
			c.close()
			acc.stop()
		}
	}
}

package hc

// Reference HAP controller written from the specification only: own TLV8,
// own SRP-6a (math/big), HKDF / ChaCha20-Poly1305 / Ed25519 / X25519 from the
// standard library and x/crypto directly (none of hc's wrappers).

import (
	"bufio"
	"bytes"
	"crypto/ecdh"
	"crypto/ed25519"
	"crypto/rand"
	"crypto/sha512"
	"encoding/binary"
	"errors"
	"fmt"
	"io"
	"math/big"
	mrand "math/rand"
	"net"
	"net/http"
	"strings"
	"time"

	xchacha "golang.org/x/crypto/chacha20poly1305"
	xhkdf "golang.org/x/crypto/hkdf"
)

const refNHex = "FFFFFFFFFFFFFFFFC90FDAA22168C234C4C6628B80DC1CD129024E088A67CC74020BBEA63B139B22514A08798E3404DDEF9519B3CD3A431B302B0A6DF25F14374FE1356D6D51C245E485B576625E7EC6F44C42E9A637ED6B0BFF5CB6F406B7EDEE386BFB5A899FA5AE9F24117C4B1FE649286651ECE45B3DC2007CB8A163BF0598DA48361C55D39A69163FA8FD24CF5F83655D23DCA3AD961C62F356208552BB9ED529077096966D670C354E4ABC9804F1746C08CA18217C32905E462E36CE3BE39E772C180E86039B2783A2EC07A28FB5C55DF06F4C52C9DE2BCBF6955817183995497CEA956AE515D2261898FA051015728E5A8AAAC42DAD33170D04507A33A85521ABDF1CBA64ECFB850458DBEF0A8AEA71575D060C7DB3970F85A6E1E4C7ABF5AE8CDB0933D71E8C94E04A25619DCEE3D2261AD2EE6BF12FFA06D98A0864D87602733EC86A64521F2B18177B200CBBE117577A615D6C770988C0BAD946E208E24FA074E5AB3143DB5BFCE0FD108E4B82D120A93AD2CAFFFFFFFFFFFFFFFF"

type refTLV struct {
	tag byte
	val []byte
}

func refEncodeTLV(items []refTLV) []byte {
	var b bytes.Buffer
	for _, it := range items {
		v := it.val
		if len(v) == 0 {
			b.Write([]byte{it.tag, 0})
			continue
		}
		for len(v) > 0 {
			n := len(v)
			if n > 255 {
				n = 255
			}
			b.WriteByte(it.tag)
			b.WriteByte(byte(n))
			b.Write(v[:n])
			v = v[n:]
		}
	}
	return b.Bytes()
}

// refDecodeTLV: consecutive items with the same tag are one value
func refDecodeTLV(b []byte) (map[byte][]byte, []byte, error) {
	m := map[byte][]byte{}
	var order []byte
	last := -1
	for len(b) > 0 {
		if len(b) < 2 {
			return nil, nil, errors.New("tlv: short header")
		}
		t, l := b[0], int(b[1])
		if len(b) < 2+l {
			return nil, nil, errors.New("tlv: short value")
		}
		if last == int(t) {
			m[t] = append(m[t], b[2:2+l]...)
		} else {
			if _, dup := m[t]; dup {
				return nil, nil, fmt.Errorf("tlv: tag %d twice", t)
			}
			m[t] = append([]byte{}, b[2:2+l]...)
			order = append(order, t)
		}
		last = int(t)
		b = b[2+l:]
	}
	return m, order, nil
}

func refH(parts ...[]byte) []byte {
	h := sha512.New()
	for _, p := range parts {
		h.Write(p)
	}
	return h.Sum(nil)
}

func refPad(b []byte, n int) []byte {
	if len(b) >= n {
		return b
	}
	return append(make([]byte, n-len(b)), b...)
}

func refHKDF(secret []byte, salt, info string) []byte {
	out := make([]byte, 32)
	io.ReadFull(xhkdf.New(sha512.New, secret, []byte(salt), []byte(info)), out)
	return out
}

func refSeal(key []byte, nonce []byte, plain, aad []byte) []byte {
	a, _ := xchacha.New(key)
	var n [12]byte
	copy(n[4:], nonce)
	return a.Seal(nil, n[:], plain, aad)
}

func refOpen(key []byte, nonce []byte, ct, aad []byte) ([]byte, error) {
	a, _ := xchacha.New(key)
	var n [12]byte
	copy(n[4:], nonce)
	return a.Open(nil, n[:], ct, aad)
}

type refController struct {
	rnd  *mrand.Rand
	id   []byte
	pub  ed25519.PublicKey
	priv ed25519.PrivateKey

	accID   []byte
	accLTPK []byte

	conn net.Conn
	br   *bufio.Reader

	// secure channel
	secure   bool
	c2a, a2c []byte
	cntOut   uint64
	cntIn    uint64
	plainIn  bytes.Buffer
	frameMax func() int
	// observations
	framesIn []int
}

func newRefController(rnd *mrand.Rand, id []byte) *refController {
	seed := make([]byte, 32)
	rnd.Read(seed)
	priv := ed25519.NewKeyFromSeed(seed)
	return &refController{rnd: rnd, id: id, priv: priv, pub: priv.Public().(ed25519.PublicKey),
		frameMax: func() int { return 1024 }}
}

func (c *refController) dial(addr string) error {
	conn, err := net.DialTimeout("tcp", addr, 2*time.Second)
	if err != nil {
		return err
	}
	c.conn = conn
	c.secure = false
	c.cntIn, c.cntOut = 0, 0
	c.plainIn.Reset()
	c.br = bufio.NewReader(refReader{c})
	return nil
}

func (c *refController) close() {
	if c.conn != nil {
		c.conn.Close()
	}
}

type refReader struct{ c *refController }

func (r refReader) Read(p []byte) (int, error) {
	c := r.c
	c.conn.SetReadDeadline(time.Now().Add(5 * time.Second))
	if !c.secure {
		return c.conn.Read(p)
	}
	for c.plainIn.Len() == 0 {
		var hdr [2]byte
		if _, err := io.ReadFull(c.conn, hdr[:]); err != nil {
			return 0, err
		}
		n := int(binary.LittleEndian.Uint16(hdr[:]))
		if n > 1024 {
			return 0, fmt.Errorf("frame of %d bytes (specification: at most 1024)", n)
		}
		buf := make([]byte, n+16)
		if _, err := io.ReadFull(c.conn, buf); err != nil {
			return 0, err
		}
		var nonce [8]byte
		binary.LittleEndian.PutUint64(nonce[:], c.cntIn)
		c.cntIn++
		pl, err := refOpen(c.a2c, nonce[:], buf, hdr[:])
		if err != nil {
			return 0, fmt.Errorf("frame %d from accessory does not authenticate: %v", c.cntIn-1, err)
		}
		c.framesIn = append(c.framesIn, n)
		c.plainIn.Write(pl)
	}
	return c.plainIn.Read(p)
}

func (c *refController) send(b []byte) error {
	c.conn.SetWriteDeadline(time.Now().Add(5 * time.Second))
	if !c.secure {
		_, err := c.conn.Write(b)
		return err
	}
	var out bytes.Buffer
	for len(b) > 0 {
		n := c.frameMax()
		if n > len(b) {
			n = len(b)
		}
		if n < 1 {
			n = 1
		}
		var hdr [2]byte
		binary.LittleEndian.PutUint16(hdr[:], uint16(n))
		var nonce [8]byte
		binary.LittleEndian.PutUint64(nonce[:], c.cntOut)
		c.cntOut++
		out.Write(hdr[:])
		out.Write(refSeal(c.c2a, nonce[:], b[:n], hdr[:]))
		b = b[n:]
	}
	_, err := c.conn.Write(out.Bytes())
	return err
}

func (c *refController) do(method, path, ctype string, body []byte) (int, http.Header, []byte, error) {
	var req bytes.Buffer
	fmt.Fprintf(&req, "%s %s HTTP/1.1\r\nHost: acc._hap._tcp.local\r\n", method, path)
	if body != nil {
		fmt.Fprintf(&req, "Content-Type: %s\r\nContent-Length: %d\r\n", ctype, len(body))
	}
	req.WriteString("\r\n")
	req.Write(body)
	if err := c.send(req.Bytes()); err != nil {
		return 0, nil, nil, err
	}
	return c.readResponse(method)
}

func (c *refController) readResponse(method string) (int, http.Header, []byte, error) {
	resp, err := http.ReadResponse(c.br, &http.Request{Method: method})
	if err != nil {
		return 0, nil, nil, err
	}
	b, err := io.ReadAll(resp.Body)
	resp.Body.Close()
	return resp.StatusCode, resp.Header, b, err
}

func (c *refController) tlvPost(path string, items []refTLV) (map[byte][]byte, []byte, error) {
	st, hdr, body, err := c.do("POST", path, "application/pairing+tlv8", refEncodeTLV(items))
	if err != nil {
		return nil, nil, err
	}
	if st != 200 {
		return nil, nil, fmt.Errorf("%s: HTTP status %d", path, st)
	}
	if ct := hdr.Get("Content-Type"); ct != "application/pairing+tlv8" {
		return nil, nil, fmt.Errorf("%s: content type %q", path, ct)
	}
	return refDecodeTLV(body)
}

type refAuthError struct{ code byte }

func (e refAuthError) Error() string { return fmt.Sprintf("accessory answered kTLVError %d", e.code) }

func (c *refController) shuffle(items []refTLV) []refTLV {
	c.rnd.Shuffle(len(items), func(i, j int) { items[i], items[j] = items[j], items[i] })
	return items
}

// pairSetup runs M1..M6 with setup code `pin` (XXX-XX-XXX).
func (c *refController) pairSetup(pin string) error {
	N, _ := new(big.Int).SetString(refNHex, 16)
	g := big.NewInt(5)
	nlen := 384

	m1 := []refTLV{{0x06, []byte{1}}, {0x00, []byte{0}}}
	if c.rnd.Intn(2) == 0 {
		m1 = append(m1, refTLV{0x13, []byte{0, 0, 0, 0}}) // kTLVType_Flags as newer controllers send
	}
	r, _, err := c.tlvPost("/pair-setup", m1)
	if err != nil {
		return fmt.Errorf("M1/M2: %v", err)
	}
	if e, ok := r[0x07]; ok {
		return refAuthError{e[0]}
	}
	if !bytes.Equal(r[0x06], []byte{2}) {
		return fmt.Errorf("M2: state %x", r[0x06])
	}
	salt, Bb := r[0x02], r[0x03]
	if len(salt) != 16 {
		return fmt.Errorf("M2: salt of %d bytes", len(salt))
	}
	if len(Bb) != nlen {
		return fmt.Errorf("skip: B of %d bytes", len(Bb))
	}
	B := new(big.Int).SetBytes(Bb)
	if new(big.Int).Mod(B, N).Sign() == 0 {
		return errors.New("M2: B mod N == 0")
	}

	var a, A *big.Int
	var Ab []byte
	for {
		ab := make([]byte, 32)
		c.rnd.Read(ab)
		a = new(big.Int).SetBytes(ab)
		A = new(big.Int).Exp(g, a, N)
		Ab = A.Bytes()
		if len(Ab) == nlen {
			break
		}
	}
	k := new(big.Int).SetBytes(refH(N.Bytes(), refPad(g.Bytes(), nlen)))
	u := new(big.Int).SetBytes(refH(refPad(Ab, nlen), refPad(Bb, nlen)))
	x := new(big.Int).SetBytes(refH(salt, refH([]byte("Pair-Setup:"+pin))))
	// S = (B - k g^x) ^ (a + u x)
	t := new(big.Int).Exp(g, x, N)
	t.Mul(t, k).Mod(t, N)
	base := new(big.Int).Sub(B, t)
	base.Mod(base, N)
	e := new(big.Int).Mul(u, x)
	e.Add(e, a)
	S := new(big.Int).Exp(base, e, N)
	Sb := S.Bytes()
	if len(Sb) != nlen {
		return errors.New("skip: S with leading zero")
	}
	K := refH(Sb)
	hn, hg := refH(N.Bytes()), refH(g.Bytes())
	for i := range hn {
		hn[i] ^= hg[i]
	}
	M1 := refH(hn, refH([]byte("Pair-Setup")), salt, Ab, Bb, K)

	r, _, err = c.tlvPost("/pair-setup", c.shuffle([]refTLV{{0x06, []byte{3}}, {0x03, Ab}, {0x04, M1}}))
	if err != nil {
		return fmt.Errorf("M3/M4: %v", err)
	}
	if !bytes.Equal(r[0x06], []byte{4}) {
		return fmt.Errorf("M4: state %x", r[0x06])
	}
	if e, ok := r[0x07]; ok {
		return refAuthError{e[0]}
	}
	M2 := refH(Ab, M1, K)
	if !bytes.Equal(r[0x04], M2) {
		return fmt.Errorf("M4: accessory proof does not verify")
	}

	// M5
	sk := refHKDF(K, "Pair-Setup-Encrypt-Salt", "Pair-Setup-Encrypt-Info")
	cx := refHKDF(K, "Pair-Setup-Controller-Sign-Salt", "Pair-Setup-Controller-Sign-Info")
	info := append(append(append([]byte{}, cx...), c.id...), c.pub...)
	sig := ed25519.Sign(c.priv, info)
	sub := refEncodeTLV(c.shuffle([]refTLV{{0x01, c.id}, {0x03, c.pub}, {0x0a, sig}}))
	enc := refSeal(sk, []byte("PS-Msg05"), sub, nil)
	r, _, err = c.tlvPost("/pair-setup", c.shuffle([]refTLV{{0x06, []byte{5}}, {0x05, enc}}))
	if err != nil {
		return fmt.Errorf("M5/M6: %v", err)
	}
	if !bytes.Equal(r[0x06], []byte{6}) {
		return fmt.Errorf("M6: state %x", r[0x06])
	}
	if e, ok := r[0x07]; ok {
		return refAuthError{e[0]}
	}
	pl, err := refOpen(sk, []byte("PS-Msg06"), r[0x05], nil)
	if err != nil {
		return fmt.Errorf("M6: encrypted data does not authenticate: %v", err)
	}
	s, _, err := refDecodeTLV(pl)
	if err != nil {
		return fmt.Errorf("M6 sub-tlv: %v", err)
	}
	ax := refHKDF(K, "Pair-Setup-Accessory-Sign-Salt", "Pair-Setup-Accessory-Sign-Info")
	ainfo := append(append(append([]byte{}, ax...), s[0x01]...), s[0x03]...)
	if len(s[0x03]) != 32 || !ed25519.Verify(ed25519.PublicKey(s[0x03]), ainfo, s[0x0a]) {
		return fmt.Errorf("M6: accessory signature does not verify")
	}
	if len(s[0x01]) == 0 {
		return fmt.Errorf("M6: no accessory identifier")
	}
	c.accID, c.accLTPK = s[0x01], s[0x03]
	return nil
}

func (c *refController) pairVerify() error {
	priv, err := ecdh.X25519().GenerateKey(rand.Reader)
	if err != nil {
		return err
	}
	pub := priv.PublicKey().Bytes()
	r, _, err := c.tlvPost("/pair-verify", c.shuffle([]refTLV{{0x06, []byte{1}}, {0x03, pub}}))
	if err != nil {
		return fmt.Errorf("V1/V2: %v", err)
	}
	if e, ok := r[0x07]; ok {
		return refAuthError{e[0]}
	}
	if !bytes.Equal(r[0x06], []byte{2}) {
		return fmt.Errorf("V2: state %x", r[0x06])
	}
	apub := r[0x03]
	if len(apub) != 32 {
		return fmt.Errorf("V2: public key of %d bytes", len(apub))
	}
	ak, err := ecdh.X25519().NewPublicKey(apub)
	if err != nil {
		return err
	}
	shared, err := priv.ECDH(ak)
	if err != nil {
		return err
	}
	sk := refHKDF(shared, "Pair-Verify-Encrypt-Salt", "Pair-Verify-Encrypt-Info")
	pl, err := refOpen(sk, []byte("PV-Msg02"), r[0x05], nil)
	if err != nil {
		return fmt.Errorf("V2: encrypted data does not authenticate: %v", err)
	}
	s, _, err := refDecodeTLV(pl)
	if err != nil {
		return err
	}
	if !bytes.Equal(s[0x01], c.accID) {
		return fmt.Errorf("V2: accessory identifier %q, pair-setup said %q", s[0x01], c.accID)
	}
	ainfo := append(append(append([]byte{}, apub...), s[0x01]...), pub...)
	if !ed25519.Verify(ed25519.PublicKey(c.accLTPK), ainfo, s[0x0a]) {
		return fmt.Errorf("V2: accessory signature does not verify")
	}
	cinfo := append(append(append([]byte{}, pub...), c.id...), apub...)
	sig := ed25519.Sign(c.priv, cinfo)
	sub := refEncodeTLV(c.shuffle([]refTLV{{0x01, c.id}, {0x0a, sig}}))
	enc := refSeal(sk, []byte("PV-Msg03"), sub, nil)
	r, _, err = c.tlvPost("/pair-verify", c.shuffle([]refTLV{{0x06, []byte{3}}, {0x05, enc}}))
	if err != nil {
		return fmt.Errorf("V3/V4: %v", err)
	}
	if e, ok := r[0x07]; ok {
		return refAuthError{e[0]}
	}
	if !bytes.Equal(r[0x06], []byte{4}) {
		return fmt.Errorf("V4: state %x", r[0x06])
	}
	c.a2c = refHKDF(shared, "Control-Salt", "Control-Read-Encryption-Key")
	c.c2a = refHKDF(shared, "Control-Salt", "Control-Write-Encryption-Key")
	c.secure = true
	return nil
}

func refRandomID(rnd *mrand.Rand) []byte {
	alphabets := []string{
		"0123456789ABCDEF-",
		"abcdefghijklmnopqrstuvwxyz .:/\\_-@",
		"äöüß€→日本語🙂é\u0000\u007f",
	}
	al := []rune(alphabets[rnd.Intn(len(alphabets))])
	n := 1 + rnd.Intn(64)
	var b []byte
	for {
		r := string(al[rnd.Intn(len(al))])
		if len(b)+len(r) > n {
			break
		}
		b = append(b, r...)
	}
	if len(b) == 0 {
		b = []byte("x")
	}
	return b
}

func refRandomPin(rnd *mrand.Rand) string {
	for {
		p := fmt.Sprintf("%08d", rnd.Intn(100000000))
		if _, err := ValidatePin(p); err == nil {
			return p
		}
	}
}

func refFmtPin(p string) string { return p[:3] + "-" + p[3:5] + "-" + p[5:] }

var _ = strings.Repeat

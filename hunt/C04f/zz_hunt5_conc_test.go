package hc

import (
	"bytes"
	"fmt"
	mrand "math/rand"
	"strings"
	"sync"
	"testing"

	"github.com/brutella/hc/log"
)

func TestHunt5ConcurrentControllers(t *testing.T) {
	log.Info.Disable()
	dir := t.TempDir()
	pin := "03145154"
	acc := h5Start(t, dir, pin, 3)
	defer acc.stop()
	addr := acc.addr
	if strings.Contains(t.Name(), "V6") {
	}
	var wg sync.WaitGroup
	var mu sync.Mutex
	ids := map[string][]byte{}
	for g := 0; g < 8; g++ {
		wg.Add(1)
		go func(g int) {
			defer wg.Done()
			rnd := mrand.New(mrand.NewSource(int64(g)))
			a := addr
			if g%2 == 1 {
				a = "[::1]:" + addr[strings.LastIndex(addr, ":")+1:]
			}
			c := newRefController(rnd, []byte(fmt.Sprintf("C%d-%s", g, refRandomID(rnd)))[:10])
			if err := c.dial(a); err != nil {
				a = addr
				c.dial(a)
			}
			for {
				err := c.pairSetup(refFmtPin(pin))
				if err == nil {
					break
				}
				if !strings.HasPrefix(err.Error(), "skip") {
					t.Errorf("g%d pair-setup: %v", g, err)
					return
				}
				c.close()
				c.dial(a)
			}
			mu.Lock()
			ids[string(c.id)] = c.pub
			mu.Unlock()
			for r := 0; r < 4; r++ {
				h5Verify(t, c, a)
				for i := 0; i < 10; i++ {
					st, _, _, err := c.do("GET", "/accessories", "", nil)
					if err != nil || st != 200 {
						t.Errorf("g%d: %d %v", g, st, err)
						return
					}
				}
				c.close()
				c.dial(a)
			}
			c.close()
		}(g)
	}
	wg.Wait()
	m := h5Controllers(t, dir)
	if len(m) != len(ids) {
		t.Fatalf("stored %d controllers, paired %d", len(m), len(ids))
	}
	for k, v := range ids {
		if !bytes.Equal(m[k], v) {
			t.Fatalf("controller %q: stored key %x, want %x", k, m[k], v)
		}
	}
}

package hap

import (
	"bytes"
	"encoding/binary"
	"errors"
	"io"
	"io/ioutil"
	"math/rand"
	"net"
	"sync"
	"testing"
	"time"

	"github.com/brutella/hc/crypto"
)

// ---- helpers shared by the hunt3 C05 tests ----

type h3Addr string

func (a h3Addr) Network() string { return "tcp" }
func (a h3Addr) String() string  { return string(a) }

type h3Timeout struct{}

func (h3Timeout) Error() string   { return "i/o timeout" }
func (h3Timeout) Timeout() bool   { return true }
func (h3Timeout) Temporary() bool { return true }

// h3Conn is a scripted net.Conn: Read returns the scripted chunks in order; a nil chunk is a read time-out;
// after the script it returns the final error.
type h3Conn struct {
	mu      sync.Mutex
	script  [][]byte
	final   error
	closed  bool
	written bytes.Buffer
	remote  string
	local   string
	onRead  func() // runs (unlocked) before a scripted chunk is handed out
}

func (c *h3Conn) Read(b []byte) (int, error) {
	if c.onRead != nil {
		c.onRead()
	}
	c.mu.Lock()
	defer c.mu.Unlock()
	if c.closed && c.onRead == nil {
		return 0, errors.New("use of closed network connection")
	}
	if len(c.script) == 0 {
		if c.final == nil {
			return 0, io.EOF
		}
		return 0, c.final
	}
	chunk := c.script[0]
	if chunk == nil {
		c.script = c.script[1:]
		return 0, h3Timeout{}
	}
	n := copy(b, chunk)
	if n == len(chunk) {
		c.script = c.script[1:]
	} else {
		c.script[0] = chunk[n:]
	}
	return n, nil
}
func (c *h3Conn) Write(b []byte) (int, error) {
	c.mu.Lock()
	defer c.mu.Unlock()
	if c.closed {
		return 0, errors.New("use of closed network connection")
	}
	return c.written.Write(b)
}
func (c *h3Conn) Close() error {
	c.mu.Lock()
	defer c.mu.Unlock()
	c.closed = true
	return nil
}
func (c *h3Conn) LocalAddr() net.Addr {
	if c.local == "" {
		return h3Addr("10.0.0.1:5000")
	}
	return h3Addr(c.local)
}
func (c *h3Conn) RemoteAddr() net.Addr {
	if c.remote == "" {
		return h3Addr("10.0.0.2:6000")
	}
	return h3Addr(c.remote)
}
func (c *h3Conn) SetDeadline(t time.Time) error      { return nil }
func (c *h3Conn) SetReadDeadline(t time.Time) error  { return nil }
func (c *h3Conn) SetWriteDeadline(t time.Time) error { return nil }

func h3Sessions(t testing.TB, seed byte) (acc, ctl crypto.Cryptographer) {
	var key [32]byte
	for i := range key {
		key[i] = seed + byte(i)
	}
	acc, err := crypto.NewSecureSessionFromSharedKey(key)
	if err != nil {
		t.Fatal(err)
	}
	ctl, err = crypto.NewSecureClientSessionFromSharedKey(key)
	if err != nil {
		t.Fatal(err)
	}
	return
}

func h3Encrypt(t testing.TB, c crypto.Encrypter, p []byte) []byte {
	r, err := c.Encrypt(bytes.NewReader(p))
	if err != nil {
		t.Fatal(err)
	}
	b, _ := ioutil.ReadAll(r)
	return b
}

// h3Frames splits a well-formed stream into frames
func h3Frames(s []byte) [][]byte {
	var out [][]byte
	for len(s) > 0 {
		n := 2 + int(binary.LittleEndian.Uint16(s)) + 16
		out = append(out, s[:n])
		s = s[n:]
	}
	return out
}

func h3Plain(rnd *rand.Rand, n int) []byte {
	b := make([]byte, n)
	for i := range b {
		b[i] = byte('a' + rnd.Intn(26))
	}
	return b
}

// h3ReadAll reads the connection until a non-timeout error; gives up after many consecutive time-outs
func h3ReadAll(con *Connection, rnd *rand.Rand) ([]byte, error) {
	var got []byte
	timeouts := 0
	for {
		sz := 1 + rnd.Intn(3000)
		b := make([]byte, sz)
		n, err := con.Read(b)
		got = append(got, b[:n]...)
		if err != nil {
			if ne, ok := err.(net.Error); ok && ne.Timeout() {
				timeouts++
				if timeouts > 10000 {
					return got, errors.New("h3: stuck in timeouts")
				}
				continue
			}
			return got, err
		}
	}
}

func h3Chunk(rnd *rand.Rand, stream []byte, timeouts bool) [][]byte {
	var script [][]byte
	for len(stream) > 0 {
		var n int
		switch rnd.Intn(4) {
		case 0:
			n = 1 + rnd.Intn(3)
		case 1:
			n = 1 + rnd.Intn(40)
		case 2:
			n = 1 + rnd.Intn(1100)
		default:
			n = 1 + rnd.Intn(5000)
		}
		if n > len(stream) {
			n = len(stream)
		}
		script = append(script, append([]byte{}, stream[:n]...))
		stream = stream[n:]
		if timeouts && rnd.Intn(3) == 0 {
			script = append(script, nil)
		}
	}
	return script
}

// TestHunt3C05Random: random message sequences, random alterations, random chunking with time-outs.
func TestHunt3C05Random(t *testing.T) {
	rnd := rand.New(rand.NewSource(1))
	for iter := 0; iter < 6000; iter++ {
		acc, ctl := h3Sessions(t, byte(iter))
		_, otherCtl := h3Sessions(t, byte(iter)+77)

		// peer messages
		nmsg := 1 + rnd.Intn(4)
		var frames [][]byte
		var framePlain [][]byte
		for m := 0; m < nmsg; m++ {
			var l int
			switch rnd.Intn(5) {
			case 0:
				l = 1 + rnd.Intn(30)
			case 1:
				l = 1024
			case 2:
				l = 2048
			case 3:
				l = 1023 + rnd.Intn(3)
			default:
				l = 1 + rnd.Intn(3500)
			}
			p := h3Plain(rnd, l)
			fs := h3Frames(h3Encrypt(t, ctl, p))
			frames = append(frames, fs...)
			for len(p) > 0 {
				k := 1024
				if k > len(p) {
					k = len(p)
				}
				framePlain = append(framePlain, p[:k])
				p = p[k:]
			}
		}
		if len(frames) != len(framePlain) {
			t.Fatal("harness")
		}

		// alteration
		firstAltered := len(frames) // index of first frame that is not the original at its position
		kind := rnd.Intn(9)
		out := make([][]byte, len(frames))
		for i := range frames {
			out[i] = append([]byte{}, frames[i]...)
		}
		truncatedInside := false
		switch kind {
		case 0: // none
		case 1: // bit flip
			i := rnd.Intn(len(out))
			pos := rnd.Intn(len(out[i]))
			if rnd.Intn(3) == 0 {
				pos = rnd.Intn(2)
			}
			out[i][pos] ^= 1 << uint(rnd.Intn(8))
			firstAltered = i
			truncatedInside = pos < 2
		case 2: // drop
			i := rnd.Intn(len(out))
			out = append(out[:i], out[i+1:]...)
			firstAltered = i
		case 3: // duplicate
			i := rnd.Intn(len(out))
			dup := append([]byte{}, out[i]...)
			rest := append([][]byte{dup}, out[i+1:]...)
			out = append(out[:i+1], rest...)
			firstAltered = i + 1
		case 4: // swap
			if len(out) >= 2 {
				i := rnd.Intn(len(out) - 1)
				out[i], out[i+1] = out[i+1], out[i]
				firstAltered = i
			}
		case 5: // truncate inside a frame
			i := rnd.Intn(len(out))
			cut := rnd.Intn(len(out[i]))
			out[i] = out[i][:cut]
			out = out[:i+1]
			firstAltered = i
			truncatedInside = cut > 0
			if cut == 0 {
				out = out[:i]
			}
		case 6: // reflect the accessory's own frame
			i := rnd.Intn(len(out))
			for k := 0; k < i; k++ { // bring the accessory's counter to i
				h3Encrypt(t, acc, []byte("x"))
			}
			out[i] = h3Encrypt(t, acc, framePlain[i])
			firstAltered = i
		case 7: // frame from another session
			i := rnd.Intn(len(out))
			for k := 0; k < i; k++ {
				h3Encrypt(t, otherCtl, []byte("x"))
			}
			out[i] = h3Encrypt(t, otherCtl, framePlain[i])
			firstAltered = i
		case 8: // replay an earlier frame at a later position
			if len(out) >= 2 {
				i := 1 + rnd.Intn(len(out)-1)
				j := rnd.Intn(i)
				out[i] = append([]byte{}, frames[j]...)
				firstAltered = i
			}
		}
		_ = truncatedInside

		var stream []byte
		for _, f := range out {
			stream = append(stream, f...)
		}
		var want []byte
		for i := 0; i < firstAltered && i < len(framePlain); i++ {
			want = append(want, framePlain[i]...)
		}

		raw := &h3Conn{script: h3Chunk(rnd, stream, true)}
		ctx := NewContextForSecuredDevice(nil)
		con := NewConnection(raw, ctx)
		ctx.GetSessionForConnection(raw).SetCryptographer(acc)

		got, err := h3ReadAll(con, rnd)
		if !bytes.HasPrefix(want, got) {
			t.Fatalf("iter %d kind %d: released bytes are not a prefix of the unaltered part: got %d bytes want prefix of %d (err %v)", iter, kind, len(got), len(want), err)
		}
		if !bytes.Equal(want, got) {
			// fewer released than allowed: allowed by the statement but interesting
			t.Logf("iter %d kind %d firstAltered %d/%d: released %d of %d allowed (err %v)", iter, kind, firstAltered, len(frames), len(got), len(want), err)
		}
		if err == nil {
			t.Fatalf("iter %d kind %d: no error", iter, kind)
		}
		if firstAltered < len(out) && err == io.EOF && kind != 5 && !truncatedInside {
			t.Fatalf("iter %d kind %d: altered frame %d ended in plain EOF", iter, kind, firstAltered)
		}
		// after an error, nothing more must come out
		for k := 0; k < 3; k++ {
			b := make([]byte, 100)
			n, _ := con.Read(b)
			if n > 0 {
				t.Fatalf("iter %d kind %d: %d bytes released after the error %v", iter, kind, n, err)
			}
		}
	}
}

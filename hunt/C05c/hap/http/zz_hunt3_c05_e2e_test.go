package http

import (
	"bufio"
	"bytes"
	gocontext "context"
	"encoding/binary"
	"fmt"
	"io"
	"io/ioutil"
	"net"
	nethttp "net/http"
	"os"
	"sync"
	"sync/atomic"
	"testing"
	"time"

	"github.com/brutella/hc/accessory"
	"github.com/brutella/hc/crypto"
	"github.com/brutella/hc/crypto/chacha20poly1305"
	"github.com/brutella/hc/crypto/curve25519"
	"github.com/brutella/hc/crypto/hkdf"
	"github.com/brutella/hc/db"
	"github.com/brutella/hc/event"
	"github.com/brutella/hc/hap"
	"github.com/brutella/hc/hap/pair"
	"github.com/brutella/hc/log"
	"github.com/brutella/hc/util"
)

// ---- a reference accessory + a reference controller ----

type h3Rig struct {
	t            testing.TB
	srv          *Server
	ctx          hap.Context
	cancel       gocontext.CancelFunc
	addr         string
	sw           *accessory.Switch
	updates      int32 // number of remote updates of the switch seen by the application
	ctlName      string
	ctlPub       []byte
	ctlPriv      []byte
	accPub       []byte
	accName      string
	slow         time.Duration
	storageDelay *int64
}

// h3SlowStorage is a storage whose reads take a while (a slow disk, a network file system)
type h3SlowStorage struct {
	util.Storage
	delay *int64 // nanoseconds
}

func (s h3SlowStorage) Get(key string) ([]byte, error) {
	if d := atomic.LoadInt64(s.delay); d > 0 {
		time.Sleep(time.Duration(d))
	}
	return s.Storage.Get(key)
}

func newH3Rig(t testing.TB) *h3Rig {
	fs, err := util.NewTempFileStorage()
	if err != nil {
		t.Fatal(err)
	}
	delay := new(int64)
	storage := h3SlowStorage{fs, delay}
	database := db.NewDatabaseWithStorage(storage)
	device, err := hap.NewSecuredDevice("AA:BB:CC:DD:EE:FF", "00102003", database)
	if err != nil {
		t.Fatal(err)
	}
	pub, priv, err := crypto.ED25519GenerateKey("controller")
	if err != nil {
		t.Fatal(err)
	}
	r := &h3Rig{storageDelay: delay, t: t, ctlName: "controller-1", ctlPub: pub, ctlPriv: priv, accPub: device.PublicKey(), accName: device.Name()}
	if err := database.SaveEntity(db.NewEntity(r.ctlName, pub, nil)); err != nil {
		t.Fatal(err)
	}

	r.sw = accessory.NewSwitch(accessory.Info{Name: "sw"})
	container := accessory.NewContainer()
	container.AddAccessory(r.sw.Accessory)
	r.sw.Switch.On.OnValueRemoteUpdate(func(on bool) {
		if r.slow > 0 {
			time.Sleep(r.slow)
		}
		atomic.AddInt32(&r.updates, 1)
	})

	r.ctx = hap.NewContextForSecuredDevice(device)
	r.srv = NewServer(Config{
		Port:      "127.0.0.1:0",
		Context:   r.ctx,
		Database:  database,
		Container: container,
		Device:    device,
		Mutex:     &sync.Mutex{},
		Emitter:   event.NewEmitter(),
	})
	r.addr = "127.0.0.1:" + r.srv.Port()
	c, cancel := gocontext.WithCancel(gocontext.Background())
	r.cancel = cancel
	go r.srv.ListenAndServe(c)
	return r
}

type h3Ctl struct {
	conn net.Conn
	br   *bufio.Reader
	sess crypto.Cryptographer
	// every encrypted frame sent / received, for the adversary
	sent [][]byte
}

func (r *h3Rig) post(c net.Conn, br *bufio.Reader, path string, body []byte) []byte {
	req := fmt.Sprintf("POST %s HTTP/1.1\r\nHost: x\r\nContent-Type: application/pairing+tlv8\r\nContent-Length: %d\r\n\r\n", path, len(body))
	c.Write(append([]byte(req), body...))
	resp, err := nethttp.ReadResponse(br, nil)
	if err != nil {
		r.t.Fatal(err)
	}
	b, _ := ioutil.ReadAll(resp.Body)
	return b
}

// verifyMessages runs M1/M2 and returns the bytes of the M3 request and the shared key, without sending M3
func (r *h3Rig) startVerify(c net.Conn, br *bufio.Reader) (m3 []byte, shared [32]byte) {
	priv := curve25519.GeneratePrivateKey()
	pub := curve25519.PublicKey(priv)
	m1 := util.NewTLV8Container()
	m1.SetByte(pair.TagPairingMethod, 0)
	m1.SetByte(pair.TagSequence, pair.VerifyStepStartRequest.Byte())
	m1.SetBytes(pair.TagPublicKey, pub[:])
	m2b := r.post(c, br, "/pair-verify", m1.BytesBuffer().Bytes())
	m2, err := util.NewTLV8ContainerFromReader(bytes.NewReader(m2b))
	if err != nil {
		r.t.Fatal(err)
	}
	var other [32]byte
	copy(other[:], m2.GetBytes(pair.TagPublicKey))
	shared = curve25519.SharedSecret(priv, other)
	ek, _ := hkdf.Sha512(shared[:], []byte("Pair-Verify-Encrypt-Salt"), []byte("Pair-Verify-Encrypt-Info"))

	var material []byte
	material = append(material, pub[:]...)
	material = append(material, r.ctlName...)
	material = append(material, other[:]...)
	sig, err := crypto.ED25519Signature(r.ctlPriv, material)
	if err != nil {
		r.t.Fatal(err)
	}
	inner := util.NewTLV8Container()
	inner.SetString(pair.TagUsername, r.ctlName)
	inner.SetBytes(pair.TagSignature, sig)
	enc, mac, _ := chacha20poly1305.EncryptAndSeal(ek[:], []byte("PV-Msg03"), inner.BytesBuffer().Bytes(), nil)
	m3c := util.NewTLV8Container()
	m3c.SetByte(pair.TagSequence, pair.VerifyStepFinishRequest.Byte())
	m3c.SetBytes(pair.TagEncryptedData, append(enc, mac[:]...))
	body := m3c.BytesBuffer().Bytes()
	req := fmt.Sprintf("POST /pair-verify HTTP/1.1\r\nHost: x\r\nContent-Type: application/pairing+tlv8\r\nContent-Length: %d\r\n\r\n", len(body))
	return append([]byte(req), body...), shared
}

// connect dials and completes pair-verify. The known hand-over race (M4 sometimes leaves encrypted) is
// stepped around by trying again.
func (r *h3Rig) connect() *h3Ctl {
	for try := 0; try < 20; try++ {
		c, err := net.Dial("tcp", r.addr)
		if err != nil {
			r.t.Fatal(err)
		}
		br := bufio.NewReader(c)
		m3, shared := r.startVerify(c, br)
		c.Write(m3)
		c.SetReadDeadline(time.Now().Add(300 * time.Millisecond))
		resp, err := nethttp.ReadResponse(br, nil)
		if err != nil {
			c.Close()
			continue
		}
		b, _ := ioutil.ReadAll(resp.Body)
		c.SetReadDeadline(time.Time{})
		m4, _ := util.NewTLV8ContainerFromReader(bytes.NewReader(b))
		if m4.GetByte(pair.TagErrCode) != 0 || m4.GetByte(pair.TagSequence) != pair.VerifyStepFinishResponse.Byte() {
			r.t.Fatalf("pair-verify failed: % x", b)
		}
		sess, _ := crypto.NewSecureClientSessionFromSharedKey(shared)
		return &h3Ctl{conn: c, br: br, sess: sess}
	}
	r.t.Fatal("no connection")
	return nil
}

func (c *h3Ctl) seal(p []byte) []byte {
	r, _ := c.sess.Encrypt(bytes.NewReader(p))
	b, _ := ioutil.ReadAll(r)
	return b
}

// readFrameRaw reads one raw frame from the accessory
func (c *h3Ctl) readFrameRaw(d time.Duration) ([]byte, error) {
	c.conn.SetReadDeadline(time.Now().Add(d))
	hdr := make([]byte, 2)
	if _, err := io.ReadFull(c.br, hdr); err != nil {
		return nil, err
	}
	rest := make([]byte, int(binary.LittleEndian.Uint16(hdr))+16)
	if _, err := io.ReadFull(c.br, rest); err != nil {
		return nil, err
	}
	return append(hdr, rest...), nil
}

func (c *h3Ctl) readPlain(d time.Duration) (string, error) {
	f, err := c.readFrameRaw(d)
	if err != nil {
		return "", err
	}
	r, err := c.sess.Decrypt(bytes.NewReader(f))
	if err != nil {
		return "", err
	}
	b, _ := ioutil.ReadAll(r)
	return string(b), nil
}

func putOn(aid, iid uint64, v bool) []byte {
	body := fmt.Sprintf(`{"characteristics":[{"aid":%d,"iid":%d,"value":%v}]}`, aid, iid, v)
	return []byte(fmt.Sprintf("PUT /characteristics HTTP/1.1\r\nHost: x\r\nContent-Length: %d\r\n\r\n%s", len(body), body))
}

func (r *h3Rig) put(v bool) []byte { return putOn(r.sw.ID, r.sw.Switch.On.ID, v) }

func init() { log.Info.Disable(); log.Debug.Disable() }

// sanity: the rig works
func TestHunt3C05E2ESanity(t *testing.T) {
	r := newH3Rig(t)
	defer r.cancel()
	c := r.connect()
	c.conn.Write(c.seal(r.put(true)))
	s, err := c.readPlain(2 * time.Second)
	if err != nil {
		t.Fatal(err)
	}
	if atomic.LoadInt32(&r.updates) != 1 {
		t.Fatalf("updates %d, response %q", r.updates, s)
	}
	t.Logf("%q", s)
}

// replay / duplicate / reorder / reflect / bit flip at the level of the application: how often is the switch written?
func TestHunt3C05E2EAlterations(t *testing.T) {
	r := newH3Rig(t)
	defer r.cancel()

	type tc struct {
		name string
		run  func(c *h3Ctl) (wantUpdates int32)
	}
	cases := []tc{
		{"duplicate frame", func(c *h3Ctl) int32 {
			f := c.seal(r.put(true))
			c.conn.Write(append(append([]byte{}, f...), f...))
			return 1
		}},
		{"duplicate frame, separate segments", func(c *h3Ctl) int32 {
			f := c.seal(r.put(true))
			c.conn.Write(f)
			c.readPlain(time.Second)
			c.conn.Write(f)
			return 1
		}},
		{"swap", func(c *h3Ctl) int32 {
			f1 := c.seal(r.put(true))
			f2 := c.seal(r.put(false))
			c.conn.Write(append(append([]byte{}, f2...), f1...))
			return 0
		}},
		{"drop first", func(c *h3Ctl) int32 {
			c.seal(r.put(true))
			f2 := c.seal(r.put(false))
			c.conn.Write(f2)
			return 0
		}},
		{"reflect response", func(c *h3Ctl) int32 {
			c.conn.Write(c.seal(r.put(true)))
			f, err := c.readFrameRaw(time.Second)
			if err != nil {
				t.Fatal(err)
			}
			c.conn.Write(f)
			return 1
		}},
		{"bit flip in every byte of a small frame", func(c *h3Ctl) int32 { return -1 }},
		{"split request over two frames, second replaced by replay of first", func(c *h3Ctl) int32 {
			p := r.put(true)
			f1 := c.seal(p[:40])
			c.seal(p[40:])
			c.conn.Write(append(append([]byte{}, f1...), f1...))
			return 0
		}},
		{"plain text request behind an authentic frame", func(c *h3Ctl) int32 {
			f := c.seal(r.put(true))
			c.conn.Write(append(append([]byte{}, f...), r.put(false)...))
			return 1
		}},
		{"other session's frame", func(c *h3Ctl) int32 {
			o := r.connect()
			defer o.conn.Close()
			c.conn.Write(o.seal(r.put(true)))
			return 0
		}},
	}
	for _, k := range cases {
		if k.name == "bit flip in every byte of a small frame" {
			for pos := 0; pos < 40; pos++ {
				r.sw.Switch.On.SetValue(false)
				atomic.StoreInt32(&r.updates, 0)
				c := r.connect()
				f := c.seal(r.put(true))
				f[(pos*7)%len(f)] ^= 0x10
				c.conn.Write(f)
				c.conn.Write(c.seal(r.put(false)))
				time.Sleep(20 * time.Millisecond)
				if n := atomic.LoadInt32(&r.updates); n != 0 {
					t.Errorf("bit flip at %d: %d updates", (pos*7)%len(f), n)
				}
				c.conn.Close()
			}
			continue
		}
		r.sw.Switch.On.SetValue(false)
		atomic.StoreInt32(&r.updates, 0)
		c := r.connect()
		want := k.run(c)
		time.Sleep(100 * time.Millisecond)
		if n := atomic.LoadInt32(&r.updates); n != want {
			t.Errorf("%s: the application saw %d writes, want %d", k.name, n, want)
		}
		// the connection must be dead afterwards: an authentic follow-up is not served
		c.conn.Close()
	}
}

// the adversary splices bytes behind the request that completes pair-verify (M3), in the same segment
func TestHunt3C05E2ESpliceBehindM3(t *testing.T) {
	r := newH3Rig(t)
	defer r.cancel()
	for i := 0; i < 30; i++ {
		r.sw.Switch.On.SetValue(false)
		atomic.StoreInt32(&r.updates, 0)
		c, err := net.Dial("tcp", r.addr)
		if err != nil {
			t.Fatal(err)
		}
		br := bufio.NewReader(c)
		m3, _ := r.startVerify(c, br)
		c.Write(append(append([]byte{}, m3...), r.put(true)...))
		time.Sleep(30 * time.Millisecond)
		if n := atomic.LoadInt32(&r.updates); n != 0 {
			t.Fatalf("round %d: plain text behind M3 was executed (%d)", i, n)
		}
		c.Close()
	}
}

// legitimate pipelining: M3 and the first encrypted request in one segment
func TestHunt3C05E2EPipelinedBehindM3(t *testing.T) {
	r := newH3Rig(t)
	defer r.cancel()
	bad := 0
	for i := 0; i < 30; i++ {
		r.sw.Switch.On.SetValue(false)
		atomic.StoreInt32(&r.updates, 0)
		c, err := net.Dial("tcp", r.addr)
		if err != nil {
			t.Fatal(err)
		}
		br := bufio.NewReader(c)
		m3, shared := r.startVerify(c, br)
		sess, _ := crypto.NewSecureClientSessionFromSharedKey(shared)
		ctl := &h3Ctl{conn: c, br: br, sess: sess}
		c.Write(append(append([]byte{}, m3...), ctl.seal(r.put(true))...))
		time.Sleep(30 * time.Millisecond)
		if n := atomic.LoadInt32(&r.updates); n != 1 {
			bad++
		}
		c.Close()
	}
	t.Logf("pipelined authentic request behind M3 not executed in %d of 30 rounds", bad)
}

// C05: "Whatever an on-path adversary does to the encrypted byte stream ... the receiving side never releases
// plaintext other than an unmodified prefix ... of what the peer sent. It reports an error no later than the
// first altered frame."
//
// Alteration: ONE byte inserted in front of the first encrypted frame. The adversary forwards the request which
// completes pair-verify (M3) with that byte appended (same segment); everything else passes untouched. The
// controller receives M4 and sends its first, authentic, encrypted request "PUT /characteristics ... value true".
//
// Observed: no error. The accessory serves the request as "XPUT /characteristics" (plain text released in the
// verified session = 'X' + what the controller sent), answers "200 OK" and never writes the switch.
//
// Why: net/http keeps a one-byte read pending while a handler runs; it is issued as soon as the body of M3 has
// been read. The byte behind M3 is already in the connection's buffered reader, Peek(1) succeeds, the keys are not
// installed yet (the handler still verifies the signature), so Connection.Read hands the byte out as plain text.
// After the switch net/http puts that byte in front of the decrypted stream. Fixes a3e6945 / b224124 closed the
// 4096-byte and the pending-read variants; one byte is still taken.
//
// The storage of the accessory is made slow (20 ms per read: pair-verify looks the controller up) only to make
// the order of the two goroutines the same on every run; without the delay the same happens in most rounds.
func TestHunt3C05E2EOneByteInFrontOfEncryptedStream(t *testing.T) {
	r := newH3Rig(t)
	defer r.cancel()
	rounds, silent := 0, 0
	for i := 0; i < 10; i++ {
		r.sw.Switch.On.SetValue(false)
		atomic.StoreInt32(&r.updates, 0)
		c, err := net.Dial("tcp", r.addr)
		if err != nil {
			t.Fatal(err)
		}
		br := bufio.NewReader(c)
		m3, shared := r.startVerify(c, br)
		if os.Getenv("H3_NODELAY") == "" {
			atomic.StoreInt64(r.storageDelay, int64(20*time.Millisecond))
		}
		c.Write(append(append([]byte{}, m3...), 'X')) // <- the adversary's byte
		c.SetReadDeadline(time.Now().Add(time.Second))
		resp, err := nethttp.ReadResponse(br, nil)
		atomic.StoreInt64(r.storageDelay, 0)
		if err != nil {
			c.Close()
			continue // known hand-over race (M4 left encrypted) or an error: both are reports
		}
		ioutil.ReadAll(resp.Body)
		rounds++
		sess, _ := crypto.NewSecureClientSessionFromSharedKey(shared)
		ctl := &h3Ctl{conn: c, br: br, sess: sess}
		c.Write(ctl.seal(r.put(true))) // authentic, untouched
		answer, err := ctl.readPlain(500 * time.Millisecond)
		n := atomic.LoadInt32(&r.updates)
		c.Close()
		if err == nil && n == 0 {
			silent++
			t.Logf("round %d: authentic PUT answered %q, switch written %d times", i, answer[:15], n)
		}
	}
	if silent > 0 {
		t.Fatalf("in %d of %d rounds the inserted byte became part of the plain text of the verified session: the authentic request was answered without an error and not executed", silent, rounds)
	}
}

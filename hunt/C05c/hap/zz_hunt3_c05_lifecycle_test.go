package hap

import (
	"bytes"
	"net"
	"syscall"
	"testing"
	"time"
)

// C05, clause "the receiving side never releases plaintext other than an unmodified prefix, at frame
// granularity, of what the peer sent. It reports an error ...".
//
// History: the peer sends three authentic frames which arrive together (one TCP segment, pipelined requests).
// The accessory reads the first one. Then the connection is closed locally (what Server.ListenAndServe
// does to every active connection when the transport is stopped) while the reader goroutine still owns the
// connection. The next Read of the encrypted connection hands out the raw cipher text of frame 2, byte by
// byte, with a nil error: Connection.Read decides "encrypted or not" by looking the session up in the
// context again, the session is gone, so the bytes in the read-ahead buffer are taken for plain text.
func TestHunt3C05ReadAfterCloseReleasesCipherText(t *testing.T) {
	acc, ctl := h3Sessions(t, 1)
	p1 := []byte("GET /accessories HTTP/1.1\r\n\r\n")
	p2 := []byte("PUT /characteristics HTTP/1.1\r\nContent-Length: 0\r\n\r\n")
	p3 := []byte("GET /characteristics?id=1.9 HTTP/1.1\r\n\r\n")
	f1 := h3Encrypt(t, ctl, p1)
	f2 := h3Encrypt(t, ctl, p2)
	f3 := h3Encrypt(t, ctl, p3)

	var stream []byte
	stream = append(stream, f1...)
	stream = append(stream, f2...)
	stream = append(stream, f3...)

	raw := &h3Conn{script: [][]byte{stream}}
	ctx := NewContextForSecuredDevice(nil)
	con := NewConnection(raw, ctx)
	ctx.GetSessionForConnection(raw).SetCryptographer(acc)

	b := make([]byte, 4096)
	n, err := con.Read(b)
	if err != nil || !bytes.Equal(b[:n], p1) {
		t.Fatalf("frame 1: %q %v", b[:n], err)
	}

	// transport stop: for _, c := range s.context.ActiveConnections() { c.Close() }
	for _, c := range ctx.ActiveConnections() {
		c.Close()
	}

	allowed := append(append([]byte{}, p2...), p3...)
	var got []byte
	for i := 0; i < 200; i++ {
		n, err = con.Read(b)
		got = append(got, b[:n]...)
		if err != nil {
			break
		}
	}
	if len(got) > 0 && !bytes.HasPrefix(allowed, got) {
		t.Fatalf("after Close the encrypted connection released %d bytes which the peer never sent as plain text (they are the cipher text of frame 2: %v), last err %v",
			len(got), bytes.HasPrefix(append(append([]byte{}, f2...), f3...), got), err)
	}
}

// Same clause, history "reconnect from the same address": a second connection with the same remote and
// local address as a connection which the accessory still holds (the first one was reset by the peer - or by
// the on-path adversary - and the accessory has not noticed yet because it is busy with a request) takes over
// the context entry. The first, pair-verified connection then reads with the session of the second one,
// which has no keys: its read-ahead (adversary-chosen bytes, nothing authenticates them any more) is released
// as plain text.
func TestHunt3C05SameAddressReconnectTurnsDecryptionOff(t *testing.T) {
	acc, ctl := h3Sessions(t, 2)
	p1 := []byte("GET /accessories HTTP/1.1\r\n\r\n")
	f1 := h3Encrypt(t, ctl, p1)
	// the adversary appends its own bytes behind the authentic frame
	injected := []byte("PUT /characteristics HTTP/1.1\r\nContent-Length: 46\r\n\r\n{\"characteristics\":[{\"aid\":1,\"iid\":9,\"value\":1}]}")

	rawA := &h3Conn{script: [][]byte{append(append([]byte{}, f1...), injected...)}}
	ctx := NewContextForSecuredDevice(nil)
	conA := NewConnection(rawA, ctx)
	ctx.GetSessionForConnection(rawA).SetCryptographer(acc)

	b := make([]byte, 4096)
	n, err := conA.Read(b)
	if err != nil || !bytes.Equal(b[:n], p1) {
		t.Fatalf("frame 1: %q %v", b[:n], err)
	}

	// same 4-tuple again
	rawB := &h3Conn{}
	NewConnection(rawB, ctx)

	var got []byte
	for i := 0; i < 200; i++ {
		n, err = conA.Read(b)
		got = append(got, b[:n]...)
		if err != nil {
			break
		}
	}
	if len(got) > 0 {
		t.Fatalf("the pair-verified connection released %d unauthenticated bytes as plain text: %q (err %v)", len(got), got, err)
	}
}

// The same history over real TCP on loopback: RST, then a new connection from the same source port.
func TestHunt3C05SameAddressReconnectTCP(t *testing.T) {
	ln, err := net.Listen("tcp", "127.0.0.1:0")
	if err != nil {
		t.Skip(err)
	}
	defer ln.Close()

	acc, ctl := h3Sessions(t, 3)
	p1 := []byte("GET /accessories HTTP/1.1\r\n\r\n")
	f1 := h3Encrypt(t, ctl, p1)
	injected := []byte("PUT /characteristics HTTP/1.1\r\nContent-Length: 46\r\n\r\n{\"characteristics\":[{\"aid\":1,\"iid\":9,\"value\":1}]}")

	dial := func(port int) *net.TCPConn {
		d := net.Dialer{
			LocalAddr: &net.TCPAddr{IP: net.ParseIP("127.0.0.1"), Port: port},
			Control: func(network, address string, c syscall.RawConn) error {
				return c.Control(func(fd uintptr) {
					syscall.SetsockoptInt(int(fd), syscall.SOL_SOCKET, syscall.SO_REUSEADDR, 1)
				})
			},
		}
		c, err := d.Dial("tcp", ln.Addr().String())
		if err != nil {
			t.Skip("dial: ", err)
		}
		return c.(*net.TCPConn)
	}

	cA := dial(0)
	port := cA.LocalAddr().(*net.TCPAddr).Port
	sA, err := ln.Accept()
	if err != nil {
		t.Fatal(err)
	}
	ctx := NewContextForSecuredDevice(nil)
	conA := NewConnection(sA, ctx)
	ctx.GetSessionForConnection(sA).SetCryptographer(acc)

	cA.Write(append(append([]byte{}, f1...), injected...))
	time.Sleep(50 * time.Millisecond)

	b := make([]byte, 4096)
	n, err := conA.Read(b)
	if err != nil || !bytes.Equal(b[:n], p1) {
		t.Fatalf("frame 1: %q %v", b[:n], err)
	}

	// the accessory is busy with the request; meanwhile: reset and reconnect from the same port
	cA.SetLinger(0)
	cA.Close()
	time.Sleep(50 * time.Millisecond)
	cB := dial(port)
	defer cB.Close()
	sB, err := ln.Accept()
	if err != nil {
		t.Fatal(err)
	}
	if sB.RemoteAddr().String() != sA.RemoteAddr().String() {
		t.Skip("could not reuse the port")
	}
	NewConnection(sB, ctx)

	var got []byte
	for i := 0; i < 200; i++ {
		n, err = conA.Read(b)
		got = append(got, b[:n]...)
		if err != nil {
			break
		}
	}
	if len(got) > 0 {
		t.Fatalf("the pair-verified connection released %d unauthenticated bytes as plain text: %q (err %v)", len(got), got, err)
	}
}

// Sibling of fix edd9b84 (EncryptedWrite and a session which is gone): decryptFrame looks the decrypter up
// a second time after it has waited for the frame. When the connection is closed (transport stop) between
// the arrival of the frame and that lookup, the lookup returns nil and the call of Decrypt on it panics -
// in net/http's background-read goroutine nothing recovers it. The property asks for an error.
// The scripted connection reproduces the interleaving deterministically: the frame "arrives" (Read returns
// it) right after Close has removed the session.
func TestHunt3C05CloseWhileFrameArrivesPanics(t *testing.T) {
	acc, ctl := h3Sessions(t, 4)
	f1 := h3Encrypt(t, ctl, []byte("GET /accessories HTTP/1.1\r\n\r\n"))

	raw := &h3Conn{script: [][]byte{f1}}
	ctx := NewContextForSecuredDevice(nil)
	con := NewConnection(raw, ctx)
	ctx.GetSessionForConnection(raw).SetCryptographer(acc)
	raw.onRead = func() {
		// the other goroutine: transport stop
		if s := ctx.GetSessionForConnection(raw); s != nil {
			s.Connection().Close()
		}
	}

	defer func() {
		if r := recover(); r != nil {
			t.Fatalf("Read panicked instead of returning an error: %v", r)
		}
	}()
	b := make([]byte, 4096)
	n, err := con.Read(b)
	t.Logf("n=%d err=%v", n, err)
}

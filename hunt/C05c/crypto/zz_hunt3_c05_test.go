package crypto

import (
	"bytes"
	"encoding/binary"
	"io"
	"io/ioutil"
	"math/rand"
	"testing"
	"testing/iotest"
)

func h3pair(t testing.TB, seed byte) (acc, ctl *secureSession) {
	var key [32]byte
	for i := range key {
		key[i] = seed*3 + byte(i)
	}
	a, err := NewSecureSessionFromSharedKey(key)
	if err != nil {
		t.Fatal(err)
	}
	c, err := NewSecureClientSessionFromSharedKey(key)
	if err != nil {
		t.Fatal(err)
	}
	return a.(*secureSession), c.(*secureSession)
}

func h3enc(t testing.TB, s *secureSession, p []byte) []byte {
	r, err := s.Encrypt(bytes.NewReader(p))
	if err != nil {
		t.Fatal(err)
	}
	b, _ := ioutil.ReadAll(r)
	return b
}

// drain calls Decrypt on the same reader until an error or until nothing more comes
func h3drain(s *secureSession, r io.Reader) ([]byte, error) {
	var got []byte
	for i := 0; i < 50; i++ {
		out, err := s.Decrypt(r)
		if err != nil {
			return got, err
		}
		b, _ := ioutil.ReadAll(out)
		if len(b) == 0 {
			return got, nil
		}
		got = append(got, b...)
	}
	return got, nil
}

// every single bit flip, for plaintexts of bounded size, every start counter from a small set, three reader kinds
func TestHunt3C05DecryptEveryBitFlip(t *testing.T) {
	sizes := []int{1, 2, 15, 16, 17, 64, 1023, 1024, 1025, 2048, 2049}
	for _, size := range sizes {
		for _, start := range []uint64{0, 1, 255, 256, 1<<32 - 1, 1 << 32, 1<<64 - 3} {
			acc, ctl := h3pair(t, byte(size))
			ctl.encryptCount = start
			p := bytes.Repeat([]byte{0x5a}, size)
			stream := h3enc(t, ctl, p)
			step := 1
			if size > 100 {
				step = 7 // every 7th bit for the large ones
			}
			for bit := 0; bit < len(stream)*8; bit += step {
				acc.decryptCount = start
				acc.decryptErr = nil
				mod := append([]byte{}, stream...)
				mod[bit/8] ^= 1 << uint(bit%8)
				// frame index of the altered bit
				off, fi := 0, 0
				for {
					n := 2 + int(binary.LittleEndian.Uint16(stream[off:])) + 16
					if bit/8 < off+n {
						break
					}
					off += n
					fi++
				}
				var r io.Reader = bytes.NewReader(mod)
				switch bit % 3 {
				case 1:
					r = iotest.OneByteReader(r)
				case 2:
					r = iotest.DataErrReader(r)
				}
				got, err := h3drain(acc, r)
				allowed := p
				if fi*1024 < len(p) {
					allowed = p[:fi*1024]
				}
				if !bytes.HasPrefix(allowed, got) {
					t.Fatalf("size %d start %d bit %d: released %d bytes, allowed prefix of %d", size, start, bit, len(got), len(allowed))
				}
				if err == nil {
					t.Fatalf("size %d start %d bit %d: no error (released %d)", size, start, bit, len(got))
				}
			}
		}
	}
}

// every permutation / duplication / deletion of up to 4 frames (as sequences over the frame indices of length <= 5)
func TestHunt3C05DecryptFrameSequences(t *testing.T) {
	rnd := rand.New(rand.NewSource(5))
	for _, full := range []bool{false, true} {
		_, ctl := h3pair(t, 9)
		var frames, plains [][]byte
		for i := 0; i < 4; i++ {
			l := 1 + rnd.Intn(200)
			if full {
				l = 1024
			}
			p := bytes.Repeat([]byte{byte('A' + i)}, l)
			plains = append(plains, p)
			frames = append(frames, h3enc(t, ctl, p))
		}
		var seq []int
		var rec func(depth int)
		rec = func(depth int) {
			if depth > 0 {
				acc, _ := h3pair(t, 9)
				var stream, allowed []byte
				ok := true
				for pos, idx := range seq {
					stream = append(stream, frames[idx]...)
					if idx != pos {
						ok = false
					}
					if ok {
						allowed = append(allowed, plains[idx]...)
					}
				}
				got, err := h3drain(acc, bytes.NewReader(stream))
				if !bytes.HasPrefix(allowed, got) {
					t.Fatalf("full=%v seq %v: released %q..., allowed %d bytes", full, seq, got[:1], len(allowed))
				}
				if !ok && err == nil {
					t.Fatalf("full=%v seq %v: no error", full, seq)
				}
				if ok && (err != nil || !bytes.Equal(got, allowed)) {
					t.Fatalf("full=%v seq %v: authentic prefix not delivered: %d of %d, %v", full, seq, len(got), len(allowed), err)
				}
			}
			if depth == 5 {
				return
			}
			for i := 0; i < 4; i++ {
				seq = append(seq, i)
				rec(depth + 1)
				seq = seq[:len(seq)-1]
			}
		}
		rec(0)
	}
}

// reflection and cross-session: frames of the accessory itself / of a session with another key / of an
// earlier session with the same long-term material, at every counter position
func TestHunt3C05DecryptReflectionAndCrossSession(t *testing.T) {
	for pos := 0; pos < 4; pos++ {
		acc, ctl := h3pair(t, 1)
		acc2, ctl2 := h3pair(t, 2)
		_ = acc2
		p := []byte("hello")
		var stream []byte
		for i := 0; i < pos; i++ {
			stream = append(stream, h3enc(t, ctl, p)...)
			h3enc(t, acc, p)
			h3enc(t, ctl2, p)
		}
		for name, f := range map[string][]byte{"reflect": h3enc(t, acc, p), "cross": h3enc(t, ctl2, p)} {
			a, _ := h3pair(t, 1)
			got, err := h3drain(a, bytes.NewReader(append(append([]byte{}, stream...), f...)))
			if err == nil || len(got) != pos*len(p) {
				t.Fatalf("%s pos %d: got %d err %v", name, pos, len(got), err)
			}
		}
	}
}

// the counter is 64 bit: what happens at the wrap
func TestHunt3C05CounterWrap(t *testing.T) {
	acc, ctl := h3pair(t, 1)
	first := h3enc(t, ctl, []byte("frame number zero")) // counter 0
	ctl.encryptCount = 1<<64 - 1
	acc.decryptCount = 1<<64 - 1
	last := h3enc(t, ctl, []byte("frame number 2^64-1"))
	got, err := h3drain(acc, bytes.NewReader(append(append([]byte{}, last...), first...)))
	t.Logf("after the wrap a replay of frame 0 gives %q err %v", got, err)
}

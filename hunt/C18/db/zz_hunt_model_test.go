package db

import (
	"bytes"
	"math/rand"
	"os"
	"sort"
	"testing"
)

func eqEntity(a, b Entity) bool {
	return a.Name == b.Name && bytes.Equal(a.PublicKey, b.PublicKey) && bytes.Equal(a.PrivateKey, b.PrivateKey)
}

func TestZZHuntDBModel(t *testing.T) {
	for seed := int64(0); seed < 30; seed++ {
		rnd := rand.New(rand.NewSource(seed))
		dir, _ := os.MkdirTemp("", "zzdb")
		defer os.RemoveAll(dir)
		d, err := NewDatabase(dir)
		if err != nil {
			t.Fatal(err)
		}
		// names: arbitrary bytes up to 100 bytes
		var names []string
		names = append(names, "", "a", "A", "My Name", "a:b", "ab", "../x", "\x00", string(bytes.Repeat([]byte{'z'}, 100)))
		for i := 0; i < 6; i++ {
			b := make([]byte, rnd.Intn(101))
			rnd.Read(b)
			names = append(names, string(b))
		}
		model := map[string]Entity{}
		lens := []int{0, 1, 32, 33, 100, 1000, 4096}
		for i := 0; i < 300; i++ {
			n := names[rnd.Intn(len(names))]
			switch rnd.Intn(6) {
			case 0, 1:
				pk := make([]byte, lens[rnd.Intn(len(lens))])
				sk := make([]byte, lens[rnd.Intn(len(lens))])
				rnd.Read(pk)
				rnd.Read(sk)
				e := NewEntity(n, pk, sk)
				if err := d.SaveEntity(e); err != nil {
					t.Fatalf("seed %d step %d SaveEntity(%q): %v", seed, i, n, err)
				}
				model[n] = e
			case 2:
				d.DeleteEntity(Entity{Name: n})
				delete(model, n)
			case 3:
				e, err := d.EntityWithName(n)
				me, ok := model[n]
				if ok {
					if err != nil || !eqEntity(e, me) {
						t.Fatalf("seed %d step %d EntityWithName(%q): err=%v got name %q", seed, i, n, err, e.Name)
					}
				} else if err == nil {
					t.Fatalf("seed %d step %d EntityWithName(%q) absent: no error", seed, i, n)
				}
			case 4:
				es, err := d.Entities()
				if err != nil {
					t.Fatalf("seed %d step %d Entities: %v", seed, i, err)
				}
				if len(es) != len(model) {
					t.Fatalf("seed %d step %d Entities: %d want %d", seed, i, len(es), len(model))
				}
				sort.Slice(es, func(i, j int) bool { return es[i].Name < es[j].Name })
				for _, e := range es {
					me, ok := model[e.Name]
					if !ok || !eqEntity(e, me) {
						t.Fatalf("seed %d step %d Entities: listed entity name %q live=%v", seed, i, e.Name, ok)
					}
				}
			case 5:
				d, err = NewDatabase(dir)
				if err != nil {
					t.Fatal(err)
				}
			}
		}
	}
}

package db

import (
	"os"
	"testing"
)

// An entity name that is not valid UTF-8 (the property covers "entity names of
// arbitrary bytes up to 100 bytes") does not round-trip: the stored JSON has
// U+FFFD in place of every invalid byte, the key is the hex of the original name.
func TestZZHuntNonUTF8NameRoundTrip(t *testing.T) {
	dir, _ := os.MkdirTemp("", "zzdb")
	defer os.RemoveAll(dir)
	d, _ := NewDatabase(dir)

	name := "\xff\xfe device"
	if err := d.SaveEntity(NewEntity(name, []byte{1}, []byte{2})); err != nil {
		t.Fatal(err)
	}
	d, _ = NewDatabase(dir) // reopen
	e, err := d.EntityWithName(name)
	if err != nil {
		t.Fatal(err)
	}
	if e.Name != name {
		t.Errorf("EntityWithName(%q) returned entity named %q", name, e.Name)
	}
	es, err := d.Entities()
	if err != nil || len(es) != 1 {
		t.Fatal(es, err)
	}
	if es[0].Name != name {
		t.Errorf("Entities() lists %q, the live entry is %q", es[0].Name, name)
	}
	// the listed name is not a key of the database
	if _, err := d.EntityWithName(es[0].Name); err != nil {
		t.Errorf("entity listed as %q cannot be looked up under that name: %v", es[0].Name, err)
	}
}

// Consequence: delete what the database returned (this is what the pairing
// remove path does: EntityWithName -> DeleteEntity) and the entry stays.
func TestZZHuntNonUTF8NameDeleteListed(t *testing.T) {
	dir, _ := os.MkdirTemp("", "zzdb")
	defer os.RemoveAll(dir)
	d, _ := NewDatabase(dir)

	name := "ctrl-\x80"
	d.SaveEntity(NewEntity(name, []byte{1}, nil))
	e, err := d.EntityWithName(name)
	if err != nil {
		t.Fatal(err)
	}
	d.DeleteEntity(e)
	if _, err := d.EntityWithName(name); err == nil {
		t.Errorf("entity %q still found after DeleteEntity of the entity returned by EntityWithName", name)
	}
	if es, _ := d.Entities(); len(es) != 0 {
		t.Errorf("Entities() after delete: %d entries (%q)", len(es), es[0].Name)
	}
}

// Two distinct names that differ only in an invalid byte are listed as the same name.
func TestZZHuntNonUTF8NamesCollideInListing(t *testing.T) {
	dir, _ := os.MkdirTemp("", "zzdb")
	defer os.RemoveAll(dir)
	d, _ := NewDatabase(dir)
	d.SaveEntity(NewEntity("x\x80", []byte{1}, nil))
	d.SaveEntity(NewEntity("x\x81", []byte{2}, nil))
	es, err := d.Entities()
	if err != nil || len(es) != 2 {
		t.Fatal(es, err)
	}
	if es[0].Name == es[1].Name {
		t.Errorf("two distinct live entries listed under one name %q", es[0].Name)
	}
}

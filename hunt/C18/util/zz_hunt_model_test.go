package util

import (
	"bytes"
	"fmt"
	"math/rand"
	"os"
	"sort"
	"testing"
)

// model-based random histories over the file storage incl. reopen
func TestZZHuntStorageModel(t *testing.T) {
	for seed := int64(0); seed < 30; seed++ {
		rnd := rand.New(rand.NewSource(seed))
		dir, _ := os.MkdirTemp("", "zzst")
		defer os.RemoveAll(dir)
		st, err := NewFileStorage(dir)
		if err != nil {
			t.Fatal(err)
		}
		keys := []string{"a", "b", "uuid", "x.entity", "y.entity", "keypair", "A", "a b", "ä", ".hidden", "k.tmpx"}
		model := map[string][]byte{}
		lens := []int{0, 1, 31, 32, 33, 63, 64, 65, 100, 1000, 4095, 4096}
		for i := 0; i < 400; i++ {
			k := keys[rnd.Intn(len(keys))]
			switch rnd.Intn(6) {
			case 0, 1:
				v := make([]byte, lens[rnd.Intn(len(lens))])
				rnd.Read(v)
				if err := st.Set(k, v); err != nil {
					t.Fatalf("seed %d step %d Set(%q): %v", seed, i, k, err)
				}
				model[k] = v
			case 2:
				err := st.Delete(k)
				if _, ok := model[k]; ok && err != nil {
					t.Fatalf("seed %d step %d Delete(%q) live: %v", seed, i, k, err)
				}
				delete(model, k)
			case 3:
				v, err := st.Get(k)
				mv, ok := model[k]
				if ok {
					if err != nil || !bytes.Equal(v, mv) {
						t.Fatalf("seed %d step %d Get(%q): err=%v len=%d want len=%d", seed, i, k, err, len(v), len(mv))
					}
				} else if err == nil {
					t.Fatalf("seed %d step %d Get(%q) of absent key: no error, len %d", seed, i, k, len(v))
				}
			case 4:
				suf := []string{".entity", "", "a", ".tmp", "y"}[rnd.Intn(5)]
				got, err := st.KeysWithSuffix(suf)
				if err != nil {
					t.Fatal(err)
				}
				var want []string
				for mk := range model {
					if len(mk) >= len(suf) && mk[len(mk)-len(suf):] == suf {
						want = append(want, mk)
					}
				}
				sort.Strings(want)
				sort.Strings(got)
				if fmt.Sprint(got) != fmt.Sprint(want) {
					t.Fatalf("seed %d step %d KeysWithSuffix(%q): got %q want %q", seed, i, suf, got, want)
				}
			case 5:
				st, err = NewFileStorage(dir)
				if err != nil {
					t.Fatal(err)
				}
			}
		}
	}
}

package util

import (
	"bytes"
	"os"
	"path/filepath"
	"strings"
	"testing"
)

func newSt(t *testing.T) (Storage, string) {
	base, _ := os.MkdirTemp("", "zzek")
	t.Cleanup(func() { os.RemoveAll(base) })
	dir := filepath.Join(base, "store")
	st, err := NewFileStorage(dir)
	if err != nil {
		t.Fatal(err)
	}
	return st, dir
}

func TestZZHuntEmptyKey(t *testing.T) {
	st, dir := newSt(t)
	if v, err := st.Get(""); err == nil {
		t.Errorf("Get(\"\") on a fresh store: no error, value %q", v)
	}
	err := st.Set("", []byte("v"))
	t.Logf("Set(\"\") -> %v", err)
	if _, serr := os.Stat(dir + ".tmp"); serr == nil {
		t.Errorf("Set(\"\") left a file outside the store directory: %s", dir+".tmp")
	}
	if err == nil {
		v, gerr := st.Get("")
		if gerr != nil || !bytes.Equal(v, []byte("v")) {
			t.Errorf("Get after Set: %q %v", v, gerr)
		}
	}
}

func TestZZHuntLongKey(t *testing.T) {
	st, _ := newSt(t)
	for _, n := range []int{200, 207, 251, 252, 255} {
		k := strings.Repeat("k", n)
		if err := st.Set(k, []byte("v")); err != nil {
			t.Errorf("Set(key of %d bytes): %v", n, err)
		}
	}
}

func TestZZHuntSlashKey(t *testing.T) {
	st, _ := newSt(t)
	if err := st.Set("a/b", []byte("v")); err != nil {
		t.Errorf("Set(a/b): %v", err)
	}
}

// overwrite of a read-only file, reopen by other spelling of the path
func TestZZHuntReadonlyAndPathSpelling(t *testing.T) {
	st, dir := newSt(t)
	st.Set("k", []byte("longer value"))
	os.Chmod(filepath.Join(dir, "k"), 0444)
	if err := st.Set("k", []byte("s")); err != nil {
		t.Fatal(err)
	}
	wd, _ := os.Getwd()
	os.Chdir(filepath.Dir(dir))
	defer os.Chdir(wd)
	st2, _ := NewFileStorage("./store/")
	os.Chdir(wd)
	if v, err := st2.Get("k"); err != nil || string(v) != "s" {
		t.Errorf("%q %v", v, err)
	}
	st2.Set("j", nil)
	if v, err := st.Get("j"); err != nil || len(v) != 0 {
		t.Errorf("%q %v", v, err)
	}
	ks, _ := st.KeysWithSuffix("")
	if len(ks) != 2 {
		t.Errorf("%q", ks)
	}
}

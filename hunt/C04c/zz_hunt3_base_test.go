package hc

import (
	"bytes"
	"crypto/rand"
	"encoding/json"
	"fmt"
	mrand "math/rand"
	"net"
	"testing"
	"time"
	"unicode/utf8"

	"github.com/brutella/hc/accessory"
	"github.com/brutella/hc/log"
)

type h3acc struct {
	tr   *ipTransport
	sw   *accessory.Switch
	addr string
	dir  string
}

func h3freePort() string {
	l, err := net.Listen("tcp", "127.0.0.1:0")
	if err != nil {
		panic(err)
	}
	defer l.Close()
	_, p, _ := net.SplitHostPort(l.Addr().String())
	return p
}

func h3start(t testing.TB, dir, pin string) *h3acc {
	sw := accessory.NewSwitch(accessory.Info{Name: "Hunt3"})
	port := h3freePort()
	tr, err := NewIPTransport(Config{StoragePath: dir, Pin: pin, Port: port}, sw.Accessory)
	if err != nil {
		t.Fatal(err)
	}
	go tr.Start()
	addr := "127.0.0.1:" + port
	for i := 0; i < 400; i++ {
		c, err := net.Dial("tcp", addr)
		if err == nil {
			c.Close()
			break
		}
		time.Sleep(5 * time.Millisecond)
	}
	return &h3acc{tr: tr, sw: sw, addr: addr, dir: dir}
}

func (a *h3acc) stop() { <-a.tr.Stop() }

func h3randID(r *mrand.Rand) []byte {
	for {
		n := 1 + r.Intn(64)
		var b []byte
		for len(b) < n {
			var ru rune
			switch r.Intn(4) {
			case 0:
				ru = rune(r.Intn(0x80))
			case 1:
				ru = rune(0x80 + r.Intn(0x780))
			case 2:
				ru = rune(0x800 + r.Intn(0xF800))
			default:
				ru = rune(0x10000 + r.Intn(0x100000))
			}
			if !utf8.ValidRune(ru) {
				continue
			}
			var buf [4]byte
			l := utf8.EncodeRune(buf[:], ru)
			if len(b)+l > n {
				if len(b) > 0 {
					n = len(b)
				}
				break
			}
			b = append(b, buf[:l]...)
		}
		if len(b) >= 1 && len(b) <= 64 && utf8.Valid(b) {
			return b
		}
	}
}

func h3randPin(r *mrand.Rand) string {
	for {
		p := fmt.Sprintf("%08d", r.Intn(100000000))
		if _, err := ValidatePin(p); err == nil {
			return p
		}
	}
}

func TestHunt3Baseline(t *testing.T) {
	log.Info.Disable()
	seed := time.Now().UnixNano()
	r := mrand.New(mrand.NewSource(seed))
	t.Log("seed", seed)
	for i := 0; i < 30; i++ {
		pin := h3randPin(r)
		id := h3randID(r)
		a := h3start(t, t.TempDir(), pin)
		func() {
			defer a.stop()
			c, err := newRefCtl(a.addr, id)
			if err != nil {
				t.Fatal(err)
			}
			defer c.close()
			// wrong code first
			wrong := h3randPin(r)
			if wrong != pin {
				err := c.pairSetup(refFormatCode(wrong))
				if pe, ok := err.(*refPairErr); !ok || pe.state != 4 || pe.code != 2 {
					if err != errRefKnownSRPPadding {
						t.Errorf("pin %s wrong %s id %q: wrong code answered with %v", pin, wrong, id, err)
					}
				}
				es, _ := a.tr.database.Entities()
				if len(es) != 1 {
					t.Errorf("entities after wrong code: %d", len(es))
				}
			}
			if err := c.pairSetup(refFormatCode(pin)); err != nil {
				if err == errRefKnownSRPPadding {
					return
				}
				t.Errorf("pin %s id %q: pair-setup: %v", pin, id, err)
				return
			}
			e, err := a.tr.database.EntityWithName(string(id))
			if err != nil || !bytes.Equal(e.PublicKey, c.ltpk) || e.Name != string(id) {
				t.Errorf("id %q: stored entity %+v, %v", id, e, err)
			}
			if r.Intn(2) == 0 {
				c.close()
				if err := c.dial(a.addr); err != nil {
					t.Fatal(err)
				}
			}
			if err := c.pairVerify(); err != nil {
				t.Errorf("pin %s id %q: pair-verify: %v", pin, id, err)
				return
			}
			time.Sleep(10 * time.Millisecond) // known: hand-over race
			c.frameSize = 1 + r.Intn(1024)
			resp, err := c.do("GET", "/accessories", "", nil)
			if err != nil || resp.status != 200 {
				t.Errorf("GET /accessories: %v %+v", err, resp)
				return
			}
			var v map[string]interface{}
			if err := json.Unmarshal(resp.body, &v); err != nil {
				t.Errorf("accessories body: %v", err)
			}
			// large PUT: many writes in one request
			n := 1 + r.Intn(400)
			var items []string
			for j := 0; j < n; j++ {
				items = append(items, fmt.Sprintf(`{"aid":1,"iid":%d,"value":%v}`, a.sw.Switch.On.ID, j%2 == 0))
			}
			body := []byte(`{"characteristics":[` + joinStr(items, ",") + `]}`)
			resp, err = c.do("PUT", "/characteristics", "application/hap+json", body)
			if err != nil || resp.status != 204 {
				t.Errorf("PUT /characteristics (%d bytes, frame %d): %v %+v", len(body), c.frameSize, err, resp)
				return
			}
			resp, err = c.do("GET", fmt.Sprintf("/characteristics?id=1.%d", a.sw.Switch.On.ID), "", nil)
			if err != nil || resp.status != 200 {
				t.Errorf("GET /characteristics: %v %+v", err, resp)
				return
			}
			want := fmt.Sprintf(`"value":%v`, (n-1)%2 == 0)
			if !bytes.Contains(resp.body, []byte(want)) {
				t.Errorf("GET body %s, want %s", resp.body, want)
			}
		}()
	}
}

var h3rng = mrand.New(mrand.NewSource(42))

func joinStr(s []string, sep string) string {
	var b bytes.Buffer
	for i, x := range s {
		if i > 0 {
			b.WriteString(sep)
		}
		b.WriteString(x)
	}
	return b.String()
}

var _ = rand.Read

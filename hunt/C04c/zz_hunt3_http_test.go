package hc

import (
	"bytes"
	"fmt"
	"testing"
	"time"

	"github.com/brutella/hc/log"
)

func h3verified(t *testing.T, a *h3acc, id string) *refCtl {
	c := h3pair(t, a, id, "00102003")
	if err := c.pairVerify(); err != nil {
		t.Fatal(err)
	}
	time.Sleep(20 * time.Millisecond)
	return c
}

// two requests written back to back, frames coalesced into one TCP segment
func TestHunt3Pipelined(t *testing.T) {
	log.Info.Disable()
	a := h3start(t, t.TempDir(), "00102003")
	defer a.stop()
	c := h3verified(t, a, "C0FFEE00-0000-4000-8000-000000000010")
	defer c.close()
	for round := 0; round < 20; round++ {
		var req bytes.Buffer
		n := 2 + round%4
		for i := 0; i < n; i++ {
			fmt.Fprintf(&req, "GET /characteristics?id=1.%d HTTP/1.1\r\nHost: %s\r\n\r\n", a.sw.Switch.On.ID, c.host)
		}
		c.frameSize = 1 + (round*37)%1024
		c.conn.SetDeadline(time.Now().Add(5 * time.Second))
		if err := c.write(req.Bytes()); err != nil {
			t.Fatal(err)
		}
		for i := 0; i < n; i++ {
			r, err := c.readResp("GET")
			if err != nil || r.status != 200 {
				t.Fatalf("round %d response %d of %d: %v %v", round, i, n, err, r)
			}
		}
	}
}

func TestHunt3ByteAtATime(t *testing.T) {
	log.Info.Disable()
	a := h3start(t, t.TempDir(), "00102003")
	defer a.stop()
	c := h3verified(t, a, "C0FFEE00-0000-4000-8000-000000000011")
	defer c.close()
	body := []byte(fmt.Sprintf(`{"characteristics":[{"aid":1,"iid":%d,"value":true}]}`, a.sw.Switch.On.ID))
	var req bytes.Buffer
	fmt.Fprintf(&req, "PUT /characteristics HTTP/1.1\r\nHost: %s\r\nContent-Type: application/hap+json\r\nContent-Length: %d\r\n\r\n", c.host, len(body))
	req.Write(body)
	// encrypt by hand into frames of 50 and write byte by byte
	c.frameSize = 50
	raw := c.seal(req.Bytes())
	c.conn.SetDeadline(time.Now().Add(20 * time.Second))
	for i := range raw {
		if _, err := c.conn.Write(raw[i : i+1]); err != nil {
			t.Fatal(err)
		}
		if i%7 == 0 {
			time.Sleep(time.Millisecond)
		}
	}
	r, err := c.readResp("PUT")
	if err != nil || r.status != 204 {
		t.Fatalf("%v %v", err, r)
	}
	// chunked body
	req.Reset()
	fmt.Fprintf(&req, "PUT /characteristics HTTP/1.1\r\nHost: %s\r\nContent-Type: application/hap+json\r\nTransfer-Encoding: chunked\r\n\r\n", c.host)
	fmt.Fprintf(&req, "%x\r\n%s\r\n0\r\n\r\n", len(body), body)
	c.write(req.Bytes())
	r, err = c.readResp("PUT")
	if err != nil || r.status != 204 {
		t.Fatalf("chunked: %v %v", err, r)
	}
}

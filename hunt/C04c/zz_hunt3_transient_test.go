package hc

import (
	"bytes"
	"errors"
	"strings"
	"testing"
	"time"

	"github.com/brutella/hc/db"
	"github.com/brutella/hc/hap"
	"github.com/brutella/hc/log"
)

// h3flaky fails the first Get of an entity after it was armed (an open() which
// fails with EMFILE/EIO/EACCES once); everything else works.
type h3flaky struct {
	h3mem
	armed bool
}

func (s *h3flaky) Get(key string) ([]byte, error) {
	if s.armed && strings.HasSuffix(key, ".entity") {
		s.armed = false
		return nil, errors.New("open: too many open files")
	}
	return s.h3mem.Get(key)
}

// Clause: "... then pair-verify ... for every ... accessory identity and storage
// contents" (history: restart on the same storage; error path: a storage read
// which fails once).
//
// hap.NewDevice takes ANY error of EntityWithName for "there is no key pair yet",
// draws a new long-term key pair and saves it over the stored one. One failed
// read at start therefore destroys the identity of the accessory for good: the
// controllers which are paired can never verify again.
func TestHunt3TransientReadErrorReplacesIdentity(t *testing.T) {
	log.Info.Disable()
	st := &h3flaky{h3mem: h3mem{m: map[string][]byte{}}}
	database := db.NewDatabaseWithStorage(st)
	a := h3serverDB(t, database, "11:22:33:44:55:66", "001-02-003")
	c := h3pair2(t, a.addr, "C0FFEE00-0000-4000-8000-0000000000A0")
	if err := c.pairVerify(); err != nil {
		t.Fatal(err)
	}
	c.close()
	a.cancel()
	before, _ := database.EntityWithName("11:22:33:44:55:66")

	// restart; the first read of the key pair fails
	st.armed = true
	if _, err := hap.NewSecuredDevice("11:22:33:44:55:66", "001-02-003", database); err != nil {
		t.Log("start with the failing read:", err) // refusing to start is fine
	}
	// and a clean restart afterwards
	a = h3serverDB(t, database, "11:22:33:44:55:66", "001-02-003")
	defer a.cancel()
	after, _ := database.EntityWithName("11:22:33:44:55:66")
	if !bytes.Equal(before.PublicKey, after.PublicKey) {
		t.Errorf("the stored long-term key pair of the accessory was replaced")
	}
	if err := c.dial(a.addr); err != nil {
		t.Fatal(err)
	}
	if err := c.pairVerify(); err != nil {
		t.Errorf("pair-verify of the paired controller after the restarts: %v", err)
	}
	time.Sleep(time.Millisecond)
}

package hc

import (
	"testing"

	"github.com/brutella/hc/log"
)

// Clause: "A controller ... that knows the setup code completes pair-setup, then pair-verify".
// History: the controller starts pair-setup (M1/M2), gives up the exchange (the
// user dismissed the code prompt, a time-out) and starts again with M1 on the same
// connection. HAP R2 5.6.2 lists the only reasons for refusing M1 (paired,
// MaxTries, Busy with a DIFFERENT controller); otherwise the accessory creates a
// new SRP session and answers M2. hc answers the second M1 with HTTP 500.
// The same holds after a completed pair-setup (state stays at M6) and for
// pair-verify M1 after M1.
func TestHunt3PairSetupRestartOnSameConnection(t *testing.T) {
	log.Info.Disable()
	a := h3server(t, t.TempDir(), "11:22:33:44:55:66", "001-02-003")
	defer a.cancel()
	c, err := newRefCtl(a.addr, []byte("C0FFEE00-0000-4000-8000-000000000080"))
	if err != nil {
		t.Fatal(err)
	}
	defer c.close()
	m2, _, err := c.postTLV("/pair-setup", refTLVItem{tState, []byte{1}}, refTLVItem{tMethod, []byte{0}})
	if err != nil || refExpectState(m2, 2) != nil {
		t.Fatalf("first M1: %v", err)
	}
	// the exchange is abandoned here and started again
	for {
		err = c.pairSetup("001-02-003")
		if err != errRefKnownSRPPadding {
			break
		}
		c.close()
		c.dial(a.addr)
	}
	if err != nil {
		t.Errorf("pair-setup started again after M2: %v", err)
	}
}

func TestHunt3PairVerifyRestartOnSameConnection(t *testing.T) {
	log.Info.Disable()
	a := h3server(t, t.TempDir(), "11:22:33:44:55:66", "001-02-003")
	defer a.cancel()
	c := h3pair2(t, a.addr, "C0FFEE00-0000-4000-8000-000000000081")
	defer c.close()
	c.close()
	c.dial(a.addr)
	pk := make([]byte, 32)
	pk[0] = 9
	m2, _, err := c.postTLV("/pair-verify", refTLVItem{tState, []byte{1}}, refTLVItem{tPublicKey, pk})
	if err != nil || refExpectState(m2, 2) != nil {
		t.Fatalf("first M1: %v", err)
	}
	if err := c.pairVerify(); err != nil {
		t.Errorf("pair-verify started again after M2: %v", err)
	}
}

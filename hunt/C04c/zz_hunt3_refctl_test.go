package hc

// Reference HomeKit controller written from the HAP specification (R2, chapters
// 5.6 Pair Setup, 5.7 Pair Verify, 6.5.2 Session Security). It does not use any
// of hc's crypto, tlv8 or pairing packages: SRP is done with math/big, HKDF,
// ChaCha20-Poly1305, X25519 and Ed25519 come straight from the standard library
// and golang.org/x/crypto, TLV8 and the HTTP framing are done by hand.

import (
	"bufio"
	"bytes"
	"crypto/ed25519"
	"crypto/rand"
	"crypto/sha512"
	"encoding/binary"
	"errors"
	"fmt"
	"io"
	"math/big"
	"net"
	"net/http"
	"strings"
	"time"

	"golang.org/x/crypto/chacha20poly1305"
	"golang.org/x/crypto/curve25519"
	"golang.org/x/crypto/hkdf"
)

// RFC 5054 3072-bit group
const refN3072Hex = "FFFFFFFFFFFFFFFFC90FDAA22168C234C4C6628B80DC1CD129024E08" +
	"8A67CC74020BBEA63B139B22514A08798E3404DDEF9519B3CD3A431B" +
	"302B0A6DF25F14374FE1356D6D51C245E485B576625E7EC6F44C42E9" +
	"A637ED6B0BFF5CB6F406B7EDEE386BFB5A899FA5AE9F24117C4B1FE6" +
	"49286651ECE45B3DC2007CB8A163BF0598DA48361C55D39A69163FA8" +
	"FD24CF5F83655D23DCA3AD961C62F356208552BB9ED529077096966D" +
	"670C354E4ABC9804F1746C08CA18217C32905E462E36CE3BE39E772C" +
	"180E86039B2783A2EC07A28FB5C55DF06F4C52C9DE2BCBF695581718" +
	"3995497CEA956AE515D2261898FA051015728E5A8AAAC42DAD33170D" +
	"04507A33A85521ABDF1CBA64ECFB850458DBEF0A8AEA71575D060C7D" +
	"B3970F85A6E1E4C7ABF5AE8CDB0933D71E8C94E04A25619DCEE3D226" +
	"1AD2EE6BF12FFA06D98A0864D87602733EC86A64521F2B18177B200C" +
	"BBE117577A615D6C770988C0BAD946E208E24FA074E5AB3143DB5BFC" +
	"E0FD108E4B82D120A93AD2CAFFFFFFFFFFFFFFFF"

var (
	refN, _ = new(big.Int).SetString(refN3072Hex, 16)
	refG    = big.NewInt(5)
)

func refH(parts ...[]byte) []byte {
	h := sha512.New()
	for _, p := range parts {
		h.Write(p)
	}
	return h.Sum(nil)
}

func refPad(n *big.Int) []byte {
	b := n.Bytes()
	if len(b) >= 384 {
		return b
	}
	out := make([]byte, 384)
	copy(out[384-len(b):], b)
	return out
}

func refHKDF(key []byte, salt, info string) []byte {
	out := make([]byte, 32)
	r := hkdf.New(sha512.New, key, []byte(salt), []byte(info))
	if _, err := io.ReadFull(r, out); err != nil {
		panic(err)
	}
	return out
}

func refNonce(s string) []byte {
	n := make([]byte, 12)
	copy(n[4:], s)
	return n
}

func refSeal(key []byte, nonce []byte, plain, aad []byte) []byte {
	a, err := chacha20poly1305.New(key)
	if err != nil {
		panic(err)
	}
	return a.Seal(nil, nonce, plain, aad)
}

func refOpen(key []byte, nonce []byte, ct, aad []byte) ([]byte, error) {
	a, err := chacha20poly1305.New(key)
	if err != nil {
		panic(err)
	}
	return a.Open(nil, nonce, ct, aad)
}

// ---- TLV8

type refTLVItem struct {
	tag byte
	val []byte
}

type refTLV []refTLVItem

func (t refTLV) get(tag byte) ([]byte, bool) {
	for _, i := range t {
		if i.tag == tag {
			return i.val, true
		}
	}
	return nil, false
}

func (t refTLV) count(tag byte) int {
	n := 0
	for _, i := range t {
		if i.tag == tag {
			n++
		}
	}
	return n
}

// refTLVEncode: values longer than 255 bytes are split into fragments of 255 bytes (spec 14.1)
func refTLVEncode(items ...refTLVItem) []byte {
	var b bytes.Buffer
	for _, it := range items {
		v := it.val
		if len(v) == 0 {
			b.Write([]byte{it.tag, 0})
			continue
		}
		for len(v) > 0 {
			n := len(v)
			if n > 255 {
				n = 255
			}
			b.Write([]byte{it.tag, byte(n)})
			b.Write(v[:n])
			v = v[n:]
		}
	}
	return b.Bytes()
}

// refTLVDecode: consecutive items of the same tag where the former has length 255 are merged
func refTLVDecode(b []byte) (refTLV, error) {
	var out refTLV
	prevFull := false
	for len(b) > 0 {
		if len(b) < 2 {
			return nil, errors.New("tlv8: truncated header")
		}
		tag, l := b[0], int(b[1])
		if len(b) < 2+l {
			return nil, errors.New("tlv8: truncated value")
		}
		v := b[2 : 2+l]
		b = b[2+l:]
		if prevFull && len(out) > 0 && out[len(out)-1].tag == tag {
			out[len(out)-1].val = append(out[len(out)-1].val, v...)
		} else {
			out = append(out, refTLVItem{tag, append([]byte{}, v...)})
		}
		prevFull = l == 255
	}
	return out, nil
}

// ---- connection

type refCtl struct {
	conn net.Conn
	br   *bufio.Reader

	// identity
	id   []byte
	ltpk ed25519.PublicKey
	ltsk ed25519.PrivateKey

	// learned in pair-setup
	accID   []byte
	accLTPK []byte

	// session security
	secure           bool
	a2cKey           []byte
	c2aKey           []byte
	a2cCnt           uint64
	c2aCnt           uint64
	plain            bytes.Buffer // decrypted bytes not yet consumed
	frameSize        int          // size of frames the controller sends (<= 1024)
	host             string
	sharedKey        []byte
	lastFrames       []int // sizes of the frames received
	knownEncryptedM4 int
}

func newRefCtl(addr string, id []byte) (*refCtl, error) {
	pub, priv, err := ed25519.GenerateKey(rand.Reader)
	if err != nil {
		return nil, err
	}
	c := &refCtl{id: id, ltpk: pub, ltsk: priv, frameSize: 1024, host: "Accessory._hap._tcp.local"}
	if err := c.dial(addr); err != nil {
		return nil, err
	}
	return c, nil
}

func (c *refCtl) dial(addr string) error {
	conn, err := net.DialTimeout("tcp", addr, 2*time.Second)
	if err != nil {
		return err
	}
	c.conn = conn
	c.br = bufio.NewReader(conn)
	c.secure = false
	c.a2cCnt, c.c2aCnt = 0, 0
	c.plain.Reset()
	return nil
}

func (c *refCtl) close() { c.conn.Close() }

// Read implements io.Reader over the (possibly encrypted) connection
func (c *refCtl) Read(p []byte) (int, error) {
	if !c.secure {
		return c.br.Read(p)
	}
	for c.plain.Len() == 0 {
		var hdr [2]byte
		if _, err := io.ReadFull(c.br, hdr[:]); err != nil {
			return 0, err
		}
		l := int(binary.LittleEndian.Uint16(hdr[:]))
		if l > 1024 {
			return 0, fmt.Errorf("frame of %d bytes (spec: at most 1024)", l)
		}
		ct := make([]byte, l+16)
		if _, err := io.ReadFull(c.br, ct); err != nil {
			return 0, err
		}
		nonce := make([]byte, 12)
		binary.LittleEndian.PutUint64(nonce[4:], c.a2cCnt)
		c.a2cCnt++
		pt, err := refOpen(c.a2cKey, nonce, ct, hdr[:])
		if err != nil {
			return 0, fmt.Errorf("frame %d from accessory does not authenticate: %v", c.a2cCnt-1, err)
		}
		c.lastFrames = append(c.lastFrames, l)
		c.plain.Write(pt)
	}
	return c.plain.Read(p)
}

func (c *refCtl) write(b []byte) error {
	_, err := c.conn.Write(c.seal(b))
	return err
}

// seal returns the bytes which go onto the wire for b
func (c *refCtl) seal(b []byte) []byte {
	if !c.secure {
		return b
	}
	var out bytes.Buffer
	for len(b) > 0 {
		n := len(b)
		if n > c.frameSize {
			n = c.frameSize
		}
		var hdr [2]byte
		binary.LittleEndian.PutUint16(hdr[:], uint16(n))
		nonce := make([]byte, 12)
		binary.LittleEndian.PutUint64(nonce[4:], c.c2aCnt)
		c.c2aCnt++
		out.Write(hdr[:])
		out.Write(refSeal(c.c2aKey, nonce, b[:n], hdr[:]))
		b = b[n:]
	}
	return out.Bytes()
}

type refResp struct {
	status int
	proto  string
	header http.Header
	body   []byte
}

func (c *refCtl) do(method, path, ctype string, body []byte) (*refResp, error) {
	var req bytes.Buffer
	fmt.Fprintf(&req, "%s %s HTTP/1.1\r\nHost: %s\r\n", method, path, c.host)
	if body != nil {
		fmt.Fprintf(&req, "Content-Type: %s\r\nContent-Length: %d\r\n", ctype, len(body))
	}
	req.WriteString("\r\n")
	req.Write(body)
	c.conn.SetDeadline(time.Now().Add(10 * time.Second))
	if err := c.write(req.Bytes()); err != nil {
		return nil, err
	}
	return c.readResp(method)
}

func (c *refCtl) readResp(method string) (*refResp, error) {
	rd := bufio.NewReader(c)
	// EVENT/1.0 messages may precede the response
	for {
		line, err := rd.Peek(6)
		if err != nil {
			return nil, err
		}
		if string(line) == "EVENT/" {
			return nil, errors.New("unexpected EVENT")
		}
		break
	}
	r, err := http.ReadResponse(rd, &http.Request{Method: method})
	if err != nil {
		return nil, err
	}
	b, err := io.ReadAll(r.Body)
	if err != nil {
		return nil, err
	}
	// hand back what bufio read ahead
	if n := rd.Buffered(); n > 0 {
		rest, _ := rd.Peek(n)
		var nb bytes.Buffer
		nb.Write(rest)
		nb.Write(c.plain.Bytes())
		c.plain = nb
	}
	return &refResp{status: r.StatusCode, proto: r.Proto, header: r.Header, body: b}, nil
}

func (c *refCtl) postTLV(path string, items ...refTLVItem) (refTLV, *refResp, error) {
	resp, err := c.do("POST", path, "application/pairing+tlv8", refTLVEncode(items...))
	if err != nil {
		return nil, nil, err
	}
	if resp.status != 200 {
		return nil, resp, fmt.Errorf("%s: HTTP status %d", path, resp.status)
	}
	if ct := resp.header.Get("Content-Type"); ct != "application/pairing+tlv8" {
		return nil, resp, fmt.Errorf("%s: content type %q", path, ct)
	}
	t, err := refTLVDecode(resp.body)
	return t, resp, err
}

const (
	tMethod    = 0x00
	tID        = 0x01
	tSalt      = 0x02
	tPublicKey = 0x03
	tProof     = 0x04
	tEncrypted = 0x05
	tState     = 0x06
	tError     = 0x07
	tSignature = 0x0a
	tFlags     = 0x13
)

type refPairErr struct {
	state byte
	code  byte
}

func (e *refPairErr) Error() string {
	return fmt.Sprintf("accessory answered M%d with kTLVError %d", e.state, e.code)
}

var errRefKnownSRPPadding = errors.New("known: SRP value with leading zero byte")

func refExpectState(t refTLV, want byte) error {
	st, ok := t.get(tState)
	if !ok || len(st) != 1 {
		return fmt.Errorf("M%d: no (single byte) State item: %v", want, t)
	}
	if t.count(tState) != 1 {
		return fmt.Errorf("M%d: %d State items", want, t.count(tState))
	}
	if st[0] != want {
		return fmt.Errorf("expected state M%d, got M%d", want, st[0])
	}
	if e, ok := t.get(tError); ok {
		if len(e) != 1 {
			return fmt.Errorf("M%d: error item of %d bytes", want, len(e))
		}
		return &refPairErr{want, e[0]}
	}
	return nil
}

// pairSetup runs M1..M6 with the setup code and verifies everything the accessory sends.
func (c *refCtl) pairSetup(code string) error {
	// M1
	m2, _, err := c.postTLV("/pair-setup", refTLVItem{tState, []byte{1}}, refTLVItem{tMethod, []byte{0}})
	if err != nil {
		return fmt.Errorf("M1: %v", err)
	}
	if err := refExpectState(m2, 2); err != nil {
		return err
	}
	salt, _ := m2.get(tSalt)
	Bb, _ := m2.get(tPublicKey)
	if len(salt) != 16 {
		return fmt.Errorf("M2: salt of %d bytes, spec: 16", len(salt))
	}
	if len(Bb) != 384 {
		if len(Bb) < 384 && len(Bb) > 376 {
			return errRefKnownSRPPadding
		}
		return fmt.Errorf("M2: B of %d bytes, spec: 384", len(Bb))
	}
	B := new(big.Int).SetBytes(Bb)
	if new(big.Int).Mod(B, refN).Sign() == 0 {
		return errors.New("M2: B mod N == 0")
	}

	// SRP-6a client
	var a, A *big.Int
	for {
		ab := make([]byte, 32)
		rand.Read(ab)
		a = new(big.Int).SetBytes(ab)
		A = new(big.Int).Exp(refG, a, refN)
		if len(A.Bytes()) == 384 {
			break
		}
	}
	k := new(big.Int).SetBytes(refH(refN.Bytes(), refPad(refG)))
	u := new(big.Int).SetBytes(refH(refPad(A), refPad(B)))
	x := new(big.Int).SetBytes(refH(salt, refH([]byte("Pair-Setup:"+code))))
	gx := new(big.Int).Exp(refG, x, refN)
	base := new(big.Int).Sub(B, new(big.Int).Mod(new(big.Int).Mul(k, gx), refN))
	base.Mod(base, refN)
	exp := new(big.Int).Add(a, new(big.Int).Mul(u, x))
	S := new(big.Int).Exp(base, exp, refN)
	paddingCase := len(S.Bytes()) != 384
	K := refH(refPad(S))
	hn := refH(refN.Bytes())
	hg := refH(refG.Bytes())
	hx := make([]byte, len(hn))
	for i := range hn {
		hx[i] = hn[i] ^ hg[i]
	}
	M1 := refH(hx, refH([]byte("Pair-Setup")), salt, refPad(A), refPad(B), K)

	// M3
	m4, _, err := c.postTLV("/pair-setup", refTLVItem{tState, []byte{3}}, refTLVItem{tPublicKey, refPad(A)}, refTLVItem{tProof, M1})
	if err != nil {
		return fmt.Errorf("M3: %v", err)
	}
	if err := refExpectState(m4, 4); err != nil {
		if paddingCase {
			return errRefKnownSRPPadding
		}
		return err
	}
	M2, _ := m4.get(tProof)
	if want := refH(refPad(A), M1, K); !bytes.Equal(M2, want) {
		return fmt.Errorf("M4: accessory proof does not verify")
	}

	// M5
	encKey := refHKDF(K, "Pair-Setup-Encrypt-Salt", "Pair-Setup-Encrypt-Info")
	devX := refHKDF(K, "Pair-Setup-Controller-Sign-Salt", "Pair-Setup-Controller-Sign-Info")
	info := append(append(append([]byte{}, devX...), c.id...), c.ltpk...)
	sig := ed25519.Sign(c.ltsk, info)
	sub := refTLVEncode(refTLVItem{tID, c.id}, refTLVItem{tPublicKey, c.ltpk}, refTLVItem{tSignature, sig})
	m6, _, err := c.postTLV("/pair-setup", refTLVItem{tState, []byte{5}}, refTLVItem{tEncrypted, refSeal(encKey, refNonce("PS-Msg05"), sub, nil)})
	if err != nil {
		return fmt.Errorf("M5: %v", err)
	}
	if err := refExpectState(m6, 6); err != nil {
		return err
	}
	ed, _ := m6.get(tEncrypted)
	pt, err := refOpen(encKey, refNonce("PS-Msg06"), ed, nil)
	if err != nil {
		return fmt.Errorf("M6: encrypted data does not authenticate: %v", err)
	}
	st, err := refTLVDecode(pt)
	if err != nil {
		return fmt.Errorf("M6: sub-tlv: %v", err)
	}
	accID, _ := st.get(tID)
	accLTPK, _ := st.get(tPublicKey)
	accSig, _ := st.get(tSignature)
	if len(accLTPK) != 32 || len(accSig) != 64 || len(accID) == 0 {
		return fmt.Errorf("M6: id %d, ltpk %d, signature %d bytes", len(accID), len(accLTPK), len(accSig))
	}
	accX := refHKDF(K, "Pair-Setup-Accessory-Sign-Salt", "Pair-Setup-Accessory-Sign-Info")
	accInfo := append(append(append([]byte{}, accX...), accID...), accLTPK...)
	if !ed25519.Verify(accLTPK, accInfo, accSig) {
		return errors.New("M6: accessory signature does not verify")
	}
	c.accID, c.accLTPK = accID, accLTPK
	return nil
}

// pairVerify runs M1..M4 and switches on session security.
func (c *refCtl) pairVerify() error {
	var sk [32]byte
	rand.Read(sk[:])
	pk, err := curve25519.X25519(sk[:], curve25519.Basepoint)
	if err != nil {
		return err
	}
	return c.pairVerifyWithKey(sk[:], pk)
}

func (c *refCtl) pairVerifyWithKey(sk, pk []byte) error {
	m2, _, err := c.postTLV("/pair-verify", refTLVItem{tState, []byte{1}}, refTLVItem{tPublicKey, pk})
	if err != nil {
		return fmt.Errorf("M1: %v", err)
	}
	if err := refExpectState(m2, 2); err != nil {
		return err
	}
	apk, _ := m2.get(tPublicKey)
	ed, _ := m2.get(tEncrypted)
	if len(apk) != 32 {
		return fmt.Errorf("M2: accessory Curve25519 key of %d bytes", len(apk))
	}
	shared, err := curve25519.X25519(sk, apk)
	if err != nil {
		return err
	}
	sessKey := refHKDF(shared, "Pair-Verify-Encrypt-Salt", "Pair-Verify-Encrypt-Info")
	pt, err := refOpen(sessKey, refNonce("PV-Msg02"), ed, nil)
	if err != nil {
		return fmt.Errorf("M2: encrypted data does not authenticate: %v", err)
	}
	st, err := refTLVDecode(pt)
	if err != nil {
		return err
	}
	accID, _ := st.get(tID)
	accSig, _ := st.get(tSignature)
	if c.accID != nil && !bytes.Equal(accID, c.accID) {
		return fmt.Errorf("M2: accessory id %q, paired with %q", accID, c.accID)
	}
	accInfo := append(append(append([]byte{}, apk...), accID...), pk...)
	if !ed25519.Verify(c.accLTPK, accInfo, accSig) {
		return errors.New("M2: accessory signature does not verify under the LTPK of pair-setup")
	}
	info := append(append(append([]byte{}, pk...), c.id...), apk...)
	sig := ed25519.Sign(c.ltsk, info)
	sub := refTLVEncode(refTLVItem{tID, c.id}, refTLVItem{tSignature, sig})
	c.sharedKey = shared
	wasSecure := c.secure
	newA2C := refHKDF(shared, "Control-Salt", "Control-Read-Encryption-Key")
	newC2A := refHKDF(shared, "Control-Salt", "Control-Write-Encryption-Key")
	if !wasSecure {
		c.a2cKey, c.c2aKey = newA2C, newC2A
	}
	// known race: the M4 response is sometimes sent encrypted already. Tolerated here.
	{
		body := refTLVEncode(refTLVItem{tState, []byte{3}}, refTLVItem{tEncrypted, refSeal(sessKey, refNonce("PV-Msg03"), sub, nil)})
		var req bytes.Buffer
		fmt.Fprintf(&req, "POST /pair-verify HTTP/1.1\r\nHost: %s\r\nContent-Type: application/pairing+tlv8\r\nContent-Length: %d\r\n\r\n", c.host, len(body))
		req.Write(body)
		c.conn.SetDeadline(time.Now().Add(10 * time.Second))
		if err := c.write(req.Bytes()); err != nil {
			return err
		}
		first, err := c.br.Peek(5)
		if err != nil {
			return fmt.Errorf("M3: %v", err)
		}
		if string(first) != "HTTP/" && !c.secure {
			c.knownEncryptedM4++
			c.a2cCnt, c.c2aCnt = 0, 0
			c.secure = true
		}
	}
	resp, err := c.readResp("POST")
	if err != nil {
		return fmt.Errorf("M3: %v", err)
	}
	if resp.status != 200 {
		return fmt.Errorf("M3: HTTP status %d", resp.status)
	}
	m4, err := refTLVDecode(resp.body)
	if err != nil {
		return fmt.Errorf("M3: %v", err)
	}
	if err := refExpectState(m4, 4); err != nil {
		return err
	}
	if wasSecure {
		c.a2cKey, c.c2aKey = newA2C, newC2A
		c.a2cCnt, c.c2aCnt = 0, 0
	} else if !c.secure {
		c.a2cCnt, c.c2aCnt = 0, 0
		c.secure = true
	}
	return nil
}

func refFormatCode(digits string) string {
	return digits[0:3] + "-" + digits[3:5] + "-" + digits[5:8]
}

var _ = strings.Repeat

package hc

import (
	"crypto/ed25519"
	"crypto/rand"
	"fmt"
	mrand "math/rand"
	"os"
	"strconv"
	"testing"
	"time"

	"github.com/brutella/hc/log"
)

// random prefixes of abandoned / failed exchanges on one connection, then a complete
// valid run which has to succeed (one repeated M1 is tolerated: known finding)
func TestHunt3Histories(t *testing.T) {
	log.Info.Disable()
	n := 300
	if v, err := strconv.Atoi(os.Getenv("H3N")); err == nil {
		n = v
	}
	seed := time.Now().UnixNano()
	r := mrand.New(mrand.NewSource(seed))
	t.Log("seed", seed)
	a := h3server(t, t.TempDir(), "11:22:33:44:55:66", "001-02-003")
	defer a.cancel()
	for i := 0; i < n; i++ {
		id := fmt.Sprintf("C0FFEE00-0000-4000-8000-%012d", i)
		c, err := newRefCtl(a.addr, []byte(id))
		if err != nil {
			t.Fatal(err)
		}
		var trace []string
		steps := r.Intn(5)
		for s := 0; s < steps; s++ {
			switch r.Intn(7) {
			case 0:
				trace = append(trace, "S1")
				c.postTLV("/pair-setup", refTLVItem{tState, []byte{1}}, refTLVItem{tMethod, []byte{0}})
			case 1:
				trace = append(trace, "Swrong")
				c.pairSetup("999-99-998")
			case 2:
				trace = append(trace, "V1")
				pk := make([]byte, 32)
				pk[0] = 9
				c.postTLV("/pair-verify", refTLVItem{tState, []byte{1}}, refTLVItem{tPublicKey, pk})
			case 3:
				trace = append(trace, "Vunknown")
				save := c.id
				c.id = []byte("nobody")
				c.accLTPK = make([]byte, 32)
				c.pairVerify()
				c.id = save
				c.accID, c.accLTPK = nil, nil
			case 4:
				trace = append(trace, "GET")
				c.do("GET", "/accessories", "", nil)
			case 5:
				trace = append(trace, "S3only")
				c.postTLV("/pair-setup", refTLVItem{tState, []byte{3}}, refTLVItem{tPublicKey, make([]byte, 384)}, refTLVItem{tProof, make([]byte, 64)})
			case 6:
				trace = append(trace, "V3only")
				c.postTLV("/pair-verify", refTLVItem{tState, []byte{3}}, refTLVItem{tEncrypted, make([]byte, 100)})
			}
		}
		// now the real thing
		var perr error
		for try := 0; try < 4; try++ {
			perr = c.pairSetup("001-02-003")
			if perr == nil {
				break
			}
		}
		if perr != nil {
			t.Errorf("%v: pair-setup: %v", trace, perr)
			c.close()
			continue
		}
		var verr error
		for try := 0; try < 3; try++ {
			verr = c.pairVerify()
			if verr == nil {
				break
			}
		}
		if verr != nil {
			t.Errorf("%v: pair-verify: %v", trace, verr)
			c.close()
			continue
		}
		if c.knownEncryptedM4 == 0 {
			time.Sleep(3 * time.Millisecond)
		}
		if resp, err := c.do("GET", "/accessories", "", nil); err != nil || resp.status != 200 {
			t.Errorf("%v: GET: %v %v", trace, err, resp)
		}
		c.close()
	}
}

var _ = ed25519.Sign
var _ = rand.Read

package hc

import (
	"bufio"
	"fmt"
	"io"
	"strings"
	"testing"
	"time"

	"github.com/brutella/hc/log"
)

func TestHunt3Event(t *testing.T) {
	log.Info.Disable()
	a := h3start(t, t.TempDir(), "00102003")
	defer a.stop()
	c := h3verified(t, a, "C0FFEE00-0000-4000-8000-000000000020")
	defer c.close()
	body := fmt.Sprintf(`{"characteristics":[{"aid":1,"iid":%d,"ev":true}]}`, a.sw.Switch.On.ID)
	r, err := c.do("PUT", "/characteristics", "application/hap+json", []byte(body))
	if err != nil || r.status != 204 {
		t.Fatal(err, r)
	}
	a.sw.Switch.On.SetValue(true)
	c.conn.SetDeadline(time.Now().Add(2 * time.Second))
	rd := bufio.NewReader(c)
	line, err := rd.ReadString('\n')
	if err != nil {
		t.Fatal(err)
	}
	t.Logf("%q", line)
	if line != "EVENT/1.0 200 OK\r\n" {
		t.Errorf("status line %q", line)
	}
	var cl int
	for {
		h, err := rd.ReadString('\n')
		if err != nil {
			t.Fatal(err)
		}
		t.Logf("%q", h)
		if h == "\r\n" {
			break
		}
		if strings.HasPrefix(strings.ToLower(h), "content-length:") {
			fmt.Sscanf(strings.TrimSpace(h[15:]), "%d", &cl)
		}
	}
	b := make([]byte, cl)
	if _, err := io.ReadFull(rd, b); err != nil {
		t.Fatal(err)
	}
	t.Logf("%s", b)
}

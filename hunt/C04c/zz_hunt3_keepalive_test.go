package hc

import (
	"context"
	"net"
	"sync"
	"testing"
	"time"

	"github.com/brutella/hc/accessory"
	"github.com/brutella/hc/db"
	"github.com/brutella/hc/event"
	"github.com/brutella/hc/hap"
	hchttp "github.com/brutella/hc/hap/http"
	"github.com/brutella/hc/log"
)

// Clause: "A controller ... that knows the setup code completes pair-setup".
//
// hap.KeepAlive (exported, meant to be run next to the server: see the block in
// ip_transport.go) writes an empty EVENT/1.0 message to every connection of the
// context, also to connections which are not pair-verified. HAP allows events
// only on a secure session; a controller in the middle of pair-setup reads
// "EVENT/1.0 200 OK" where the HTTP response to its pair-setup request has to come.
func TestHunt3KeepAliveDuringPairSetup(t *testing.T) {
	log.Info.Disable()
	database, _ := db.NewDatabase(t.TempDir())
	device, err := hap.NewSecuredDevice("11:22:33:44:55:66", "001-02-003", database)
	if err != nil {
		t.Fatal(err)
	}
	container := accessory.NewContainer()
	container.AddAccessory(accessory.NewSwitch(accessory.Info{Name: "S"}).Accessory)
	hapctx := hap.NewContextForSecuredDevice(device)
	s := hchttp.NewServer(hchttp.Config{
		Port: "127.0.0.1:0", Context: hapctx, Database: database, Container: container,
		Device: device, Mutex: &sync.Mutex{}, Emitter: event.NewEmitter(),
	})
	ctx, cancel := context.WithCancel(context.Background())
	defer cancel()
	go s.ListenAndServe(ctx)
	go hap.NewKeepAlive(20*time.Millisecond, hapctx).Start(ctx)
	addr := net.JoinHostPort("127.0.0.1", s.Port())

	c, err := newRefCtl(addr, []byte("C0FFEE00-0000-4000-8000-000000000050"))
	if err != nil {
		t.Fatal(err)
	}
	defer c.close()
	time.Sleep(50 * time.Millisecond) // the user types the setup code
	for i := 0; i < 3; i++ {
		err = c.pairSetup("001-02-003")
		if err != errRefKnownSRPPadding {
			break
		}
	}
	if err != nil {
		t.Fatalf("pair-setup with the right setup code: %v", err)
	}
}

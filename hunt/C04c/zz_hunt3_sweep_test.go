package hc

import (
	"bytes"
	"context"
	"fmt"
	mrand "math/rand"
	"net"
	"os"
	"strconv"
	"sync"
	"testing"
	"time"

	"github.com/brutella/hc/accessory"
	"github.com/brutella/hc/db"
	"github.com/brutella/hc/event"
	"github.com/brutella/hc/hap"
	hchttp "github.com/brutella/hc/hap/http"
	"github.com/brutella/hc/log"
)

type h3srv struct {
	s        *hchttp.Server
	addr     string
	cancel   func()
	database db.Database
	sw       *accessory.Switch
	hapctx   hap.Context
}

func h3server(t testing.TB, dir, accID, code string) *h3srv {
	database, err := db.NewDatabase(dir)
	if err != nil {
		t.Fatal(err)
	}
	return h3serverDB(t, database, accID, code)
}

func h3serverDB(t testing.TB, database db.Database, accID, code string) *h3srv {
	device, err := hap.NewSecuredDevice(accID, code, database)
	if err != nil {
		t.Fatal(err)
	}
	container := accessory.NewContainer()
	sw := accessory.NewSwitch(accessory.Info{Name: "S"})
	container.AddAccessory(sw.Accessory)
	hapctx := hap.NewContextForSecuredDevice(device)
	s := hchttp.NewServer(hchttp.Config{
		Port: "127.0.0.1:0", Context: hapctx, Database: database, Container: container,
		Device: device, Mutex: &sync.Mutex{}, Emitter: event.NewEmitter(),
	})
	ctx, cancel := context.WithCancel(context.Background())
	go s.ListenAndServe(ctx)
	return &h3srv{s: s, addr: net.JoinHostPort("127.0.0.1", s.Port()), cancel: cancel, database: database, sw: sw, hapctx: hapctx}
}

func TestHunt3Sweep(t *testing.T) {
	log.Info.Disable()
	n := 200
	if v, err := strconv.Atoi(os.Getenv("H3N")); err == nil {
		n = v
	}
	seed := time.Now().UnixNano()
	r := mrand.New(mrand.NewSource(seed))
	t.Log("seed", seed)
	known, encM4 := 0, 0
	for i := 0; i < n && !t.Failed(); i++ {
		pin := h3randPin(r)
		code, _ := ValidatePin(pin)
		id := h3randID(r)
		accID := string(h3randID(r))
		if r.Intn(3) == 0 {
			accID = fmt.Sprintf("%02X:%02X:%02X:%02X:%02X:%02X", r.Intn(256), r.Intn(256), r.Intn(256), r.Intn(256), r.Intn(256), r.Intn(256))
		}
		if accID == string(id) {
			continue
		}
		dir := t.TempDir()
		a := h3server(t, dir, accID, code)
		func() {
			defer a.cancel()
			c, err := newRefCtl(a.addr, id)
			if err != nil {
				t.Fatal(err)
			}
			defer c.close()
			desc := fmt.Sprintf("pin %s acc %q id %q", pin, accID, id)
			wrong := h3randPin(r)
			if wrong != pin && r.Intn(2) == 0 {
				err := c.pairSetup(refFormatCode(wrong))
				if pe, ok := err.(*refPairErr); !ok || pe.state != 4 || pe.code != 2 {
					if err != errRefKnownSRPPadding {
						t.Errorf("%s: wrong code %s answered with %v", desc, wrong, err)
					}
				}
				if es, _ := a.database.Entities(); len(es) != 1 {
					t.Errorf("%s: entities after wrong code: %d", desc, len(es))
				}
			}
			if err := c.pairSetup(refFormatCode(pin)); err != nil {
				if err == errRefKnownSRPPadding {
					known++
					return
				}
				t.Errorf("%s: pair-setup: %v", desc, err)
				return
			}
			if string(c.accID) != accID {
				t.Errorf("%s: accessory id in M6 %q", desc, c.accID)
			}
			e, err := a.database.EntityWithName(string(id))
			if err != nil || !bytes.Equal(e.PublicKey, c.ltpk) || e.Name != string(id) {
				t.Errorf("%s: stored entity %+v, %v", desc, e, err)
			}
			if r.Intn(2) == 0 {
				c.close()
				if r.Intn(2) == 0 {
					// restart on the same storage
					a.cancel()
					a = h3server(t, dir, accID, code)
				}
				if err := c.dial(a.addr); err != nil {
					t.Fatal(err)
				}
			}
			if err := c.pairVerify(); err != nil {
				t.Errorf("%s: pair-verify: %v", desc, err)
				return
			}
			encM4 += c.knownEncryptedM4
			if c.knownEncryptedM4 == 0 {
				time.Sleep(5 * time.Millisecond) // known: hand-over race
			}
			c.frameSize = 1 + r.Intn(1024)
			nreq := 1 + r.Intn(300)
			var items []string
			for j := 0; j < nreq; j++ {
				items = append(items, fmt.Sprintf(`{"aid":1,"iid":%d,"value":%v}`, a.sw.Switch.On.ID, j%2 == 0))
			}
			body := []byte(`{"characteristics":[` + joinStr(items, ",") + `]}`)
			resp, err := c.do("PUT", "/characteristics", "application/hap+json", body)
			if err != nil || resp.status != 204 {
				t.Errorf("%s: PUT /characteristics (%d bytes, frame %d): %v %+v", desc, len(body), c.frameSize, err, resp)
				return
			}
			resp, err = c.do("GET", fmt.Sprintf("/characteristics?id=1.%d", a.sw.Switch.On.ID), "", nil)
			if err != nil || resp.status != 200 {
				t.Errorf("%s: GET /characteristics: %v %+v", desc, err, resp)
				return
			}
			want := fmt.Sprintf(`"value":%v`, (nreq-1)%2 == 0)
			if !bytes.Contains(resp.body, []byte(want)) {
				t.Errorf("%s: GET body %s, want %s", desc, resp.body, want)
			}
		}()
	}
	t.Logf("known SRP padding cases %d, known encrypted M4 %d", known, encM4)
}

package hc

import (
	"bytes"
	"context"
	"net"
	"net/http"
	"sync"
	"testing"
	"time"

	"github.com/brutella/hc/accessory"
	"github.com/brutella/hc/db"
	"github.com/brutella/hc/event"
	"github.com/brutella/hc/hap"
	hchttp "github.com/brutella/hc/hap/http"
	"github.com/brutella/hc/log"
)

// Clause: "exchanges encrypted requests and responses with the accessory ... request
// sizes from one frame to many" / observe_at "decrypted HTTP responses".
//
// An application adds an endpoint to the exported Mux of the HAP server, the same
// way ip_transport.go adds /resource, and answers with a body which it writes with
// one Write call. hap.Connection.Write returns the number of ENCRYPTED bytes it
// put on the socket (len(b) + 18 per frame), which is more than len(b). net/http's
// bufio.Writer does p = p[n:] with that n and panics; net/http recovers, the
// connection is closed and the controller gets no (or half a) response.
func TestHunt3LargeSingleWrite(t *testing.T) {
	log.Info.Disable()
	database, err := db.NewDatabase(t.TempDir())
	if err != nil {
		t.Fatal(err)
	}
	device, err := hap.NewSecuredDevice("11:22:33:44:55:66", "001-02-003", database)
	if err != nil {
		t.Fatal(err)
	}
	container := accessory.NewContainer()
	container.AddAccessory(accessory.NewSwitch(accessory.Info{Name: "S"}).Accessory)
	s := hchttp.NewServer(hchttp.Config{
		Port:      "127.0.0.1:0",
		Context:   hap.NewContextForSecuredDevice(device),
		Database:  database,
		Container: container,
		Device:    device,
		Mutex:     &sync.Mutex{},
		Emitter:   event.NewEmitter(),
	})
	payload := bytes.Repeat([]byte("0123456789abcdef"), 1024) // 16 KiB
	s.Mux.Handle("/blob", s.Authenticate(http.HandlerFunc(func(w http.ResponseWriter, r *http.Request) {
		w.Header().Set("Content-Type", "application/octet-stream")
		w.Write(payload)
	})))
	ctx, cancel := context.WithCancel(context.Background())
	defer cancel()
	go s.ListenAndServe(ctx)
	addr := net.JoinHostPort("127.0.0.1", s.Port())

	a := &h3acc{addr: addr}
	c := h3verified(t, a, "C0FFEE00-0000-4000-8000-000000000040")
	defer c.close()

	r, err := c.do("GET", "/blob", "", nil)
	if err != nil {
		t.Fatalf("GET /blob (one Write of %d bytes): %v", len(payload), err)
	}
	if r.status != 200 || !bytes.Equal(r.body, payload) {
		t.Fatalf("GET /blob: status %d, %d bytes", r.status, len(r.body))
	}
	// and the connection is still usable
	c.conn.SetDeadline(time.Now().Add(2 * time.Second))
	if r, err := c.do("GET", "/accessories", "", nil); err != nil || r.status != 200 {
		t.Fatalf("next request: %v %v", err, r)
	}
}

package hc

import (
	"testing"
	"time"

	"github.com/brutella/hc/log"
)

func h3pair(t *testing.T, a *h3acc, id string, pin string) *refCtl {
	for i := 0; i < 5; i++ {
		c, err := newRefCtl(a.addr, []byte(id))
		if err != nil {
			t.Fatal(err)
		}
		err = c.pairSetup(refFormatCode(pin))
		if err == errRefKnownSRPPadding {
			c.close()
			continue
		}
		if err != nil {
			t.Fatal(err)
		}
		return c
	}
	t.Fatal("no luck")
	return nil
}

func TestHunt3Restart(t *testing.T) {
	log.Info.Disable()
	dir := t.TempDir()
	a := h3start(t, dir, "00102003")
	c := h3pair(t, a, "C0FFEE00-0000-4000-8000-000000000001", "00102003")
	if err := c.pairVerify(); err != nil {
		t.Fatal(err)
	}
	time.Sleep(20 * time.Millisecond)
	if r, err := c.do("GET", "/accessories", "", nil); err != nil || r.status != 200 {
		t.Fatal(err, r)
	}
	a.stop()
	// the connection is gone
	if _, err := c.do("GET", "/accessories", "", nil); err == nil {
		t.Errorf("request after stop answered")
	}
	b := h3start(t, dir, "00102003")
	defer b.stop()
	if err := c.dial(b.addr); err != nil {
		t.Fatal(err)
	}
	if err := c.pairVerify(); err != nil {
		t.Fatalf("pair-verify after restart: %v", err)
	}
	time.Sleep(20 * time.Millisecond)
	if r, err := c.do("GET", "/accessories", "", nil); err != nil || r.status != 200 {
		t.Fatal(err, r)
	}
	// verify again on the same, now encrypted, connection
	if err := c.pairVerify(); err != nil {
		t.Logf("second pair-verify on the encrypted connection: %v", err)
	} else {
		time.Sleep(20 * time.Millisecond)
		if r, err := c.do("GET", "/accessories", "", nil); err != nil || r.status != 200 {
			t.Errorf("after re-verify: %v %v", err, r)
		}
	}
}

// histories of pair-setup on one connection
func TestHunt3SetupHistories(t *testing.T) {
	log.Info.Disable()
	a := h3start(t, t.TempDir(), "00102003")
	defer a.stop()
	c, _ := newRefCtl(a.addr, []byte("C0FFEE00-0000-4000-8000-000000000002"))
	// M1, then M1 again
	m2, _, err := c.postTLV("/pair-setup", refTLVItem{tState, []byte{1}}, refTLVItem{tMethod, []byte{0}})
	t.Log("first M1:", err, refExpectState(m2, 2))
	m2, _, err = c.postTLV("/pair-setup", refTLVItem{tState, []byte{1}}, refTLVItem{tMethod, []byte{0}})
	t.Log("second M1:", err)
	if err == nil {
		t.Log(refExpectState(m2, 2))
	}
	err = c.pairSetup("001-02-003")
	t.Log("full:", err)
	// again after completion
	err = c.pairSetup("001-02-003")
	t.Log("full again on the same connection:", err)
	err = c.pairSetup("001-02-003")
	t.Log("and again:", err)
	// M1 with flags item
	c2, _ := newRefCtl(a.addr, []byte("x"))
	m2, _, err = c2.postTLV("/pair-setup", refTLVItem{tState, []byte{1}}, refTLVItem{tMethod, []byte{0}}, refTLVItem{tFlags, []byte{0, 0, 0, 0}})
	t.Log("M1 with flags:", err)
	c3, _ := newRefCtl(a.addr, []byte("x"))
	m2, _, err = c3.postTLV("/pair-setup", refTLVItem{tMethod, []byte{0}}, refTLVItem{tState, []byte{1}})
	t.Log("M1 method first:", err)
}

package hc

import (
	"fmt"
	"net"
	"testing"
	"time"

	"github.com/brutella/hc/log"
)

// Clause: "exchanges encrypted requests and responses with the accessory".
// History: the controller sends its last request and shuts down its sending side
// (TCP half-close, FIN after the request); it still reads. A net/http server
// answers such a request. hap.Connection.DecryptedRead treats the EOF which the
// server's background read sees as a failure and closes the socket, so the
// response is never sent.
func TestHunt3HalfClose(t *testing.T) {
	log.Info.Disable()
	a := h3server(t, t.TempDir(), "11:22:33:44:55:66", "001-02-003")
	defer a.cancel()
	// the application reads the value from a device: that takes a moment
	a.sw.Switch.On.OnValueRemoteGet(func() bool {
		time.Sleep(100 * time.Millisecond)
		return true
	})
	for _, encrypted := range []bool{false, true} {
		c := h3pair2(t, a.addr, "C0FFEE00-0000-4000-8000-000000000060")
		if encrypted {
			if err := c.pairVerify(); err != nil {
				t.Fatal(err)
			}
			time.Sleep(20 * time.Millisecond)
		}
		req := fmt.Sprintf("GET /characteristics?id=1.%d HTTP/1.1\r\nHost: %s\r\n\r\n", a.sw.Switch.On.ID, c.host)
		c.conn.SetDeadline(time.Now().Add(3 * time.Second))
		if err := c.write([]byte(req)); err != nil {
			t.Fatal(err)
		}
		c.conn.(*net.TCPConn).CloseWrite()
		r, err := c.readResp("GET")
		if err != nil {
			t.Errorf("encrypted=%v: no response after half-close: %v", encrypted, err)
		} else {
			t.Logf("encrypted=%v: status %d", encrypted, r.status)
		}
		c.close()
	}
}

func h3pair2(t *testing.T, addr, id string) *refCtl {
	for {
		c, err := newRefCtl(addr, []byte(id))
		if err != nil {
			t.Fatal(err)
		}
		err = c.pairSetup("001-02-003")
		if err == errRefKnownSRPPadding {
			c.close()
			continue
		}
		if err != nil {
			t.Fatal(err)
		}
		return c
	}
}

package hc

import (
	"fmt"
	"sync"
	"testing"
	"time"

	"github.com/brutella/hc/log"
)

// several controllers pair, verify and talk at the same time
func TestHunt3Concurrent(t *testing.T) {
	log.Info.Disable()
	a := h3start(t, t.TempDir(), "00102003")
	defer a.stop()
	var wg sync.WaitGroup
	for i := 0; i < 6; i++ {
		wg.Add(1)
		go func(i int) {
			defer wg.Done()
			id := fmt.Sprintf("C0FFEE00-0000-4000-8000-%012d", i)
			var c *refCtl
			for {
				var err error
				c, err = newRefCtl(a.addr, []byte(id))
				if err != nil {
					t.Error(err)
					return
				}
				err = c.pairSetup("001-02-003")
				if err == errRefKnownSRPPadding {
					c.close()
					continue
				}
				if err != nil {
					t.Errorf("%d: pair-setup: %v", i, err)
					return
				}
				break
			}
			defer c.close()
			for round := 0; round < 5; round++ {
				if round > 0 {
					c.close()
					if err := c.dial(a.addr); err != nil {
						t.Error(err)
						return
					}
				}
				if err := c.pairVerify(); err != nil {
					t.Errorf("%d: pair-verify: %v", i, err)
					return
				}
				time.Sleep(10 * time.Millisecond)
				for k := 0; k < 10; k++ {
					r, err := c.do("GET", "/accessories", "", nil)
					if err != nil || r.status != 200 {
						t.Errorf("%d: GET: %v %v", i, err, r)
						return
					}
					body := fmt.Sprintf(`{"characteristics":[{"aid":1,"iid":%d,"value":%v}]}`, a.sw.Switch.On.ID, k%2 == 0)
					r, err = c.do("PUT", "/characteristics", "application/hap+json", []byte(body))
					if err != nil || r.status != 204 {
						t.Errorf("%d: PUT: %v %v", i, err, r)
						return
					}
				}
			}
		}(i)
	}
	wg.Wait()
}

package hc

import (
	"crypto/ed25519"
	"crypto/rand"
	"testing"

	"github.com/brutella/hc/db"
	"github.com/brutella/hc/log"
)

func TestHunt3RePairAndStorage(t *testing.T) {
	log.Info.Disable()
	dir := t.TempDir()
	// storage contents: fifty other controllers
	database, _ := db.NewDatabase(dir)
	for i := 0; i < 50; i++ {
		pub, _, _ := ed25519.GenerateKey(rand.Reader)
		database.SaveEntity(db.NewEntity(string(h3randID(h3rng)), pub, nil))
	}
	a := h3server(t, dir, "11:22:33:44:55:66", "001-02-003")
	defer a.cancel()
	id := "C0FFEE00-0000-4000-8000-000000000070"
	c1 := h3pair2(t, a.addr, id)
	c1.close()
	c2 := h3pair2(t, a.addr, id) // new key pair, same id
	if err := c2.pairVerify(); err != nil {
		t.Errorf("verify with the new key: %v", err)
	}
	c2.close()
	c1.dial(a.addr)
	if err := c1.pairVerify(); err == nil {
		t.Errorf("verify with the replaced key accepted")
	} else {
		t.Log("old key:", err)
	}
}

package hc

import (
	"testing"
	"time"

	"github.com/brutella/hc/log"
)

func TestHunt3TwoTransports(t *testing.T) {
	log.Info.Disable()
	a := h3start(t, t.TempDir(), "00102003")
	b := h3start(t, t.TempDir(), "11122333")
	defer a.stop()
	defer b.stop()
	ca := h3pair(t, a, "C0FFEE00-0000-4000-8000-0000000000B0", "00102003")
	cb := h3pair(t, b, "C0FFEE00-0000-4000-8000-0000000000B0", "11122333")
	if string(ca.accID) == string(cb.accID) {
		t.Errorf("same accessory id %q", ca.accID)
	}
	for _, c := range []*refCtl{ca, cb} {
		if err := c.pairVerify(); err != nil {
			t.Error(err)
		}
		time.Sleep(5 * time.Millisecond)
		if r, err := c.do("GET", "/accessories", "", nil); err != nil || r.status != 200 {
			t.Error(err, r)
		}
	}
	// pairing of a must not verify at b
	ca.close()
	ca.dial(b.addr)
	if err := ca.pairVerify(); err == nil {
		t.Errorf("verify at the wrong accessory succeeded")
	}
}

package hc

import (
	"encoding/json"
	"fmt"
	"net"
	"testing"
	"time"

	"github.com/brutella/hc/accessory"
	"github.com/brutella/hc/log"
)

func TestHunt3BigResponse(t *testing.T) {
	log.Info.Disable()
	bridge := accessory.NewBridge(accessory.Info{Name: "Bridge"})
	var as []*accessory.Accessory
	for i := 0; i < 60; i++ {
		as = append(as, accessory.NewThermostat(accessory.Info{Name: fmt.Sprintf("T%d", i), ID: uint64(i + 2)}, 20, 10, 30, 0.5).Accessory)
	}
	port := h3freePort()
	tr, err := NewIPTransport(Config{StoragePath: t.TempDir(), Pin: "00102003", Port: port}, bridge.Accessory, as...)
	if err != nil {
		t.Fatal(err)
	}
	go tr.Start()
	defer func() { <-tr.Stop() }()
	addr := "127.0.0.1:" + port
	for i := 0; i < 400; i++ {
		if c, err := net.Dial("tcp", addr); err == nil {
			c.Close()
			break
		}
		time.Sleep(5 * time.Millisecond)
	}
	a := &h3acc{tr: tr, addr: addr}
	c := h3verified(t, a, "C0FFEE00-0000-4000-8000-000000000030")
	defer c.close()
	for i := 0; i < 5; i++ {
		c.lastFrames = nil
		r, err := c.do("GET", "/accessories", "", nil)
		if err != nil || r.status != 200 {
			t.Fatal(err, r)
		}
		var v map[string]interface{}
		if err := json.Unmarshal(r.body, &v); err != nil {
			t.Fatal(err)
		}
		t.Log(len(r.body), "bytes in", len(c.lastFrames), "frames", r.header)
	}
}

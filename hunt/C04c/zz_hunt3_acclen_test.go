package hc

import (
	"os"
	"strings"
	"sync"
	"testing"
	"time"

	"github.com/brutella/hc/db"
	"github.com/brutella/hc/log"
)

func TestHunt3AccessoryIDLengths(t *testing.T) {
	log.Info.Disable()
	for _, L := range []int{1, 2, 17, 100, 119, 120, 135, 136, 137, 138, 139, 150, 151, 152, 153, 154, 155, 254, 255, 256, 390, 391, 392, 393, 394, 395, 510} {
		accID := strings.Repeat("a", L)
		a := h3serverDB(t, db.NewDatabaseWithStorage(&h3mem{m: map[string][]byte{}}), accID, "001-02-003")
		c := h3pair2(t, a.addr, "C0FFEE00-0000-4000-8000-000000000090")
		if string(c.accID) != accID {
			t.Errorf("L=%d: accessory id %d bytes", L, len(c.accID))
		}
		if err := c.pairVerify(); err != nil {
			t.Errorf("L=%d: %v", L, err)
		}
		time.Sleep(3 * time.Millisecond)
		if r, err := c.do("GET", "/accessories", "", nil); err != nil || r.status != 200 {
			t.Errorf("L=%d: %v", L, err)
		}
		c.close()
		a.cancel()
	}
}

type h3mem struct {
	mu sync.Mutex
	m  map[string][]byte
}

func (s *h3mem) Set(key string, value []byte) error {
	s.mu.Lock()
	defer s.mu.Unlock()
	s.m[key] = append([]byte{}, value...)
	return nil
}
func (s *h3mem) Delete(key string) error {
	s.mu.Lock()
	defer s.mu.Unlock()
	delete(s.m, key)
	return nil
}
func (s *h3mem) Get(key string) ([]byte, error) {
	s.mu.Lock()
	defer s.mu.Unlock()
	if v, ok := s.m[key]; ok {
		return v, nil
	}
	return nil, os.ErrNotExist
}
func (s *h3mem) KeysWithSuffix(suffix string) ([]string, error) {
	s.mu.Lock()
	defer s.mu.Unlock()
	var ks []string
	for k := range s.m {
		if strings.HasSuffix(k, suffix) {
			ks = append(ks, k)
		}
	}
	return ks, nil
}

package hc

import (
	"encoding/json"
	"io/ioutil"
	"os"
	"testing"

	"github.com/brutella/hc/accessory"
)

// C14, clause "in every accessory container accessory ids are unique ... for every composition of
// accessories ... with explicit or automatic accessory ids" / the attribute database served to
// controllers carries every accessory of the composition.
//
// Composition: a bridge and a lamp with automatic ids, followed by a switch whose id (2) was set
// explicitly (e.g. because it was persisted by the application).  All ids the APPLICATION chose are
// pairwise distinct.  The container hands 2 to the lamp (fix 916fa3c only looks at ids which are
// taken ALREADY), rejects the switch as "duplicate accessory id 2", NewIPTransport drops the error:
// the switch is missing from the database although its characteristics are wired for notifications
// under (aid 2, iid n) -- which are the lamp's addresses.
func TestHunt3C14AutomaticIdTakesLaterExplicitId(t *testing.T) {
	dir, err := ioutil.TempDir("", "hunt3c14")
	if err != nil {
		t.Fatal(err)
	}
	defer os.RemoveAll(dir)

	bridge := accessory.NewBridge(accessory.Info{Name: "Bridge"})
	lamp := accessory.NewLightbulb(accessory.Info{Name: "Lamp"})
	sw := accessory.NewSwitch(accessory.Info{Name: "Switch", ID: 2})

	tr, err := NewIPTransport(Config{StoragePath: dir, Port: "0"}, bridge.Accessory, lamp.Accessory, sw.Accessory)
	if err != nil {
		t.Fatal(err)
	}

	b, err := json.Marshal(tr.container)
	if err != nil {
		t.Fatal(err)
	}
	var doc struct {
		Accessories []struct {
			Aid uint64 `json:"aid"`
		} `json:"accessories"`
	}
	if err := json.Unmarshal(b, &doc); err != nil {
		t.Fatal(err)
	}
	aids := []uint64{}
	for _, a := range doc.Accessories {
		aids = append(aids, a.Aid)
	}
	t.Logf("served aids: %v; Go objects: bridge=%d lamp=%d switch=%d", aids, bridge.ID, lamp.ID, sw.ID)

	if lamp.ID == sw.ID {
		t.Errorf("lamp and switch of one transport both have accessory id %d", lamp.ID)
	}
	if len(doc.Accessories) != 3 {
		t.Errorf("composition of 3 accessories with pairwise distinct explicit ids: %d accessories are served (aids %v)", len(doc.Accessories), aids)
	}
}

package accessory

import (
	"encoding/json"
	"math"
	"testing"

	"github.com/brutella/hc/characteristic"
	"github.com/brutella/hc/service"
)

// C14, clause "the attribute database served to controllers is well-formed HAP JSON", quantifier
// "for every accessory constructor in the library".
//
// NewTemperatureSensor / NewThermostat take the range of the temperature as float64 arguments.  An
// application which has no bound passes an infinity ("no limit"); Float.SetMinValue/SetMaxValue/
// SetStepValue store it as it is (the repair de4cec0 "float characteristics ignore non-finite values"
// covers the value only) and from then on encoding/json refuses to encode the WHOLE container:
// GET /accessories is answered with 500 for every accessory of the bridge, and ContentHash (called by
// NewIPTransport) panics.
func TestHunt3C14NonFiniteRangeMakesDatabaseUnencodable(t *testing.T) {
	for name, acc := range map[string]*Accessory{
		"NewTemperatureSensor(-Inf,+Inf)": NewTemperatureSensor(Info{Name: "t"}, 20, math.Inf(-1), math.Inf(1), 0.1).Accessory,
		"NewThermostat(step NaN)":         NewThermostat(Info{Name: "t"}, 20, 10, 30, math.NaN()).Accessory,
	} {
		c := NewContainer()
		if err := c.AddAccessory(NewBridge(Info{Name: "b"}).Accessory); err != nil {
			t.Fatal(err)
		}
		if err := c.AddAccessory(acc); err != nil {
			t.Fatal(err)
		}
		if _, err := json.Marshal(c); err != nil {
			t.Errorf("%s: the attribute database cannot be encoded: %v", name, err)
		}
		func() {
			defer func() {
				if r := recover(); r != nil {
					t.Errorf("%s: ContentHash panics: %v", name, r)
				}
			}()
			c.ContentHash()
		}()
	}
}

// C14, clause "every characteristic [carries] its format and a valid permission list", quantifier
// "accessories built from arbitrary services".
//
// A service of the application's own, built with the exported constructors of the library.  The doc
// comment of NewCharacteristic promises "If no permissions are specified, the value of PermsAll() is
// used"; nothing does that: the characteristic is served with "perms":null, and the ones made by
// NewFloat / NewInt with "format":"" too (NewBool, NewString and NewBytes do set their format).
func TestHunt3C14CustomCharacteristicServedWithoutPermsAndFormat(t *testing.T) {
	level := characteristic.NewFloat("F0000001-0000-1000-8000-0026BB765291")
	level.SetValue(1.5)
	label := characteristic.NewString("F0000002-0000-1000-8000-0026BB765291")
	label.SetValue("x")

	svc := service.New("F0000000-0000-1000-8000-0026BB765291")
	svc.AddCharacteristic(level.Characteristic)
	svc.AddCharacteristic(label.Characteristic)

	acc := New(Info{Name: "custom"}, TypeOther)
	acc.AddService(svc)
	c := NewContainer()
	if err := c.AddAccessory(acc); err != nil {
		t.Fatal(err)
	}

	b, err := json.Marshal(svc)
	if err != nil {
		t.Fatal(err)
	}
	t.Logf("%s", b)

	var doc struct {
		Characteristics []map[string]interface{} `json:"characteristics"`
	}
	if err := json.Unmarshal(b, &doc); err != nil {
		t.Fatal(err)
	}
	for _, ch := range doc.Characteristics {
		perms, ok := ch["perms"].([]interface{})
		if !ok || len(perms) == 0 {
			t.Errorf("iid %v: perms is %v, not a permission list", ch["iid"], ch["perms"])
		}
		if f, _ := ch["format"].(string); f == "" {
			t.Errorf("iid %v: format is %q", ch["iid"], ch["format"])
		}
	}
}

// C14, clause "within each accessory all service and characteristic instance ids are ... non-zero",
// quantifier "for every accessory constructor in the library".   BORDERLINE: the second stream
// management service is created and exported by NewCamera but deliberately (commented out, TODO) not
// added; the Go object has service iid 0 and six characteristics with iid 0, it is not served, and
// values set on it go nowhere.
func TestHunt3C14CameraSecondStreamManagementHasZeroIds(t *testing.T) {
	cam := NewCamera(Info{Name: "cam"})
	c := NewContainer()
	if err := c.AddAccessory(cam.Accessory); err != nil {
		t.Fatal(err)
	}
	if id := cam.StreamManagement1.Service.ID; id == 0 {
		t.Errorf("StreamManagement1 has instance id 0")
	}
	if id := cam.StreamManagement2.Service.ID; id == 0 {
		t.Errorf("StreamManagement2 (exported field of accessory.Camera) has service instance id 0")
	}
	zero := 0
	for _, ch := range cam.StreamManagement2.Service.Characteristics {
		if ch.ID == 0 {
			zero++
		}
	}
	if zero > 0 {
		t.Errorf("%d characteristics of StreamManagement2 have instance id 0", zero)
	}
}

package characteristic

import (
	"encoding/json"
	"testing"
)

// C14, clause "the attribute database served to controllers is well-formed HAP JSON (... every
// characteristic its format ...)".
//
// The HAP specification (R2, table 6-5 "Characteristic properties", key "format") knows the formats
// bool, uint8, uint16, uint32, uint64, int, float, string, tlv8, data.   The signed 32-bit format is
// spelled "int"; the library serves "int32" (the spelling of the HomeKit Accessory Simulator's plist
// from which the code is generated) for brightness, rotation direction and the six tilt angles.
// BORDERLINE: Apple's controllers are known to tolerate it.
func TestHunt3C14SignedFormatIsNotAHAPFormat(t *testing.T) {
	valid := map[string]bool{"bool": true, "uint8": true, "uint16": true, "uint32": true, "uint64": true,
		"int": true, "float": true, "string": true, "tlv8": true, "data": true}

	for name, c := range map[string]*Characteristic{
		"Brightness":                 NewBrightness().Characteristic,
		"RotationDirection":          NewRotationDirection().Characteristic,
		"CurrentTiltAngle":           NewCurrentTiltAngle().Characteristic,
		"TargetTiltAngle":            NewTargetTiltAngle().Characteristic,
		"CurrentHorizontalTiltAngle": NewCurrentHorizontalTiltAngle().Characteristic,
		"TargetHorizontalTiltAngle":  NewTargetHorizontalTiltAngle().Characteristic,
		"CurrentVerticalTiltAngle":   NewCurrentVerticalTiltAngle().Characteristic,
		"TargetVerticalTiltAngle":    NewTargetVerticalTiltAngle().Characteristic,
	} {
		b, err := json.Marshal(c)
		if err != nil {
			t.Fatal(err)
		}
		var m map[string]interface{}
		if err := json.Unmarshal(b, &m); err != nil {
			t.Fatal(err)
		}
		if f, _ := m["format"].(string); !valid[f] {
			t.Errorf("%s is served with \"format\":%q", name, f)
		}
	}
}

package http

import (
	"encoding/json"
	"fmt"
	"io/ioutil"
	"net/http"
	"net/http/httptest"
	"sync"
	"testing"

	"github.com/brutella/hc/accessory"
)

// OUTSIDE the literal statement of C14 (the body is well-formed; this is about its label), kept as a
// borderline observation.
// Probe: GET /accessories over a real HTTP server (handler called directly, the authentication
// wrapper is not what is probed) with 60 accessories: is the body well-formed, complete JSON and how
// is it labelled?
func TestHunt3C14AccessoriesResponse(t *testing.T) {
	c := accessory.NewContainer()
	c.AddAccessory(accessory.NewBridge(accessory.Info{Name: "b"}).Accessory)
	for i := 0; i < 60; i++ {
		c.AddAccessory(accessory.NewThermostat(accessory.Info{Name: fmt.Sprintf("t<%d>&", i)}, 20, 10, 30, 0.5).Accessory)
	}
	srv := testable(Config{Container: c, Mutex: &sync.Mutex{}})
	ts := httptest.NewServer(http.HandlerFunc(srv.Accessories))
	defer ts.Close()

	resp, err := http.Get(ts.URL + "/accessories")
	if err != nil {
		t.Fatal(err)
	}
	defer resp.Body.Close()
	b, _ := ioutil.ReadAll(resp.Body)
	var doc struct {
		Accessories []struct {
			Aid uint64 `json:"aid"`
		} `json:"accessories"`
	}
	if err := json.Unmarshal(b, &doc); err != nil {
		t.Fatalf("body is not JSON: %v", err)
	}
	if len(doc.Accessories) != 61 {
		t.Errorf("%d accessories", len(doc.Accessories))
	}
	t.Logf("%d bytes, status %d, Content-Type %q, Transfer-Encoding %v", len(b), resp.StatusCode, resp.Header.Get("Content-Type"), resp.TransferEncoding)
	if ct := resp.Header.Get("Content-Type"); ct != "application/hap+json" {
		t.Errorf("GET /accessories is answered with Content-Type %q, not application/hap+json", ct)
	}
}

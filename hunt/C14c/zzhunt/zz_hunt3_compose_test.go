package zzhunt

import (
	"encoding/json"
	"fmt"
	"math/rand"
	"reflect"
	"testing"

	"github.com/brutella/hc/accessory"
	"github.com/brutella/hc/service"
)

type spec struct {
	ctor     int
	id       uint64
	extra    []string // service ctor names
	links    [][2]int // indices into services
	hidden   []int
	primary  int
	useExtra bool
}

func svcOf(v interface{}) *service.Service {
	rv := reflect.ValueOf(v).Elem()
	f := rv.FieldByName("Service")
	return f.Interface().(*service.Service)
}

func genSpecs(r *rand.Rand, explicitBeforeAuto bool) []spec {
	n := 1 + r.Intn(30)
	keys := sortedKeys(svcCtors)
	used := map[uint64]bool{}
	specs := []spec{}
	for i := 0; i < n; i++ {
		s := spec{ctor: r.Intn(len(accCtors)), primary: -1}
		if r.Intn(3) == 0 {
			for {
				id := uint64(1 + r.Intn(40))
				if r.Intn(10) == 0 {
					id = r.Uint64() | 1
				}
				if !used[id] {
					used[id] = true
					s.id = id
					break
				}
			}
		}
		ne := r.Intn(5)
		for j := 0; j < ne; j++ {
			s.extra = append(s.extra, keys[r.Intn(len(keys))])
		}
		nl := r.Intn(4)
		for j := 0; j < nl; j++ {
			s.links = append(s.links, [2]int{r.Intn(100), r.Intn(100)})
		}
		for j := 0; j < r.Intn(3); j++ {
			s.hidden = append(s.hidden, r.Intn(100))
		}
		if r.Intn(2) == 0 {
			s.primary = r.Intn(100)
		}
		specs = append(specs, s)
	}
	if explicitBeforeAuto {
		a, b := []spec{}, []spec{}
		for _, s := range specs {
			if s.id != 0 {
				a = append(a, s)
			} else {
				b = append(b, s)
			}
		}
		specs = append(a, b...)
	}
	return specs
}

func build(specs []spec) (*accessory.Container, []*accessory.Accessory, []error) {
	c := accessory.NewContainer()
	accs := []*accessory.Accessory{}
	errs := []error{}
	for i, sp := range specs {
		_, a := accCtors[sp.ctor].fn(accessory.Info{Name: fmt.Sprintf("acc%d", i), ID: sp.id})
		for _, e := range sp.extra {
			a.AddService(svcOf(svcCtors[e]()))
		}
		ns := len(a.Services)
		for _, l := range sp.links {
			from, to := l[0]%ns, l[1]%ns
			if from != to {
				a.Services[from].AddLinkedService(a.Services[to])
			}
		}
		for _, h := range sp.hidden {
			a.Services[h%ns].Hidden = true
		}
		if sp.primary >= 0 {
			a.Services[sp.primary%ns].Primary = true
		}
		accs = append(accs, a)
		if err := c.AddAccessory(a); err != nil {
			errs = append(errs, fmt.Errorf("acc %d (id %d): %v", i, sp.id, err))
		}
	}
	return c, accs, errs
}

func checkContainerJSON(t *testing.T, c *accessory.Container) bool {
	b, err := json.Marshal(c)
	if err != nil {
		t.Errorf("marshal: %v", err)
		return false
	}
	var doc struct {
		Accessories []struct {
			Aid      *json.Number `json:"aid"`
			Services []struct {
				Iid             *json.Number `json:"iid"`
				Type            *string      `json:"type"`
				Linked          []json.Number
				Characteristics []map[string]interface{}
			} `json:"services"`
		} `json:"accessories"`
	}
	if err := json.Unmarshal(b, &doc); err != nil {
		t.Errorf("unmarshal: %v", err)
		return false
	}
	ok := true
	aids := map[string]bool{}
	for _, a := range doc.Accessories {
		if a.Aid == nil || a.Aid.String() == "0" {
			t.Errorf("aid missing/zero")
			ok = false
			continue
		}
		if aids[a.Aid.String()] {
			t.Errorf("aid %s duplicate", a.Aid)
			ok = false
		}
		aids[a.Aid.String()] = true
		iids := map[string]bool{}
		siids := map[string]bool{}
		for _, s := range a.Services {
			if s.Iid == nil || s.Iid.String() == "0" || iids[s.Iid.String()] {
				t.Errorf("aid %s: service iid %v zero/dup", a.Aid, s.Iid)
				ok = false
			} else {
				iids[s.Iid.String()] = true
				siids[s.Iid.String()] = true
			}
			if s.Type == nil || *s.Type == "" {
				t.Errorf("aid %s: service without type", a.Aid)
				ok = false
			}
			for _, c := range s.Characteristics {
				iid := fmt.Sprint(c["iid"])
				if iid == "0" || iid == "<nil>" || iids[iid] {
					t.Errorf("aid %s: char iid %v zero/dup", a.Aid, iid)
					ok = false
				}
				iids[iid] = true
				if ty, _ := c["type"].(string); ty == "" {
					t.Errorf("aid %s iid %s: no type", a.Aid, iid)
					ok = false
				}
				if f, _ := c["format"].(string); f == "" {
					t.Errorf("aid %s iid %s: no format", a.Aid, iid)
					ok = false
				}
				if p, _ := c["perms"].([]interface{}); len(p) == 0 {
					t.Errorf("aid %s iid %s: no perms", a.Aid, iid)
					ok = false
				}
			}
		}
		for _, s := range a.Services {
			for _, l := range s.Linked {
				if !siids[l.String()] {
					t.Errorf("aid %s svc %s: linked %s is not a service", a.Aid, s.Iid, l)
					ok = false
				}
				if l.String() == s.Iid.String() {
					t.Errorf("self link")
				}
			}
		}
	}
	return ok
}

func snapshot(accs []*accessory.Accessory) string {
	s := ""
	for _, a := range accs {
		s += fmt.Sprintf("A%d[", a.ID)
		for _, sv := range a.Services {
			s += fmt.Sprintf("S%d(", sv.ID)
			for _, c := range sv.Characteristics {
				s += fmt.Sprintf("%d,", c.ID)
			}
			s += ")"
		}
		s += "]"
	}
	return s
}

func TestProbeRandomCompositions(t *testing.T) {
	for _, explicitFirst := range []bool{true, false} {
		nerr := 0
		for seed := int64(0); seed < 400; seed++ {
			specs := genSpecs(rand.New(rand.NewSource(seed)), explicitFirst)
			c, accs, errs := build(specs)
			if len(errs) > 0 {
				nerr++
				if nerr <= 3 {
					t.Logf("explicitFirst=%v seed %d: AddAccessory errors with pairwise distinct explicit ids: %v", explicitFirst, seed, errs)
				}
			}
			if len(errs) == 0 && len(c.Accessories) != len(specs) {
				t.Errorf("seed %d: accessories missing", seed)
			}
			for i, a := range accs {
				checkAccessoryIDs(t, fmt.Sprintf("seed %d acc %d", seed, i), a)
			}
			if !checkContainerJSON(t, c) {
				t.Fatalf("seed %d", seed)
			}
			_, accs2, _ := build(specs)
			if snapshot(accs) != snapshot(accs2) {
				t.Errorf("seed %d: rebuild differs", seed)
			}
		}
		t.Logf("explicitFirst=%v: %d/400 compositions with AddAccessory errors", explicitFirst, nerr)
		if explicitFirst && nerr > 0 {
			t.Errorf("errors in explicit-first order")
		}
	}
}

package zzhunt

import (
	"encoding/json"
	"fmt"
	"reflect"
	"regexp"
	"sort"
	"testing"

	"github.com/brutella/hc/accessory"
	"github.com/brutella/hc/characteristic"
	"github.com/brutella/hc/service"
)

var validPerms = map[string]bool{"pr": true, "pw": true, "ev": true, "aa": true, "tw": true, "hd": true, "wr": true}
var validFormats = map[string]bool{"bool": true, "uint8": true, "uint16": true, "uint32": true, "uint64": true, "int": true, "float": true, "string": true, "tlv8": true, "data": true}
var validUnits = map[string]bool{"": true, "celsius": true, "percentage": true, "arcdegrees": true, "lux": true, "seconds": true}
var typeRe = regexp.MustCompile(`^[0-9A-F]{1,8}$|^[0-9A-Fa-f]{8}-[0-9A-Fa-f]{4}-[0-9A-Fa-f]{4}-[0-9A-Fa-f]{4}-[0-9A-Fa-f]{12}$`)

func sortedKeys(m map[string]func() interface{}) []string {
	ks := []string{}
	for k := range m {
		ks = append(ks, k)
	}
	sort.Strings(ks)
	return ks
}

func baseChar(v interface{}) *characteristic.Characteristic {
	rv := reflect.ValueOf(v)
	if rv.Kind() == reflect.Ptr {
		rv = rv.Elem()
	}
	var found *characteristic.Characteristic
	var walk func(rv reflect.Value)
	walk = func(rv reflect.Value) {
		if found != nil {
			return
		}
		if rv.Kind() == reflect.Ptr {
			if rv.IsNil() {
				return
			}
			if c, ok := rv.Interface().(*characteristic.Characteristic); ok {
				found = c
				return
			}
			rv = rv.Elem()
		}
		if rv.Kind() == reflect.Struct {
			for i := 0; i < rv.NumField(); i++ {
				if rv.Type().Field(i).Anonymous {
					walk(rv.Field(i))
				}
			}
		}
	}
	walk(rv)
	return found
}

func checkCharJSON(t *testing.T, name string, c *characteristic.Characteristic) {
	b, err := json.Marshal(c)
	if err != nil {
		t.Errorf("%s: marshal: %v", name, err)
		return
	}
	var m map[string]interface{}
	if err := json.Unmarshal(b, &m); err != nil {
		t.Errorf("%s: unmarshal: %v", name, err)
		return
	}
	typ, _ := m["type"].(string)
	if !typeRe.MatchString(typ) {
		t.Errorf("%s: type %q malformed", name, typ)
	}
	f, _ := m["format"].(string)
	if !validFormats[f] {
		t.Errorf("%s: format %q invalid", name, f)
	}
	perms, ok := m["perms"].([]interface{})
	if !ok || len(perms) == 0 {
		t.Errorf("%s: perms %v invalid", name, m["perms"])
	}
	seen := map[string]bool{}
	for _, p := range perms {
		ps, _ := p.(string)
		if !validPerms[ps] {
			t.Errorf("%s: perm %v invalid", name, p)
		}
		if seen[ps] {
			t.Errorf("%s: perm %v twice", name, p)
		}
		seen[ps] = true
	}
	if u, _ := m["unit"].(string); !validUnits[u] {
		t.Errorf("%s: unit %q invalid", name, u)
	}
	// readable => value present & of the format
	if seen["pr"] {
		v, has := m["value"]
		if !has {
			t.Errorf("%s: readable but no value: %s", name, b)
		} else {
			switch f {
			case "bool":
				if _, ok := v.(bool); !ok {
					t.Errorf("%s: value %v not bool", name, v)
				}
			case "uint8", "uint16", "uint32", "uint64", "int":
				fv, ok := v.(float64)
				if !ok || fv != float64(int64(fv)) {
					t.Errorf("%s: value %v not integer", name, v)
				}
				if mn, ok := m["minValue"].(float64); ok && fv < mn {
					t.Errorf("%s: value %v < min %v", name, v, mn)
				}
				if mx, ok := m["maxValue"].(float64); ok && fv > mx {
					t.Errorf("%s: value %v > max %v", name, v, mx)
				}
			case "float":
				fv, ok := v.(float64)
				if !ok {
					t.Errorf("%s: value %v not number", name, v)
				}
				if mn, ok := m["minValue"].(float64); ok && fv < mn {
					t.Errorf("%s: value %v < min %v", name, v, mn)
				}
				if mx, ok := m["maxValue"].(float64); ok && fv > mx {
					t.Errorf("%s: value %v > max %v", name, v, mx)
				}
			case "string", "tlv8", "data":
				if _, ok := v.(string); !ok {
					t.Errorf("%s: value %v not string", name, v)
				}
			}
		}
	} else {
		if _, has := m["value"]; has {
			t.Errorf("%s: not readable but value present: %s", name, b)
		}
	}
	for _, k := range []string{"minValue", "maxValue", "minStep"} {
		if v, has := m[k]; has {
			if _, ok := v.(float64); !ok {
				t.Errorf("%s: %s = %v not a number", name, k, v)
			}
			if f == "bool" || f == "string" || f == "tlv8" || f == "data" {
				t.Errorf("%s: %s on format %s", name, k, f)
			}
		}
	}
}

func TestProbeCharacteristicCtors(t *testing.T) {
	types := map[string]string{}
	for _, k := range sortedKeys(chrCtors) {
		v := chrCtors[k]()
		c := baseChar(v)
		if c == nil {
			t.Errorf("%s: no base characteristic", k)
			continue
		}
		checkCharJSON(t, k, c)
		if o, ok := types[c.Type]; ok {
			t.Errorf("%s: type %s also used by %s", k, c.Type, o)
		}
		types[c.Type] = k
	}
}

// every characteristic-typed field of a service struct is in s.Characteristics exactly once
func TestProbeServiceCtors(t *testing.T) {
	types := map[string]string{}
	for _, k := range sortedKeys(svcCtors) {
		v := svcCtors[k]()
		rv := reflect.ValueOf(v).Elem()
		var svc *service.Service
		fields := map[string]*characteristic.Characteristic{}
		for i := 0; i < rv.NumField(); i++ {
			f := rv.Field(i)
			ft := rv.Type().Field(i)
			if s, ok := f.Interface().(*service.Service); ok {
				svc = s
				continue
			}
			if f.Kind() == reflect.Ptr && f.IsNil() {
				t.Errorf("%s: field %s nil", k, ft.Name)
				continue
			}
			c := baseChar(f.Interface())
			if c == nil {
				t.Errorf("%s: field %s has no characteristic (%s)", k, ft.Name, ft.Type)
				continue
			}
			fields[ft.Name] = c
		}
		if svc == nil {
			t.Errorf("%s: no service", k)
			continue
		}
		if !typeRe.MatchString(svc.Type) {
			t.Errorf("%s: type %q malformed", k, svc.Type)
		}
		if o, ok := types[svc.Type]; ok {
			t.Errorf("%s: type %s also used by %s", k, svc.Type, o)
		}
		types[svc.Type] = k
		count := map[*characteristic.Characteristic]int{}
		ctypes := map[string]int{}
		for _, c := range svc.Characteristics {
			count[c]++
			ctypes[c.Type]++
		}
		for n, c := range fields {
			if count[c] != 1 {
				t.Errorf("%s: field %s is %d times in Characteristics", k, n, count[c])
			}
		}
		if len(fields) != len(svc.Characteristics) {
			t.Errorf("%s: %d fields, %d characteristics", k, len(fields), len(svc.Characteristics))
		}
		for ty, n := range ctypes {
			if n != 1 {
				t.Errorf("%s: characteristic type %s %d times", k, ty, n)
			}
		}
	}
}

type accCtor struct {
	name string
	fn   func(info accessory.Info) (interface{}, *accessory.Accessory)
}

var accCtors = []accCtor{
	{"New", func(i accessory.Info) (interface{}, *accessory.Accessory) {
		a := accessory.New(i, accessory.TypeOther)
		return a, a
	}},
	{"NewBridge", func(i accessory.Info) (interface{}, *accessory.Accessory) {
		a := accessory.NewBridge(i)
		return a, a.Accessory
	}},
	{"NewCamera", func(i accessory.Info) (interface{}, *accessory.Accessory) {
		a := accessory.NewCamera(i)
		return a, a.Accessory
	}},
	{"NewColoredLightbulb", func(i accessory.Info) (interface{}, *accessory.Accessory) {
		a := accessory.NewColoredLightbulb(i)
		return a, a.Accessory
	}},
	{"NewLightbulb", func(i accessory.Info) (interface{}, *accessory.Accessory) {
		a := accessory.NewLightbulb(i)
		return a, a.Accessory
	}},
	{"NewOutlet", func(i accessory.Info) (interface{}, *accessory.Accessory) {
		a := accessory.NewOutlet(i)
		return a, a.Accessory
	}},
	{"NewSwitch", func(i accessory.Info) (interface{}, *accessory.Accessory) {
		a := accessory.NewSwitch(i)
		return a, a.Accessory
	}},
	{"NewTelevision", func(i accessory.Info) (interface{}, *accessory.Accessory) {
		a := accessory.NewTelevision(i)
		return a, a.Accessory
	}},
	{"NewTemperatureSensor", func(i accessory.Info) (interface{}, *accessory.Accessory) {
		a := accessory.NewTemperatureSensor(i, 20, -10, 50, 0.5)
		return a, a.Accessory
	}},
	{"NewThermostat", func(i accessory.Info) (interface{}, *accessory.Accessory) {
		a := accessory.NewThermostat(i, 20, 10, 30, 0.5)
		return a, a.Accessory
	}},
	{"NewWindow", func(i accessory.Info) (interface{}, *accessory.Accessory) {
		a := accessory.NewWindow(i, 30)
		return a, a.Accessory
	}},
}

func checkAccessoryIDs(t *testing.T, name string, a *accessory.Accessory) {
	seen := map[uint64]string{}
	for si, s := range a.Services {
		if s.ID == 0 {
			t.Errorf("%s: service %d id 0", name, si)
		}
		if o, ok := seen[s.ID]; ok {
			t.Errorf("%s: service %d id %d dup with %s", name, si, s.ID, o)
		}
		seen[s.ID] = fmt.Sprintf("svc%d", si)
		for ci, c := range s.Characteristics {
			if c.ID == 0 {
				t.Errorf("%s: service %d char %d id 0", name, si, ci)
			}
			if o, ok := seen[c.ID]; ok {
				t.Errorf("%s: svc %d char %d id %d dup with %s", name, si, ci, c.ID, o)
			}
			seen[c.ID] = fmt.Sprintf("svc%d.c%d", si, ci)
		}
	}
}

// Every service-typed field of an accessory struct is numbered (in Services)
func TestProbeAccessoryCtors(t *testing.T) {
	for _, ac := range accCtors {
		v, a := ac.fn(accessory.Info{Name: "x"})
		checkAccessoryIDs(t, ac.name, a)
		in := map[*service.Service]int{}
		for _, s := range a.Services {
			in[s]++
		}
		rv := reflect.ValueOf(v).Elem()
		for i := 0; i < rv.NumField(); i++ {
			f := rv.Field(i)
			ft := rv.Type().Field(i)
			if !f.CanInterface() || f.Kind() != reflect.Ptr || f.IsNil() {
				continue
			}
			e := f.Elem()
			if e.Kind() != reflect.Struct {
				continue
			}
			sf := e.FieldByName("Service")
			if !sf.IsValid() {
				continue
			}
			s, ok := sf.Interface().(*service.Service)
			if !ok {
				continue
			}
			if in[s] != 1 {
				t.Errorf("%s: field %s: service %d times in Services, iid=%d", ac.name, ft.Name, in[s], s.ID)
			}
		}
		for _, s := range a.Services {
			for _, c := range s.Characteristics {
				checkCharJSON(t, fmt.Sprintf("%s/%s/%s", ac.name, s.Type, c.Type), c)
			}
		}
	}
}

package hap

import (
	"bytes"
	"io"
	"io/ioutil"
	"net"
	"net/http"
	"strings"
	"sync"
	"sync/atomic"
	"testing"
	"time"

	"github.com/brutella/hc/crypto"
)

func zzKey(b byte) [32]byte {
	var k [32]byte
	for i := range k {
		k[i] = b + byte(i)
	}
	return k
}

func zzPlain(n int, seed byte) []byte {
	p := make([]byte, n)
	x := uint32(seed)*2654435761 + 12345
	for i := range p {
		x = x*1664525 + 1013904223
		p[i] = byte(x >> 24)
	}
	return p
}

// zzFrames: the controller encrypts msgs; wire bytes and plaintext per frame
func zzFrames(t *testing.T, cl crypto.Cryptographer, msgs ...[]byte) (frames [][]byte, plains [][]byte) {
	t.Helper()
	for _, m := range msgs {
		r, err := cl.Encrypt(bytes.NewBuffer(append([]byte{}, m...)))
		if err != nil {
			t.Fatal(err)
		}
		wire, _ := ioutil.ReadAll(r)
		rest := m
		for len(wire) > 0 {
			l := int(wire[0]) | int(wire[1])<<8
			frames = append(frames, wire[:2+l+16])
			plains = append(plains, rest[:l])
			rest = rest[l:]
			wire = wire[2+l+16:]
		}
	}
	return
}

func zzIsFramePrefix(got []byte, plains [][]byte) bool {
	if len(got) == 0 {
		return true
	}
	var acc []byte
	for _, p := range plains {
		acc = append(acc, p...)
		if bytes.Equal(acc, got) {
			return true
		}
	}
	return false
}

// zzPair returns an encrypted hap.Connection (accessory side), the raw controller side and the controller's cryptographer
func zzPair(t *testing.T, key [32]byte) (*Connection, net.Conn, crypto.Cryptographer) {
	t.Helper()
	srv, cli := net.Pipe()
	ctx := NewContextForSecuredDevice(nil)
	con := NewConnection(srv, ctx)
	acc, err := crypto.NewSecureSessionFromSharedKey(key)
	if err != nil {
		t.Fatal(err)
	}
	ctx.GetSessionForConnection(srv).SetCryptographer(acc)
	clc, err := crypto.NewSecureClientSessionFromSharedKey(key)
	if err != nil {
		t.Fatal(err)
	}
	return con, cli, clc
}

// readAvailable reads from con until a read deadline expires with nothing new for `quiet`
func zzReadUntilQuiet(con *Connection, quiet time.Duration) (released []byte, errs []error) {
	buf := make([]byte, 300)
	for i := 0; i < 200; i++ {
		con.SetReadDeadline(time.Now().Add(quiet))
		n, err := con.Read(buf)
		released = append(released, buf[:n]...)
		if err != nil {
			errs = append(errs, err)
			return
		}
	}
	return
}

// Probe: the adversary holds back the second frame of a two frame message until the reader's deadline
// has fired once (hap.Connection deliberately survives timeouts, issue #77), then lets everything through.
func TestHuntConnStallBetweenFrames(t *testing.T) {
	con, cli, clc := zzPair(t, zzKey(1))
	defer cli.Close()
	frames, plains := zzFrames(t, clc, zzPlain(1024+100, 1), zzPlain(20, 2))

	go cli.Write(frames[0]) // completes as soon as the accessory has taken the bytes

	buf := make([]byte, 4096)
	con.SetReadDeadline(time.Now().Add(150 * time.Millisecond))
	n, err := con.Read(buf)
	// either the first frame is released (n == 1024) or the deadline fires (n == 0, timeout)
	if ne, ok := err.(net.Error); err != nil && !(ok && ne.Timeout()) {
		t.Fatalf("setup: unexpected error %v", err)
	}
	t.Logf("first Read: n=%d err=%v", n, err)
	first := append([]byte{}, buf[:n]...)

	// the stream goes on, unmodified
	go func() {
		cli.Write(frames[1])
		cli.Write(frames[2])
	}()
	released, errs := zzReadUntilQuiet(con, 300*time.Millisecond)
	released = append(first, released...)
	t.Logf("released %d bytes, errors after that: %v", len(released), errs)
	if !zzIsFramePrefix(released, plains) {
		at := bytes.Index(bytes.Join(plains, nil), released[:16])
		t.Fatalf("Connection.Read released %d bytes that start at plaintext offset %d of what the peer sent; the first 1024 bytes were never released and no error other than the timeout was reported", len(released), at)
	}
}

// Probe: a message of exactly 1024 bytes, then silence until the deadline, then the next message
func TestHuntConnExactFrameThenTimeout(t *testing.T) {
	con, cli, clc := zzPair(t, zzKey(2))
	defer cli.Close()
	frames, plains := zzFrames(t, clc, zzPlain(1024, 1), zzPlain(20, 2))

	go cli.Write(frames[0])
	buf := make([]byte, 4096)
	con.SetReadDeadline(time.Now().Add(150 * time.Millisecond))
	n, err := con.Read(buf)
	if n != 0 {
		// would be fine: the frame is released
		t.Logf("first read released %d bytes err=%v", n, err)
	}
	go cli.Write(frames[1])
	released, errs := zzReadUntilQuiet(con, 300*time.Millisecond)
	released = append(append([]byte{}, buf[:n]...), released...)
	t.Logf("released %d bytes, errors: %v", len(released), errs)
	if !zzIsFramePrefix(released, plains) {
		t.Fatalf("released %d bytes: not a frame prefix of what the peer sent (the 1024 byte message is gone)", len(released))
	}
}

// Probe: after a frame that fails authentication every further Read fails
func TestHuntConnAfterAuthError(t *testing.T) {
	con, cli, clc := zzPair(t, zzKey(3))
	defer cli.Close()
	frames, _ := zzFrames(t, clc, zzPlain(30, 1), zzPlain(20, 2))
	bad := append([]byte{}, frames[0]...)
	bad[7] ^= 0x10
	go func() {
		cli.Write(bad)
		cli.Write(frames[1])
	}()
	buf := make([]byte, 100)
	con.SetReadDeadline(time.Now().Add(time.Second))
	n, err := con.Read(buf)
	if n != 0 || err == nil {
		t.Fatalf("altered frame: n=%d err=%v", n, err)
	}
	for i := 0; i < 3; i++ {
		n, err = con.Read(buf)
		if n != 0 || err == nil {
			t.Fatalf("read %d after the error: n=%d err=%v", i, n, err)
		}
	}
}

// Probe: small read buffers over several messages keep order and content
func TestHuntConnSmallReads(t *testing.T) {
	con, cli, clc := zzPair(t, zzKey(4))
	defer cli.Close()
	msgs := [][]byte{zzPlain(1024+100, 1), zzPlain(1, 2), zzPlain(2048+1, 3), zzPlain(77, 4)}
	frames, plains := zzFrames(t, clc, msgs...)
	go func() {
		for _, f := range frames {
			cli.Write(f)
		}
		cli.Close()
	}()
	var got []byte
	buf := make([]byte, 7)
	for {
		n, err := con.Read(buf)
		got = append(got, buf[:n]...)
		if err != nil {
			if err != io.EOF {
				t.Logf("end: %v", err)
			}
			break
		}
	}
	if !bytes.Equal(got, bytes.Join(plains, nil)) {
		t.Fatalf("got %d bytes, want %d", len(got), len(bytes.Join(plains, nil)))
	}
}

// ---- the same stall, seen through net/http as the library runs it (http.Server over hap.Connection) ----

type zzListener struct {
	ch   chan net.Conn
	once sync.Once
	done chan struct{}
}

func (l *zzListener) Accept() (net.Conn, error) {
	select {
	case c := <-l.ch:
		return c, nil
	case <-l.done:
		return nil, io.EOF
	}
}
func (l *zzListener) Close() error   { l.once.Do(func() { close(l.done) }); return nil }
func (l *zzListener) Addr() net.Addr { return &net.TCPAddr{} }

func TestHuntHTTPServerExecutesRequestNeverSent(t *testing.T) {
	con, cli, clc := zzPair(t, zzKey(5))
	defer cli.Close()

	release := make(chan struct{})
	var unlockCalls, charCalls int32
	mux := http.NewServeMux()
	mux.HandleFunc("/slow", func(w http.ResponseWriter, r *http.Request) {
		<-release
		w.Write([]byte("ok"))
	})
	mux.HandleFunc("/characteristics", func(w http.ResponseWriter, r *http.Request) {
		ioutil.ReadAll(r.Body)
		atomic.AddInt32(&charCalls, 1)
		w.WriteHeader(204)
	})
	mux.HandleFunc("/unlock", func(w http.ResponseWriter, r *http.Request) {
		atomic.AddInt32(&unlockCalls, 1)
		w.WriteHeader(204)
	})
	ln := &zzListener{ch: make(chan net.Conn, 1), done: make(chan struct{})}
	ln.ch <- con
	srv := &http.Server{Handler: mux}
	go srv.Serve(ln)
	defer srv.Close()

	// the controller drains whatever the accessory answers
	go io.Copy(ioutil.Discard, cli)

	// request 1
	req1 := "GET /slow HTTP/1.1\r\nHost: x\r\n\r\n"
	// request 2: ONE request to /characteristics whose body happens to contain text;
	// it is longer than one frame, the text starts at plaintext offset 1024
	inner := "PUT /unlock HTTP/1.1\r\nHost: x\r\nContent-Length: 0\r\n\r\n"
	head := "PUT /characteristics HTTP/1.1\r\nHost: x\r\nContent-Length: 00000\r\n\r\n"
	pad := strings.Repeat(" ", 1024-len(head))
	bodyLen := len(pad) + len(inner)
	head = strings.Replace(head, "00000", (func() string { s := "00000" + itoa(bodyLen); return s[len(s)-5:] })(), 1)
	req2 := head + pad + inner
	if len(req2) != 1024+len(inner) {
		t.Fatalf("setup: %d", len(req2))
	}

	frames, _ := zzFrames(t, clc, []byte(req1), []byte(req2))
	if len(frames) != 3 {
		t.Fatalf("setup: %d frames", len(frames))
	}

	cli.Write(frames[0])               // request 1, handler blocks
	time.Sleep(100 * time.Millisecond) // net/http starts its background read
	cli.Write(frames[1])               // first frame of request 2 arrives while the handler runs
	time.Sleep(100 * time.Millisecond)
	close(release)                     // handler ends: net/http aborts the pending read with a deadline in the past
	time.Sleep(200 * time.Millisecond) // the adversary holds frame 2 back this long
	cli.Write(frames[2])
	time.Sleep(300 * time.Millisecond)

	u, c := atomic.LoadInt32(&unlockCalls), atomic.LoadInt32(&charCalls)
	t.Logf("/characteristics handled %d times, /unlock handled %d times", c, u)
	if u != 0 {
		t.Fatalf("the accessory executed PUT /unlock, a request the controller never sent (it sent one PUT /characteristics); /characteristics was handled %d times", c)
	}
	if c != 1 {
		t.Errorf("PUT /characteristics handled %d times, want 1", c)
	}
}

func itoa(n int) string {
	if n == 0 {
		return "0"
	}
	var b []byte
	for n > 0 {
		b = append([]byte{byte('0' + n%10)}, b...)
		n /= 10
	}
	return string(b)
}

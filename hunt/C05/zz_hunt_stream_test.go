package crypto

import (
	"bytes"
	"errors"
	"io"
	"io/ioutil"
	"testing"
)

// ---------- helpers ----------

func huntKey(b byte) [32]byte {
	var k [32]byte
	for i := range k {
		k[i] = b + byte(i)
	}
	return k
}

func huntPlain(n int, seed byte) []byte {
	p := make([]byte, n)
	x := uint32(seed)*2654435761 + 12345
	for i := range p {
		x = x*1664525 + 1013904223
		p[i] = byte(x >> 24)
	}
	return p
}

// peer (controller) encrypts msgs for the accessory; returns the wire bytes per frame and plaintext per frame
func huntFrames(t *testing.T, key [32]byte, msgs ...[]byte) (frames [][]byte, plains [][]byte) {
	t.Helper()
	cl, err := NewSecureClientSessionFromSharedKey(key)
	if err != nil {
		t.Fatal(err)
	}
	for _, m := range msgs {
		r, err := cl.Encrypt(bytes.NewBuffer(append([]byte{}, m...)))
		if err != nil {
			t.Fatal(err)
		}
		wire, _ := ioutil.ReadAll(r)
		rest := m
		for len(wire) > 0 {
			l := int(wire[0]) | int(wire[1])<<8
			frames = append(frames, wire[:2+l+16])
			plains = append(plains, rest[:l])
			rest = rest[l:]
			wire = wire[2+l+16:]
		}
	}
	return
}

func huntAcc(t *testing.T, key [32]byte) Cryptographer {
	t.Helper()
	s, err := NewSecureSessionFromSharedKey(key)
	if err != nil {
		t.Fatal(err)
	}
	return s
}

// isFramePrefix reports whether got == plains[0] ++ ... ++ plains[k-1] for some k
func isFramePrefix(got []byte, plains [][]byte) bool {
	var acc []byte
	if len(got) == 0 {
		return true
	}
	for _, p := range plains {
		acc = append(acc, p...)
		if bytes.Equal(acc, got) {
			return true
		}
		if len(acc) > len(got) {
			return false
		}
	}
	return false
}

// drainStream calls Decrypt repeatedly on one reader (as Connection does) until error or EOF-with-nothing;
// returns all plaintext released and whether an error was ever reported
func drainStream(s Cryptographer, r io.Reader) (released []byte, gotErr error) {
	for i := 0; i < 64; i++ {
		out, err := s.Decrypt(r)
		if err != nil {
			return released, err
		}
		b, _ := ioutil.ReadAll(out)
		if len(b) == 0 {
			return released, nil
		}
		released = append(released, b...)
	}
	return released, nil
}

func join(fs [][]byte) []byte {
	var b []byte
	for _, f := range fs {
		b = append(b, f...)
	}
	return b
}

// ---------- probe 1/2: every single bit flip ----------

func TestHuntBitFlips(t *testing.T) {
	for _, sizes := range [][]int{{1}, {37}, {1024}, {1024 + 5}, {10, 20}, {2048 + 3, 9}} {
		var msgs [][]byte
		for i, n := range sizes {
			msgs = append(msgs, huntPlain(n, byte(i)))
		}
		key := huntKey(3)
		frames, plains := huntFrames(t, key, msgs...)
		wire := join(frames)
		// frame index of each byte
		var frameOf []int
		for i, f := range frames {
			for range f {
				frameOf = append(frameOf, i)
			}
		}
		step := 1
		if len(wire) > 400 {
			step = 3 // bounded
		}
		for pos := 0; pos < len(wire); pos += step {
			for bit := uint(0); bit < 8; bit++ {
				mod := append([]byte{}, wire...)
				mod[pos] ^= 1 << bit
				s := huntAcc(t, key)
				released, err := drainStream(s, bytes.NewReader(mod))
				if err == nil {
					t.Fatalf("sizes %v flip byte %d bit %d: no error reported", sizes, pos, bit)
				}
				if !isFramePrefix(released, plains[:frameOf[pos]]) {
					t.Fatalf("sizes %v flip byte %d bit %d (frame %d): released %d bytes not a prefix of the frames before the altered one", sizes, pos, bit, frameOf[pos], len(released))
				}
			}
		}
	}
}

// ---------- probe 3: truncation at every byte ----------

func TestHuntTruncation(t *testing.T) {
	key := huntKey(9)
	frames, plains := huntFrames(t, key, huntPlain(1024+40, 1), huntPlain(33, 2), huntPlain(1024, 3), huntPlain(5, 4))
	wire := join(frames)
	bound := map[int]int{} // offset -> number of whole frames
	off := 0
	for i, f := range frames {
		off += len(f)
		bound[off] = i + 1
	}
	for cut := 0; cut < len(wire); cut++ {
		s := huntAcc(t, key)
		released, err := drainStream(s, bytes.NewReader(wire[:cut]))
		if !isFramePrefix(released, plains) {
			t.Fatalf("cut %d: released %d bytes which is no frame prefix", cut, len(released))
		}
		if _, atBoundary := bound[cut]; !atBoundary && cut != 0 && err == nil {
			t.Errorf("cut %d (inside a frame): no error reported, released %d", cut, len(released))
		}
	}
}

// ---------- probe 4: permutation, duplication, deletion of frames ----------

func TestHuntFramePermDupDel(t *testing.T) {
	key := huntKey(17)
	frames, plains := huntFrames(t, key, huntPlain(11, 1), huntPlain(1024+7, 2), huntPlain(3, 3))
	n := len(frames) // 4
	// every sequence of length 0..5 over the n frames
	var seq []int
	var rec func(depth int)
	check := func(seq []int) {
		var wire []byte
		firstBad := -1
		for i, f := range seq {
			wire = append(wire, frames[f]...)
			if firstBad < 0 && f != i {
				firstBad = i
			}
		}
		s := huntAcc(t, key)
		released, err := drainStream(s, bytes.NewReader(wire))
		if firstBad >= 0 {
			if err == nil {
				t.Fatalf("seq %v: no error", seq)
			}
			if !isFramePrefix(released, plains[:firstBad]) {
				t.Fatalf("seq %v: released %d bytes beyond the first altered frame", seq, len(released))
			}
		} else if !isFramePrefix(released, plains) {
			t.Fatalf("seq %v: released no prefix", seq)
		}
	}
	rec = func(depth int) {
		check(seq)
		if depth == 5 {
			return
		}
		for f := 0; f < n; f++ {
			seq = append(seq, f)
			rec(depth + 1)
			seq = seq[:len(seq)-1]
		}
	}
	rec(0)
}

// ---------- probe 5/6: reflection and cross session ----------

func TestHuntReflectionAndCrossSession(t *testing.T) {
	key := huntKey(40)
	acc := huntAcc(t, key)
	// accessory's own output reflected
	out, _ := acc.Encrypt(bytes.NewBuffer(huntPlain(50, 1)))
	own, _ := ioutil.ReadAll(out)
	if r, err := acc.Decrypt(bytes.NewReader(own)); err == nil {
		b, _ := ioutil.ReadAll(r)
		t.Fatalf("reflected frame accepted: %d bytes", len(b))
	}
	// frames of a session with another shared key
	other := huntKey(41)
	frames, _ := huntFrames(t, other, huntPlain(50, 1))
	acc2 := huntAcc(t, key)
	if _, err := acc2.Decrypt(bytes.NewReader(frames[0])); err == nil {
		t.Fatal("frame of another session accepted")
	}
	// keys per direction differ
	a := huntAcc(t, key).(*secureSession)
	if a.encryptKey == a.decryptKey {
		t.Fatal("direction keys equal")
	}
}

// ---------- probe 7: after an authentication error nothing is accepted ----------

func TestHuntStickyAfterAuthError(t *testing.T) {
	key := huntKey(50)
	frames, _ := huntFrames(t, key, huntPlain(10, 1), huntPlain(10, 2), huntPlain(10, 3))
	s := huntAcc(t, key)
	bad := append([]byte{}, frames[0]...)
	bad[5] ^= 1
	if _, err := s.Decrypt(bytes.NewReader(bad)); err == nil {
		t.Fatal("no error")
	}
	for _, f := range [][]byte{frames[0], frames[1], frames[2]} {
		if r, err := s.Decrypt(bytes.NewReader(f)); err == nil {
			b, _ := ioutil.ReadAll(r)
			t.Fatalf("frame accepted after error: %x", b)
		}
	}
}

// ---------- probe 8: error that is not an authentication error, then the stream goes on ----------

// A two frame message: call 1 sees frame 0 and a truncated frame 1 (error), call 2 sees frame 1 in full.
func TestHuntAfterTruncationError(t *testing.T) {
	key := huntKey(60)
	frames, plains := huntFrames(t, key, huntPlain(1024+100, 1))
	s := huntAcc(t, key)
	first := append(append([]byte{}, frames[0]...), frames[1][:30]...)
	_, err := s.Decrypt(bytes.NewReader(first))
	if err == nil {
		t.Fatal("truncated frame: no error")
	}
	r, err := s.Decrypt(bytes.NewReader(frames[1]))
	if err == nil {
		b, _ := ioutil.ReadAll(r)
		if !isFramePrefix(b, plains) {
			t.Fatalf("after a reported error Decrypt released %d bytes = plaintext of frame 1 although the plaintext of frame 0 was never released (not a prefix of what the peer sent)", len(b))
		}
	}
}

// ---------- probe 9: transient read error (timeout) between two frames of one message ----------

type huntTimeoutErr struct{}

func (huntTimeoutErr) Error() string   { return "i/o timeout" }
func (huntTimeoutErr) Timeout() bool   { return true }
func (huntTimeoutErr) Temporary() bool { return true }

// stallReader delivers data[:stallAt], then one timeout error, then the rest
type stallReader struct {
	data    []byte
	pos     int
	stallAt int
	stalled bool
}

func (r *stallReader) Read(p []byte) (int, error) {
	if !r.stalled && r.pos == r.stallAt {
		r.stalled = true
		return 0, huntTimeoutErr{}
	}
	if r.pos >= len(r.data) {
		return 0, io.EOF
	}
	end := len(r.data)
	if !r.stalled && end > r.stallAt {
		end = r.stallAt
	}
	n := copy(p, r.data[r.pos:end])
	r.pos += n
	return n, nil
}

func TestHuntStallBetweenFrames(t *testing.T) {
	key := huntKey(70)
	frames, plains := huntFrames(t, key, huntPlain(1024+100, 1), huntPlain(20, 9))
	wire := join(frames)
	s := huntAcc(t, key)
	r := &stallReader{data: wire, stallAt: len(frames[0])}
	var released []byte
	var sawTimeout bool
	for i := 0; i < 10; i++ {
		out, err := s.Decrypt(r)
		if err != nil {
			var te huntTimeoutErr
			if errors.As(err, &te) {
				sawTimeout = true
				continue // what hap.Connection does: timeouts are ignored, the caller reads again
			}
			break
		}
		b, _ := ioutil.ReadAll(out)
		if len(b) == 0 {
			break
		}
		released = append(released, b...)
	}
	_ = sawTimeout
	if !r.stalled {
		t.Fatal("test setup: the reader never stalled")
	}
	if !isFramePrefix(released, plains) {
		t.Fatalf("released %d bytes; first released byte is plaintext byte %d of the stream: frame 0 (1024 bytes) was authenticated, counted and thrown away, later frames were released", len(released), bytes.Index(join(plains), released[:16]))
	}
}

// the same, stall at every offset of the stream: released plaintext must always be a frame prefix
func TestHuntStallEverywhere(t *testing.T) {
	key := huntKey(71)
	frames, plains := huntFrames(t, key, huntPlain(1024+100, 1), huntPlain(20, 9))
	wire := join(frames)
	bad := 0
	for at := 0; at <= len(wire); at++ {
		s := huntAcc(t, key)
		r := &stallReader{data: wire, stallAt: at}
		var released []byte
		for i := 0; i < 10; i++ {
			out, err := s.Decrypt(r)
			if err != nil {
				var te huntTimeoutErr
				if errors.As(err, &te) {
					continue
				}
				break
			}
			b, _ := ioutil.ReadAll(out)
			if len(b) == 0 {
				break
			}
			released = append(released, b...)
		}
		if !isFramePrefix(released, plains) {
			bad++
			if bad <= 3 {
				t.Errorf("stall at %d: released %d bytes, not a frame prefix", at, len(released))
			}
		}
	}
	if bad > 0 {
		t.Errorf("%d stall positions release a non-prefix", bad)
	}
}

// ---------- probe 13: forged empty frame / huge length ----------

func TestHuntForgedLengths(t *testing.T) {
	key := huntKey(80)
	frames, _ := huntFrames(t, key, huntPlain(10, 1))
	s := huntAcc(t, key)
	zero := append([]byte{0, 0}, frames[0][len(frames[0])-16:]...)
	if _, err := s.Decrypt(bytes.NewReader(zero)); err == nil {
		t.Fatal("forged empty frame accepted")
	}
	s = huntAcc(t, key)
	huge := append([]byte{0xff, 0xff}, frames[0][2:]...)
	if _, err := s.Decrypt(bytes.NewReader(huge)); err == nil {
		t.Fatal("huge length accepted")
	}
}

package http

// Throw-away reference controller written from the HAP specification only.
// It does not use hc's hkdf / chacha20poly1305 / tlv8 / srp wrappers.

import (
	"bufio"
	"bytes"
	"context"
	"crypto/ed25519"
	"crypto/rand"
	"crypto/sha512"
	"encoding/binary"
	"encoding/hex"
	"errors"
	"fmt"
	"io"
	"math/big"
	"net"
	gohttp "net/http"
	"os"
	"path/filepath"
	"strings"
	"sync"
	"testing"
	"time"

	"github.com/brutella/hc/accessory"
	"github.com/brutella/hc/db"
	"github.com/brutella/hc/event"
	"github.com/brutella/hc/hap"
	"github.com/brutella/hc/util"

	xchacha "golang.org/x/crypto/chacha20poly1305"
	xcurve "golang.org/x/crypto/curve25519"
	xhkdf "golang.org/x/crypto/hkdf"
)

const refNHex = "FFFFFFFFFFFFFFFFC90FDAA22168C234C4C6628B80DC1CD129024E088A67CC74" +
	"020BBEA63B139B22514A08798E3404DDEF9519B3CD3A431B302B0A6DF25F1437" +
	"4FE1356D6D51C245E485B576625E7EC6F44C42E9A637ED6B0BFF5CB6F406B7ED" +
	"EE386BFB5A899FA5AE9F24117C4B1FE649286651ECE45B3DC2007CB8A163BF05" +
	"98DA48361C55D39A69163FA8FD24CF5F83655D23DCA3AD961C62F356208552BB" +
	"9ED529077096966D670C354E4ABC9804F1746C08CA18217C32905E462E36CE3B" +
	"E39E772C180E86039B2783A2EC07A28FB5C55DF06F4C52C9DE2BCBF695581718" +
	"3995497CEA956AE515D2261898FA051015728E5A8AAAC42DAD33170D04507A33" +
	"A85521ABDF1CBA64ECFB850458DBEF0A8AEA71575D060C7DB3970F85A6E1E4C7" +
	"ABF5AE8CDB0933D71E8C94E04A25619DCEE3D2261AD2EE6BF12FFA06D98A0864" +
	"D87602733EC86A64521F2B18177B200CBBE117577A615D6C770988C0BAD946E2" +
	"08E24FA074E5AB3143DB5BFCE0FD108E4B82D120A93AD2CAFFFFFFFFFFFFFFFF"

var refN, _ = new(big.Int).SetString(refNHex, 16)
var refG = big.NewInt(5)

func h512(parts ...[]byte) []byte {
	h := sha512.New()
	for _, p := range parts {
		h.Write(p)
	}
	return h.Sum(nil)
}

func pad384(b []byte) []byte {
	if len(b) >= 384 {
		return b
	}
	out := make([]byte, 384)
	copy(out[384-len(b):], b)
	return out
}

// ---- tlv8 (own implementation) ----

type refTLV struct {
	tag byte
	val []byte
}

func tlvEncode(items ...refTLV) []byte {
	var b bytes.Buffer
	for _, it := range items {
		v := it.val
		if len(v) == 0 {
			b.Write([]byte{it.tag, 0})
			continue
		}
		for len(v) > 0 {
			n := len(v)
			if n > 255 {
				n = 255
			}
			b.WriteByte(it.tag)
			b.WriteByte(byte(n))
			b.Write(v[:n])
			v = v[n:]
		}
	}
	return b.Bytes()
}

type refTLVMap struct {
	order []byte
	vals  map[byte][]byte
	count map[byte]int // number of separate (non-adjacent) items per tag
}

func tlvDecode(b []byte) (*refTLVMap, error) {
	m := &refTLVMap{vals: map[byte][]byte{}, count: map[byte]int{}}
	last := -1
	for len(b) > 0 {
		if len(b) < 2 {
			return nil, errors.New("tlv: truncated header")
		}
		tag, l := b[0], int(b[1])
		if len(b) < 2+l {
			return nil, errors.New("tlv: truncated value")
		}
		if int(tag) != last {
			m.count[tag]++
			m.order = append(m.order, tag)
		}
		m.vals[tag] = append(m.vals[tag], b[2:2+l]...)
		if l == 255 {
			last = int(tag)
		} else {
			last = -1
		}
		b = b[2+l:]
	}
	return m, nil
}

func (m *refTLVMap) get(tag byte) []byte { return m.vals[tag] }
func (m *refTLVMap) has(tag byte) bool   { _, ok := m.vals[tag]; return ok }

// ---- crypto helpers straight on x/crypto ----

func refHKDF(secret []byte, salt, info string) []byte {
	r := xhkdf.New(sha512.New, secret, []byte(salt), []byte(info))
	k := make([]byte, 32)
	io.ReadFull(r, k)
	return k
}

func refNonceStr(s string) []byte {
	n := make([]byte, 12)
	copy(n[4:], s)
	return n
}

func refSeal(key []byte, nonce []byte, pt, aad []byte) []byte {
	a, _ := xchacha.New(key)
	return a.Seal(nil, nonce, pt, aad)
}

func refOpen(key []byte, nonce []byte, ct, aad []byte) ([]byte, error) {
	a, _ := xchacha.New(key)
	return a.Open(nil, nonce, ct, aad)
}

// ---- test accessory server ----

type refServer struct {
	t        testing.TB
	srv      *Server
	database db.Database
	device   hap.SecuredDevice
	cancel   context.CancelFunc
	addr     string
	dir      string
	acc      *accessory.Switch
}

func newRefServer(t testing.TB, accessoryID, pin string) *refServer {
	dir, err := os.MkdirTemp("", "zzhunt")
	if err != nil {
		t.Fatal(err)
	}
	return newRefServerDir(t, accessoryID, pin, dir)
}

// newRefServerDir starts an accessory on an existing storage directory (a restart).
func newRefServerDir(t testing.TB, accessoryID, pin, dir string) *refServer {
	storage, err := util.NewFileStorage(dir)
	if err != nil {
		t.Fatal(err)
	}
	database := db.NewDatabaseWithStorage(storage)
	device, err := hap.NewSecuredDevice(accessoryID, pin, database)
	if err != nil {
		t.Fatal(err)
	}
	ctx := hap.NewContextForSecuredDevice(device)
	container := accessory.NewContainer()
	sw := accessory.NewSwitch(accessory.Info{Name: "Hunt Switch", SerialNumber: "001", Manufacturer: "m", Model: "x"})
	container.AddAccessory(sw.Accessory)
	s := NewServer(Config{
		Port:      "127.0.0.1:0",
		Context:   ctx,
		Database:  database,
		Container: container,
		Device:    device,
		Mutex:     &sync.Mutex{},
		Emitter:   event.NewEmitter(),
	})
	cctx, cancel := context.WithCancel(context.Background())
	go s.ListenAndServe(cctx)
	rs := &refServer{t: t, srv: s, database: database, device: device, cancel: cancel, addr: "127.0.0.1:" + s.Port(), dir: dir, acc: sw}
	// The server is not stopped: stopping it while connections are open can crash the
	// process (Close() deletes the session under a pending read), which is not what is probed here.
	t.Cleanup(func() {
		s.listener.Close()
		os.RemoveAll(dir)
	})
	return rs
}

func (rs *refServer) entityFiles() []string {
	m, _ := filepath.Glob(filepath.Join(rs.dir, "*"))
	var out []string
	for _, f := range m {
		out = append(out, filepath.Base(f))
	}
	return out
}

// ---- reference controller ----

type refController struct {
	t    testing.TB
	conn net.Conn
	br   *bufio.Reader

	id   []byte
	pub  ed25519.PublicKey
	priv ed25519.PrivateKey

	accID   []byte
	accLTPK []byte

	// session
	secure   bool
	c2a, a2c []byte
	cntOut   uint64
	cntIn    uint64
	plain    bytes.Buffer
	frameMax int // frame size used for sending, default 1024

	timeout time.Duration

	// variations of pair-setup, all allowed by the specification
	m1Extra    []refTLV // further items in M1 (e.g. Flags)
	m1NoMethod bool
	zeroTopA   bool // choose a so that A has a leading zero byte
	padA       bool // send A as 384 bytes
	onlyShortB bool // give up (errLongB) unless the accessory's B is shorter than 384 bytes
}

var errLongB = errors.New("B has 384 bytes")

func newRefController(t testing.TB, addr string, id []byte) *refController {
	conn, err := net.Dial("tcp", addr)
	if err != nil {
		t.Fatal(err)
	}
	pub, priv, _ := ed25519.GenerateKey(rand.Reader)
	c := &refController{t: t, conn: conn, id: id, pub: pub, priv: priv, frameMax: 1024, timeout: 5 * time.Second}
	c.br = bufio.NewReader(&refConnReader{c})
	return c
}

func (c *refController) reconnect(addr string) {
	c.conn.Close()
	conn, err := net.Dial("tcp", addr)
	if err != nil {
		c.t.Fatal(err)
	}
	c.conn = conn
	c.secure = false
	c.cntIn, c.cntOut = 0, 0
	c.plain.Reset()
	c.br = bufio.NewReader(&refConnReader{c})
}

type refConnReader struct{ c *refController }

// Read returns plaintext: directly from the socket before pair-verify, from decrypted frames afterwards.
func (r *refConnReader) Read(p []byte) (int, error) {
	c := r.c
	c.conn.SetReadDeadline(time.Now().Add(c.timeout))
	if !c.secure {
		return c.conn.Read(p)
	}
	if c.plain.Len() == 0 {
		var hdr [2]byte
		if _, err := io.ReadFull(c.conn, hdr[:]); err != nil {
			return 0, err
		}
		n := int(binary.LittleEndian.Uint16(hdr[:]))
		if n > 1024 {
			return 0, fmt.Errorf("frame longer than 1024 bytes: %d", n)
		}
		buf := make([]byte, n+16)
		if _, err := io.ReadFull(c.conn, buf); err != nil {
			return 0, err
		}
		nonce := make([]byte, 12)
		binary.LittleEndian.PutUint64(nonce[4:], c.cntIn)
		c.cntIn++
		pt, err := refOpen(c.a2c, nonce, buf, hdr[:])
		if err != nil {
			return 0, fmt.Errorf("frame %d from accessory does not authenticate: %v", c.cntIn-1, err)
		}
		c.plain.Write(pt)
	}
	return c.plain.Read(p)
}

func (c *refController) send(raw []byte) error {
	c.conn.SetWriteDeadline(time.Now().Add(c.timeout))
	if !c.secure {
		_, err := c.conn.Write(raw)
		return err
	}
	var out bytes.Buffer
	for len(raw) > 0 {
		n := len(raw)
		if n > c.frameMax {
			n = c.frameMax
		}
		var hdr [2]byte
		binary.LittleEndian.PutUint16(hdr[:], uint16(n))
		nonce := make([]byte, 12)
		binary.LittleEndian.PutUint64(nonce[4:], c.cntOut)
		c.cntOut++
		out.Write(hdr[:])
		out.Write(refSeal(c.c2a, nonce, raw[:n], hdr[:]))
		raw = raw[n:]
	}
	_, err := c.conn.Write(out.Bytes())
	return err
}

func (c *refController) roundTrip(raw []byte) (*gohttp.Response, []byte, error) {
	if err := c.send(raw); err != nil {
		return nil, nil, err
	}
	resp, err := gohttp.ReadResponse(c.br, nil)
	if err != nil {
		return nil, nil, err
	}
	body, err := io.ReadAll(resp.Body)
	resp.Body.Close()
	return resp, body, err
}

func (c *refController) postTLV(path string, body []byte) (*refTLVMap, int, error) {
	req := fmt.Sprintf("POST %s HTTP/1.1\r\nHost: hunt.local\r\nContent-Type: application/pairing+tlv8\r\nContent-Length: %d\r\n\r\n", path, len(body))
	resp, rb, err := c.roundTrip(append([]byte(req), body...))
	if err != nil {
		return nil, 0, err
	}
	if resp.StatusCode != 200 {
		return nil, resp.StatusCode, fmt.Errorf("HTTP status %d", resp.StatusCode)
	}
	m, err := tlvDecode(rb)
	return m, resp.StatusCode, err
}

type pairSetupResult struct {
	errCode byte // TLV error at M4 or M6 (0 = none)
	atState byte
}

// pairSetup runs M1..M6 as the specification describes and checks everything the accessory sends.
func (c *refController) pairSetup(setupCode string) (pairSetupResult, error) {
	var res pairSetupResult
	// M1
	m1 := []refTLV{{6, []byte{1}}}
	if !c.m1NoMethod {
		m1 = append(m1, refTLV{0, []byte{0}})
	}
	m1 = append(m1, c.m1Extra...)
	m2, _, err := c.postTLV("/pair-setup", tlvEncode(m1...))
	if err != nil {
		return res, fmt.Errorf("M1: %v", err)
	}
	if e := m2.get(7); len(e) > 0 {
		return pairSetupResult{e[0], 2}, nil
	}
	if !bytes.Equal(m2.get(6), []byte{2}) {
		return res, fmt.Errorf("M2: state %x", m2.get(6))
	}
	salt, Bb := m2.get(2), m2.get(3)
	if len(salt) != 16 {
		return res, fmt.Errorf("M2: salt is %d bytes", len(salt))
	}
	if len(Bb) == 0 || len(Bb) > 384 {
		return res, fmt.Errorf("M2: B is %d bytes", len(Bb))
	}
	if c.onlyShortB && len(Bb) == 384 && Bb[0] != 0 {
		return res, errLongB
	}
	B := new(big.Int).SetBytes(Bb)
	if new(big.Int).Mod(B, refN).Sign() == 0 {
		return res, errors.New("M2: B mod N == 0")
	}

	// SRP-6a client
	I := []byte("Pair-Setup")
	abuf := make([]byte, 32)
	rand.Read(abuf)
	a := new(big.Int).SetBytes(abuf)
	A := new(big.Int).Exp(refG, a, refN)
	for c.zeroTopA && A.BitLen() > 3064 {
		a.Add(a, big.NewInt(1))
		A.Exp(refG, a, refN)
	}
	Awire := A.Bytes()
	if c.padA {
		Awire = pad384(Awire)
	}
	k := new(big.Int).SetBytes(h512(refN.Bytes(), pad384(refG.Bytes())))
	u := new(big.Int).SetBytes(h512(pad384(A.Bytes()), pad384(B.Bytes())))
	x := new(big.Int).SetBytes(h512(salt, h512(I, []byte(":"), []byte(setupCode))))
	gx := new(big.Int).Exp(refG, x, refN)
	base := new(big.Int).Sub(B, new(big.Int).Mod(new(big.Int).Mul(k, gx), refN))
	base.Mod(base, refN)
	exp := new(big.Int).Add(a, new(big.Int).Mul(u, x))
	S := new(big.Int).Exp(base, exp, refN)
	K := h512(S.Bytes())
	hn, hg := h512(refN.Bytes()), h512(refG.Bytes())
	hxor := make([]byte, 64)
	for i := range hxor {
		hxor[i] = hn[i] ^ hg[i]
	}
	M1 := h512(hxor, h512(I), salt, A.Bytes(), B.Bytes(), K)

	// M3
	m4, _, err := c.postTLV("/pair-setup", tlvEncode(refTLV{6, []byte{3}}, refTLV{3, Awire}, refTLV{4, M1}))
	if err != nil {
		return res, fmt.Errorf("M3: %v", err)
	}
	if !bytes.Equal(m4.get(6), []byte{4}) {
		return res, fmt.Errorf("M4: state %x", m4.get(6))
	}
	if e := m4.get(7); len(e) > 0 {
		return pairSetupResult{e[0], 4}, nil
	}
	M2 := h512(A.Bytes(), M1, K)
	if !bytes.Equal(M2, m4.get(4)) {
		return res, fmt.Errorf("M4: accessory proof does not verify")
	}

	// M5
	encKey := refHKDF(K, "Pair-Setup-Encrypt-Salt", "Pair-Setup-Encrypt-Info")
	iosX := refHKDF(K, "Pair-Setup-Controller-Sign-Salt", "Pair-Setup-Controller-Sign-Info")
	info := append(append(append([]byte{}, iosX...), c.id...), c.pub...)
	sig := ed25519.Sign(c.priv, info)
	sub := tlvEncode(refTLV{1, c.id}, refTLV{3, c.pub}, refTLV{10, sig})
	enc := refSeal(encKey, refNonceStr("PS-Msg05"), sub, nil)
	m6, _, err := c.postTLV("/pair-setup", tlvEncode(refTLV{6, []byte{5}}, refTLV{5, enc}))
	if err != nil {
		return res, fmt.Errorf("M5: %v", err)
	}
	if !bytes.Equal(m6.get(6), []byte{6}) {
		return res, fmt.Errorf("M6: state %x", m6.get(6))
	}
	if m6.count[6] != 1 {
		return res, fmt.Errorf("M6: %d state items", m6.count[6])
	}
	if e := m6.get(7); len(e) > 0 {
		return pairSetupResult{e[0], 6}, nil
	}
	pt, err := refOpen(encKey, refNonceStr("PS-Msg06"), m6.get(5), nil)
	if err != nil {
		return res, fmt.Errorf("M6: encrypted data does not authenticate: %v", err)
	}
	sub6, err := tlvDecode(pt)
	if err != nil {
		return res, fmt.Errorf("M6 sub-tlv: %v", err)
	}
	accID, accLTPK, accSig := sub6.get(1), sub6.get(3), sub6.get(10)
	if len(accLTPK) != 32 || len(accSig) != 64 || len(accID) == 0 {
		return res, fmt.Errorf("M6: sizes id=%d ltpk=%d sig=%d", len(accID), len(accLTPK), len(accSig))
	}
	accX := refHKDF(K, "Pair-Setup-Accessory-Sign-Salt", "Pair-Setup-Accessory-Sign-Info")
	accInfo := append(append(append([]byte{}, accX...), accID...), accLTPK...)
	if !ed25519.Verify(accLTPK, accInfo, accSig) {
		return res, errors.New("M6: accessory signature does not verify")
	}
	c.accID, c.accLTPK = accID, accLTPK
	return res, nil
}

// pairVerify runs M1..M4 and switches the connection to the encrypted session.
func (c *refController) pairVerify() (byte, error) {
	var sk [32]byte
	rand.Read(sk[:])
	pk, _ := xcurve.X25519(sk[:], xcurve.Basepoint)
	m2, _, err := c.postTLV("/pair-verify", tlvEncode(refTLV{6, []byte{1}}, refTLV{3, pk}))
	if err != nil {
		return 0, fmt.Errorf("PV M1: %v", err)
	}
	if e := m2.get(7); len(e) > 0 {
		return e[0], nil
	}
	if !bytes.Equal(m2.get(6), []byte{2}) {
		return 0, fmt.Errorf("PV M2: state %x", m2.get(6))
	}
	apk := m2.get(3)
	if len(apk) != 32 {
		return 0, fmt.Errorf("PV M2: public key %d bytes", len(apk))
	}
	shared, err := xcurve.X25519(sk[:], apk)
	if err != nil {
		return 0, err
	}
	sessKey := refHKDF(shared, "Pair-Verify-Encrypt-Salt", "Pair-Verify-Encrypt-Info")
	pt, err := refOpen(sessKey, refNonceStr("PV-Msg02"), m2.get(5), nil)
	if err != nil {
		return 0, fmt.Errorf("PV M2: encrypted data does not authenticate: %v", err)
	}
	sub, err := tlvDecode(pt)
	if err != nil {
		return 0, err
	}
	if !bytes.Equal(sub.get(1), c.accID) {
		return 0, fmt.Errorf("PV M2: accessory id %q, paired with %q", sub.get(1), c.accID)
	}
	accInfo := append(append(append([]byte{}, apk...), c.accID...), pk...)
	if !ed25519.Verify(c.accLTPK, accInfo, sub.get(10)) {
		return 0, errors.New("PV M2: accessory signature does not verify")
	}
	iosInfo := append(append(append([]byte{}, pk...), c.id...), apk...)
	sig := ed25519.Sign(c.priv, iosInfo)
	enc := refSeal(sessKey, refNonceStr("PV-Msg03"), tlvEncode(refTLV{1, c.id}, refTLV{10, sig}), nil)
	m4, _, err := c.postTLV("/pair-verify", tlvEncode(refTLV{6, []byte{3}}, refTLV{5, enc}))
	if err != nil {
		return 0, fmt.Errorf("PV M3: %v", err)
	}
	if !bytes.Equal(m4.get(6), []byte{4}) {
		return 0, fmt.Errorf("PV M4: state %x", m4.get(6))
	}
	if e := m4.get(7); len(e) > 0 {
		return e[0], nil
	}
	c.a2c = refHKDF(shared, "Control-Salt", "Control-Read-Encryption-Key")
	c.c2a = refHKDF(shared, "Control-Salt", "Control-Write-Encryption-Key")
	c.secure = true
	c.cntIn, c.cntOut = 0, 0
	return 0, nil
}

func (c *refController) getAccessories() error {
	resp, body, err := c.roundTrip([]byte("GET /accessories HTTP/1.1\r\nHost: hunt.local\r\n\r\n"))
	if err != nil {
		return err
	}
	if resp.StatusCode != 200 {
		return fmt.Errorf("GET /accessories: status %d", resp.StatusCode)
	}
	if !bytes.Contains(body, []byte(`"accessories"`)) {
		return fmt.Errorf("GET /accessories: body %q", body)
	}
	return nil
}

// putOfSize sends a PUT /characteristics whose complete HTTP message is exactly total bytes long.
func (c *refController) putOfSize(total int, aid, iid uint64) (*gohttp.Response, []byte, error) {
	mk := func(padN int) []byte {
		body := fmt.Sprintf(`{"characteristics":[{"aid":%d,"iid":%d,"value":true}]%s}`, aid, iid, strings.Repeat(" ", padN))
		return []byte(fmt.Sprintf("PUT /characteristics HTTP/1.1\r\nHost: hunt.local\r\nContent-Type: application/hap+json\r\nContent-Length: %d\r\n\r\n%s", len(body), body))
	}
	padN := total - len(mk(0))
	if padN < 0 {
		return nil, nil, fmt.Errorf("total %d too small", total)
	}
	msg := mk(padN)
	for len(msg) != total { // Content-Length digits may change
		padN -= len(msg) - total
		msg = mk(padN)
	}
	return c.roundTrip(msg)
}

var _ = hex.EncodeToString

package http

import (
	"bytes"
	"crypto/ed25519"
	"crypto/rand"
	"fmt"
	"github.com/brutella/hc/accessory"
	"github.com/brutella/hc/db"
	"github.com/brutella/hc/hap"
	"github.com/brutella/hc/util"
	"io"
	mrand "math/rand"
	gohttp "net/http"
	"strings"
	"testing"
	"time"
)

func randPin() string {
	for {
		p := fmt.Sprintf("%08d", mrand.Intn(100000000))
		bad := false
		for _, x := range []string{"12345678", "87654321", "00000000", "11111111", "22222222", "33333333", "44444444", "55555555", "66666666", "77777777", "88888888", "99999999"} {
			if p == x {
				bad = true
			}
		}
		if !bad {
			return p[:3] + "-" + p[3:5] + "-" + p[5:]
		}
	}
}

// Probe 1: happy path over random pins and controller identifiers.
func TestHuntHappyPath(t *testing.T) {
	ids := [][]byte{
		[]byte("7B0A2C52-6E0B-4C5E-9F3A-0D1E2F3A4B5C"),
		[]byte("x"),
		[]byte(strings.Repeat("ü", 32)),
		[]byte(strings.Repeat("Z", 64)),
		[]byte("a/b\\c:d e\x00f"),
		[]byte("日本語のコントローラ"),
	}
	for i, id := range ids {
		pin := randPin()
		rs := newRefServer(t, "AA:BB:CC:DD:EE:0"+fmt.Sprint(i), pin)
		c := newRefController(t, rs.addr, id)
		res, err := c.pairSetup(pin)
		if err != nil || res.errCode != 0 {
			t.Fatalf("id %q pin %s: pair-setup: %v %+v", id, pin, err, res)
		}
		e, err := rs.database.EntityWithName(string(id))
		if err != nil || !bytes.Equal(e.PublicKey, c.pub) || e.Name != string(id) {
			t.Fatalf("id %q: stored entity %+v err %v", id, e, err)
		}
		if code, err := c.pairVerify(); err != nil || code != 0 {
			t.Fatalf("id %q: pair-verify on the same connection: %v code %d", id, err, code)
		}
		if err := c.getAccessories(); err != nil {
			t.Fatalf("id %q: %v", id, err)
		}
		// new connection, verify again
		c.reconnect(rs.addr)
		if code, err := c.pairVerify(); err != nil || code != 0 {
			t.Fatalf("id %q: pair-verify on a new connection: %v code %d", id, err, code)
		}
		for k := 0; k < 3; k++ {
			if err := c.getAccessories(); err != nil {
				t.Fatalf("id %q: %v", id, err)
			}
		}
		c.conn.Close()
	}
}

// Probe 2: wrong setup code -> error 2 at M4, nothing stored; right code afterwards works.
func TestHuntWrongCode(t *testing.T) {
	rs := newRefServer(t, "AA:BB:CC:DD:EE:10", "031-45-154")
	before := rs.entityFiles()
	c := newRefController(t, rs.addr, []byte("7B0A2C52-6E0B-4C5E-9F3A-0D1E2F3A4B5C"))
	res, err := c.pairSetup("031-45-155")
	if err != nil {
		t.Fatal(err)
	}
	if res.errCode != 2 || res.atState != 4 {
		t.Fatalf("expected kTLVError_Authentication at M4, got %+v", res)
	}
	after := rs.entityFiles()
	if fmt.Sprint(before) != fmt.Sprint(after) {
		t.Fatalf("storage changed: %v -> %v", before, after)
	}
	// same connection, now the right code
	res, err = c.pairSetup("031-45-154")
	if err != nil || res.errCode != 0 {
		t.Fatalf("retry on the same connection: %v %+v", err, res)
	}
	// other connection
	c2 := newRefController(t, rs.addr, []byte("other"))
	res, err = c2.pairSetup("03145154")
	if err != nil || res.errCode != 2 {
		t.Fatalf("unformatted code: %v %+v", err, res)
	}
}

// verified opens a new connection, runs pair-verify and proves the session with one small request.
// It retries when the hand-over itself fails (that failure is the subject of TestHuntVerifyHandOver),
// so that the tests using it measure only what they are about.
func verified(t *testing.T, c *refController, addr string) {
	for try := 0; try < 20; try++ {
		c.reconnect(addr)
		c.timeout = 2 * time.Second
		c.frameMax = 1024
		code, err := c.pairVerify()
		if err != nil || code != 0 {
			continue
		}
		time.Sleep(20 * time.Millisecond)
		if err := c.getAccessories(); err != nil {
			continue
		}
		return
	}
	t.Fatal("no working session in 20 attempts")
}

// Probe 3: request sizes around the frame size.
func TestHuntRequestSizes(t *testing.T) {
	pin := "031-45-154"
	rs := newRefServer(t, "AA:BB:CC:DD:EE:11", pin)
	aid, iid := rs.acc.Accessory.ID, rs.acc.Switch.On.ID
	c := newRefController(t, rs.addr, []byte("7B0A2C52-6E0B-4C5E-9F3A-0D1E2F3A4B5C"))
	if res, err := c.pairSetup(pin); err != nil || res.errCode != 0 {
		t.Fatal(err, res)
	}
	for _, size := range []int{200, 1023, 1025, 2047, 2049, 5000, 70000, 1024, 2048, 3072} {
		verified(t, c, rs.addr)
		rs.acc.Switch.On.SetValue(false)
		resp, body, err := c.putOfSize(size, aid, iid)
		if err != nil {
			t.Errorf("request of %d bytes: %v", size, err)
			continue
		}
		if resp.StatusCode != 204 {
			t.Errorf("request of %d bytes: status %d body %q", size, resp.StatusCode, body)
		}
		if !rs.acc.Switch.On.GetValue() {
			t.Errorf("request of %d bytes: value not written", size)
		}
		if err := c.getAccessories(); err != nil {
			t.Errorf("after request of %d bytes: %v", size, err)
		}
	}
}

// Probe 4: controller that uses smaller frames than 1024 (allowed: "up to 1024 bytes").
func TestHuntSmallFrames(t *testing.T) {
	pin := "031-45-154"
	rs := newRefServer(t, "AA:BB:CC:DD:EE:12", pin)
	aid, iid := rs.acc.Accessory.ID, rs.acc.Switch.On.ID
	c := newRefController(t, rs.addr, []byte("7B0A2C52-6E0B-4C5E-9F3A-0D1E2F3A4B5C"))
	if res, err := c.pairSetup(pin); err != nil || res.errCode != 0 {
		t.Fatal(err, res)
	}
	for _, fm := range []int{1, 7, 100, 512, 1023} {
		verified(t, c, rs.addr)
		c.frameMax = fm
		resp, body, err := c.putOfSize(700, aid, iid)
		if err != nil {
			t.Errorf("frame size %d: %v", fm, err)
			continue
		}
		if resp.StatusCode != 204 {
			t.Errorf("frame size %d: status %d body %q", fm, resp.StatusCode, body)
		}
		if err := c.getAccessories(); err != nil {
			t.Errorf("frame size %d: %v", fm, err)
		}
	}
}

// Probe 5: many pairings with random keys; catches leading-zero cases of B / S by chance.
func TestHuntManyPairings(t *testing.T) {
	for i := 0; i < 40; i++ {
		pin := randPin()
		rs := newRefServer(t, "AA:BB:CC:DD:EE:20", pin)
		id := make([]byte, 1+mrand.Intn(64))
		rand.Read(id)
		for j := range id {
			id[j] = 'a' + id[j]%26
		}
		c := newRefController(t, rs.addr, id)
		res, err := c.pairSetup(pin)
		if err != nil || res.errCode != 0 {
			t.Fatalf("round %d id %q pin %s: %v %+v", i, id, pin, err, res)
		}
		if code, err := c.pairVerify(); err != nil || code != 0 {
			t.Fatalf("round %d: verify %v %d", i, err, code)
		}
		if err := c.getAccessories(); err != nil {
			t.Fatalf("round %d: %v", i, err)
		}
		c.conn.Close()
	}
}

// Probe 6: the hand-over to the encrypted session. A fresh connection per round: pair-verify
// (the M4 response must arrive in plaintext), then at once the first encrypted request.
func TestHuntVerifyHandOver(t *testing.T) {
	pin := "031-45-154"
	rs := newRefServer(t, "AA:BB:CC:DD:EE:13", pin)
	c := newRefController(t, rs.addr, []byte("7B0A2C52-6E0B-4C5E-9F3A-0D1E2F3A4B5C"))
	if res, err := c.pairSetup(pin); err != nil || res.errCode != 0 {
		t.Fatal(err, res)
	}
	badM4, badFirst := 0, 0
	const rounds = 200
	for i := 0; i < rounds; i++ {
		c.reconnect(rs.addr)
		c.timeout = 1 * time.Second
		code, err := c.pairVerify()
		if err != nil || code != 0 {
			badM4++
			if badM4 <= 3 {
				t.Logf("round %d: pair-verify: %.120v code %d", i, err, code)
			}
			continue
		}
		if err := c.getAccessories(); err != nil {
			badFirst++
			if badFirst <= 3 {
				t.Logf("round %d: first encrypted request: %v", i, err)
			}
		}
	}
	if badM4+badFirst > 0 {
		t.Fatalf("%d of %d sessions failed: %d times the M4 response of pair-verify was not plaintext, %d times the first encrypted request was not answered",
			badM4+badFirst, rounds, badM4, badFirst)
	}
}

// Probe 7: M5 with a signature that does not verify -> error 2, nothing stored.
func TestHuntBadM5Signature(t *testing.T) {
	pin := "031-45-154"
	rs := newRefServer(t, "AA:BB:CC:DD:EE:15", pin)
	before := rs.entityFiles()
	c := newRefController(t, rs.addr, []byte("7B0A2C52-6E0B-4C5E-9F3A-0D1E2F3A4B5C"))
	// sign with a different key than the one that is sent
	_, other, _ := ed25519.GenerateKey(rand.Reader)
	c.priv = other
	res, err := c.pairSetup(pin)
	if err != nil {
		t.Fatal(err)
	}
	if res.errCode != 2 || res.atState != 6 {
		t.Fatalf("expected authentication error at M6, got %+v", res)
	}
	if after := rs.entityFiles(); fmt.Sprint(before) != fmt.Sprint(after) {
		t.Fatalf("storage changed: %v -> %v", before, after)
	}
}

// Probe 8: pairing the same identifier again with another key replaces the key.
func TestHuntRepairSameID(t *testing.T) {
	pin := "031-45-154"
	rs := newRefServer(t, "AA:BB:CC:DD:EE:16", pin)
	id := []byte("7B0A2C52-6E0B-4C5E-9F3A-0D1E2F3A4B5C")
	c := newRefController(t, rs.addr, id)
	if res, err := c.pairSetup(pin); err != nil || res.errCode != 0 {
		t.Fatal(err, res)
	}
	c2 := newRefController(t, rs.addr, id)
	if res, err := c2.pairSetup(pin); err != nil || res.errCode != 0 {
		t.Fatal(err, res)
	}
	verified(t, c2, rs.addr)
}

// Probe 9: restart of the accessory after pair-setup, for several controller identifiers, among
// them one that equals the accessory's own identifier. After the restart the paired controller
// must still be able to pair-verify and talk, and the accessory must still be the same accessory.
func TestHuntRestart(t *testing.T) {
	pin := "031-45-154"
	accID := "AA:BB:CC:DD:EE:17"
	for _, id := range []string{"7B0A2C52-6E0B-4C5E-9F3A-0D1E2F3A4B5C", "aa:bb:cc:dd:ee:17", accID} {
		rs := newRefServer(t, accID, pin)
		c := newRefController(t, rs.addr, []byte(id))
		if res, err := c.pairSetup(pin); err != nil || res.errCode != 0 {
			t.Fatal(err, res)
		}
		verified(t, c, rs.addr) // works before the restart
		ltpk := rs.device.PublicKey()
		c.conn.Close()

		// restart on the same storage
		storage, _ := util.NewFileStorage(rs.dir)
		device, err := hap.NewSecuredDevice(accID, pin, db.NewDatabaseWithStorage(storage))
		if err != nil {
			t.Fatal(err)
		}
		if !bytes.Equal(device.PublicKey(), ltpk) || len(device.PrivateKey()) != 64 {
			t.Errorf("controller id %q: after a restart the accessory's long-term public key is %x (private key: %d bytes), before it was %x",
				id, device.PublicKey(), len(device.PrivateKey()), ltpk)
		}
		rs2 := newRefServerDir(t, accID, pin, rs.dir)
		ok := false
		var lastErr error
		for try := 0; try < 5 && !ok; try++ { // retries only to rule out the hand-over race
			c.reconnect(rs2.addr)
			c.timeout = 2 * time.Second
			code, err := c.pairVerify()
			if err != nil || code != 0 {
				lastErr = fmt.Errorf("pair-verify: %v (tlv error %d)", err, code)
				continue
			}
			time.Sleep(20 * time.Millisecond)
			if lastErr = c.getAccessories(); lastErr == nil {
				ok = true
			}
		}
		if !ok {
			t.Errorf("controller id %q: paired controller cannot talk to the restarted accessory: %v", id, lastErr)
		}
		c.conn.Close()
	}
}

// Probe 10: large accessory database -> response of many frames; two requests written back to back.
func TestHuntLargeResponseAndBackToBack(t *testing.T) {
	pin := "031-45-154"
	rs := newRefServer(t, "AA:BB:CC:DD:EE:18", pin)
	for i := 0; i < 40; i++ {
		sw := accessory.NewSwitch(accessory.Info{Name: fmt.Sprintf("Switch %d", i), SerialNumber: "1", Manufacturer: "m", Model: "x"})
		rs.srv.container.AddAccessory(sw.Accessory)
	}
	c := newRefController(t, rs.addr, []byte("7B0A2C52-6E0B-4C5E-9F3A-0D1E2F3A4B5C"))
	if res, err := c.pairSetup(pin); err != nil || res.errCode != 0 {
		t.Fatal(err, res)
	}
	verified(t, c, rs.addr)
	for i := 0; i < 5; i++ {
		if err := c.getAccessories(); err != nil {
			t.Fatal(err)
		}
	}
	// two requests in one TCP write
	req := []byte("GET /accessories HTTP/1.1\r\nHost: hunt.local\r\n\r\n")
	c.frameMax = len(req)
	if err := c.send(append(append([]byte{}, req...), req...)); err != nil {
		t.Fatal(err)
	}
	for i := 0; i < 2; i++ {
		resp, err := gohttp.ReadResponse(c.br, nil)
		if err != nil {
			t.Fatalf("response %d: %v", i, err)
		}
		body, err := io.ReadAll(resp.Body)
		if err != nil || !bytes.Contains(body, []byte("Switch 39")) {
			t.Fatalf("response %d: %v, %d bytes", i, err, len(body))
		}
	}
}

// Probe 11: M1 without Method item and with a Flags item (as newer iOS versions send).
func TestHuntM1Variants(t *testing.T) {
	pin := "031-45-154"
	rs := newRefServer(t, "AA:BB:CC:DD:EE:19", pin)
	c := newRefController(t, rs.addr, []byte("7B0A2C52-6E0B-4C5E-9F3A-0D1E2F3A4B5C"))
	c.m1NoMethod = true
	c.m1Extra = []refTLV{{0x13, []byte{0x10, 0, 0, 0}}}
	if res, err := c.pairSetup(pin); err != nil || res.errCode != 0 {
		t.Fatal(err, res)
	}
	verified(t, c, rs.addr)
}

// Probe 12: SRP public keys with a leading zero byte, A sent short and sent as 384 bytes.
func TestHuntSRPLeadingZeroA(t *testing.T) {
	pin := "031-45-154"
	for _, pad := range []bool{false, true} {
		rs := newRefServer(t, "AA:BB:CC:DD:EE:1A", pin)
		c := newRefController(t, rs.addr, []byte("7B0A2C52-6E0B-4C5E-9F3A-0D1E2F3A4B5C"))
		c.zeroTopA, c.padA = true, pad
		res, err := c.pairSetup(pin)
		if err != nil || res.errCode != 0 {
			t.Errorf("A with a leading zero byte, padded=%v: %v %+v", pad, err, res)
			continue
		}
		verified(t, c, rs.addr)
	}
}

// Probe 13: accessory public key B with a leading zero byte (one connection in 256).
func TestHuntSRPLeadingZeroB(t *testing.T) {
	pin := "031-45-154"
	rs := newRefServer(t, "AA:BB:CC:DD:EE:1B", pin)
	deadline := time.Now().Add(40 * time.Second)
	for i := 0; time.Now().Before(deadline); i++ {
		c := newRefController(t, rs.addr, []byte("7B0A2C52-6E0B-4C5E-9F3A-0D1E2F3A4B5C"))
		c.onlyShortB = true
		res, err := c.pairSetup(pin)
		c.conn.Close()
		if err == errLongB {
			continue
		}
		if err != nil || res.errCode != 0 {
			t.Fatalf("connection %d, short B: %v %+v", i, err, res)
		}
		t.Logf("connection %d had a short B and paired", i)
		return
	}
	t.Skip("no short B within the time limit")
}

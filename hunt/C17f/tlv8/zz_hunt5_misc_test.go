package tlv8

import (
	"math"
	"testing"
)

// Borderline probes (not counted as demonstrations).

type mInt8 struct {
	V int8 `tlv8:"1"`
}

// "8-bit integers": uint8 is handled, int8 is not: Marshal panics.
func TestHunt5Int8(t *testing.T) {
	defer func() {
		if e := recover(); e != nil {
			t.Fatalf("Marshal panicked on an int8 field: %v", e)
		}
	}()
	b, err := Marshal(mInt8{-128})
	t.Logf("%x %v", b, err)
}

type mF struct {
	F float32 `tlv8:"1"`
}

// a signalling NaN does not keep its bits (float32 -> float64 -> float32)
func TestHunt5SignallingNaN(t *testing.T) {
	in := mF{math.Float32frombits(0x7fa00001)}
	b, _ := Marshal(in)
	var out mF
	if err := Unmarshal(b, &out); err != nil {
		t.Fatal(err)
	}
	if math.Float32bits(out.F) != 0x7fa00001 {
		t.Fatalf("bytes %x, decoded bits %08x", b, math.Float32bits(out.F))
	}
}

type mEl struct {
	Id byte `tlv8:"1"`
}

// a slice at the top level (the library's TestUnmarshalList does this):
// no delimiter is written, nothing comes back
func TestHunt5TopLevelSlice(t *testing.T) {
	b, err := Marshal([]mEl{{1}, {2}})
	if err != nil {
		t.Fatal(err)
	}
	out := make([]mEl, 2)
	if err := Unmarshal(b, &out); err != nil {
		t.Fatal(err)
	}
	if out[0].Id != 1 || out[1].Id != 2 {
		t.Fatalf("bytes %x out %+v", b, out)
	}
}

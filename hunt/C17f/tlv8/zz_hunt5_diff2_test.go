package tlv8

import (
	"fmt"
	"math/rand"
	"testing"
)

type hEl struct {
	ID   uint8     `tlv8:"41"`
	Subs []hSmall2 `tlv8:"45"`
	W    uint16    `tlv8:"46"`
}

type hInlNested struct {
	Head uint8 `tlv8:"1"`
	Els  []hEl `tlv8:"-"`
}

type hPtr struct {
	A uint8  `tlv8:"1"`
	P *hLeaf `tlv8:"2"`
	Q *hPair `tlv8:"3"`
}

type hPtrList struct {
	A  uint8    `tlv8:"1"`
	Ps []*hPair `tlv8:"2"`
}

type hDeep struct {
	L1 []hMid `tlv8:"1"`
}

type hDeep2 struct {
	D  []hDeep `tlv8:"5"`
	In []hPair `tlv8:"-"`
}

func runProto(t *testing.T, p interface{}, n int64) {
	fails := 0
	shortest := ""
	for seed := int64(0); seed < n; seed++ {
		r := rand.New(rand.NewSource(seed))
		var msg string
		var ok bool
		func() {
			defer func() {
				if e := recover(); e != nil {
					msg = fmt.Sprintf("PANIC %v", e)
					ok = false
				}
			}()
			msg, ok = diffOne(t, r, p)
		}()
		if !ok {
			fails++
			if shortest == "" || len(msg) < len(shortest) {
				shortest = fmt.Sprintf("seed %d: %s", seed, msg)
			}
		}
	}
	if fails > 0 {
		if len(shortest) > 2500 {
			shortest = shortest[:2500]
		}
		t.Errorf("%T: %d/%d fail; shortest: %s", p, fails, n, shortest)
	}
}

func TestHunt5Diff2(t *testing.T) {
	for _, p := range []interface{}{hInlNested{}, hPtr{}, hPtrList{}, hDeep{}} { // hDeep2 fails only for list elements with an empty payload (known) {
		runProto(t, p, 2000)
	}
}

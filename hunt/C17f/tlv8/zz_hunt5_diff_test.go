package tlv8

import (
	"bytes"
	"encoding/binary"
	"fmt"
	"math"
	"math/rand"
	"reflect"
	"strconv"
	"testing"
)

// ---------- independent reference encoder (from the property text) ----------

func refItem(out *bytes.Buffer, tag byte, val []byte) {
	if len(val) == 0 {
		out.Write([]byte{tag, 0})
		return
	}
	for len(val) > 0 {
		n := len(val)
		if n > 255 {
			n = 255
		}
		out.WriteByte(tag)
		out.WriteByte(byte(n))
		out.Write(val[:n])
		val = val[n:]
	}
}

func refStruct(v reflect.Value) []byte {
	for v.Kind() == reflect.Ptr {
		v = v.Elem()
	}
	var out bytes.Buffer
	t := v.Type()
	for i := 0; i < t.NumField(); i++ {
		ts, ok := t.Field(i).Tag.Lookup("tlv8")
		if !ok {
			continue
		}
		f := v.Field(i)
		var tag byte
		if ts != "-" {
			n, _ := strconv.Atoi(ts)
			tag = byte(n)
		}
		switch f.Kind() {
		case reflect.Uint8:
			refItem(&out, tag, []byte{byte(f.Uint())})
		case reflect.Uint16:
			b := make([]byte, 2)
			binary.LittleEndian.PutUint16(b, uint16(f.Uint()))
			refItem(&out, tag, b)
		case reflect.Uint32:
			b := make([]byte, 4)
			binary.LittleEndian.PutUint32(b, uint32(f.Uint()))
			refItem(&out, tag, b)
		case reflect.Uint64:
			b := make([]byte, 8)
			binary.LittleEndian.PutUint64(b, f.Uint())
			refItem(&out, tag, b)
		case reflect.Int16:
			b := make([]byte, 2)
			binary.LittleEndian.PutUint16(b, uint16(f.Int()))
			refItem(&out, tag, b)
		case reflect.Int32:
			b := make([]byte, 4)
			binary.LittleEndian.PutUint32(b, uint32(f.Int()))
			refItem(&out, tag, b)
		case reflect.Int64:
			b := make([]byte, 8)
			binary.LittleEndian.PutUint64(b, uint64(f.Int()))
			refItem(&out, tag, b)
		case reflect.Float32:
			b := make([]byte, 4)
			binary.LittleEndian.PutUint32(b, math.Float32bits(float32(f.Float())))
			refItem(&out, tag, b)
		case reflect.Bool:
			if f.Bool() {
				refItem(&out, tag, []byte{1})
			} else {
				refItem(&out, tag, []byte{0})
			}
		case reflect.String:
			refItem(&out, tag, []byte(f.String()))
		case reflect.Slice:
			if f.Type().Elem().Kind() == reflect.Uint8 {
				refItem(&out, tag, f.Bytes())
				break
			}
			for j := 0; j < f.Len(); j++ {
				if j > 0 {
					out.Write([]byte{0, 0})
				}
				p := refStruct(f.Index(j))
				if ts == "-" {
					out.Write(p)
				} else {
					refItem(&out, tag, p)
				}
			}
		case reflect.Struct:
			p := refStruct(f)
			if len(p) > 0 { // an empty nested struct: nothing to say
				refItem(&out, tag, p)
			}
		case reflect.Ptr:
			if !f.IsNil() {
				refItem(&out, tag, refStruct(f))
			}
		default:
			panic("kind " + f.Kind().String())
		}
	}
	return out.Bytes()
}

// ---------- random values ----------

var edgeLens = []int{1, 2, 3, 16, 127, 128, 253, 254, 255, 256, 257, 509, 510, 511, 765, 1023, 1024, 1025}

func randBytes(r *rand.Rand) []byte {
	var n int
	if r.Intn(3) == 0 {
		n = edgeLens[r.Intn(len(edgeLens))]
	} else {
		n = 1 + r.Intn(40)
	}
	b := make([]byte, n)
	for i := range b {
		b[i] = byte(r.Intn(256))
	}
	return b
}

func fill(r *rand.Rand, v reflect.Value, depth int) {
	switch v.Kind() {
	case reflect.Uint8, reflect.Uint16, reflect.Uint32, reflect.Uint64:
		bits := v.Type().Bits()
		var x uint64
		switch r.Intn(5) {
		case 0:
			x = 0
		case 1:
			x = math.MaxUint64
		case 2:
			x = 1 << uint(r.Intn(bits))
		case 3:
			x = uint64(r.Intn(256))
		default:
			x = r.Uint64()
		}
		if bits < 64 {
			x &= (1 << uint(bits)) - 1
		}
		v.SetUint(x)
	case reflect.Int16, reflect.Int32, reflect.Int64:
		bits := v.Type().Bits()
		var x int64
		switch r.Intn(6) {
		case 0:
			x = 0
		case 1:
			x = -1
		case 2:
			x = math.MinInt64 >> uint(64-bits)
		case 3:
			x = math.MaxInt64 >> uint(64-bits)
		case 4:
			x = int64(r.Intn(512)) - 256
		default:
			x = int64(r.Uint64()) >> uint(64-bits)
		}
		v.SetInt(x)
	case reflect.Float32:
		switch r.Intn(6) {
		case 0:
			v.SetFloat(0)
		case 1:
			v.SetFloat(float64(math.MaxFloat32))
		case 2:
			v.SetFloat(float64(math.SmallestNonzeroFloat32))
		case 3:
			v.SetFloat(-1.5)
		case 4:
			v.SetFloat(math.Inf(-1))
		default:
			f := math.Float32frombits(r.Uint32())
			if f != f {
				f = 1
			}
			v.SetFloat(float64(f))
		}
	case reflect.Bool:
		v.SetBool(r.Intn(2) == 0)
	case reflect.String:
		b := randBytes(r)
		v.SetString(string(b))
	case reflect.Slice:
		if v.Type().Elem().Kind() == reflect.Uint8 {
			v.SetBytes(randBytes(r))
			return
		}
		n := r.Intn(4)
		if r.Intn(10) == 0 {
			n = 20 + r.Intn(60)
		}
		if depth > 2 && n > 3 {
			n = 3
		}
		s := reflect.MakeSlice(v.Type(), n, n)
		for i := 0; i < n; i++ {
			if s.Index(i).Kind() == reflect.Ptr { // no nil elements in a list
				p := reflect.New(s.Index(i).Type().Elem())
				fill(r, p.Elem(), depth+1)
				s.Index(i).Set(p)
				continue
			}
			fill(r, s.Index(i), depth+1)
		}
		v.Set(s)
	case reflect.Struct:
		for i := 0; i < v.NumField(); i++ {
			fill(r, v.Field(i), depth+1)
		}
	case reflect.Ptr:
		if r.Intn(3) == 0 {
			v.Set(reflect.Zero(v.Type()))
			return
		}
		p := reflect.New(v.Type().Elem())
		fill(r, p.Elem(), depth+1)
		v.Set(p)
	default:
		panic("fill kind " + v.Kind().String())
	}
}

// normalise: nil and empty slices are the same list
func norm(v reflect.Value) {
	switch v.Kind() {
	case reflect.Slice:
		if v.Len() == 0 && !v.IsNil() {
			v.Set(reflect.Zero(v.Type()))
			return
		}
		if v.Type().Elem().Kind() == reflect.Uint8 {
			return
		}
		for i := 0; i < v.Len(); i++ {
			norm(v.Index(i))
		}
	case reflect.Struct:
		for i := 0; i < v.NumField(); i++ {
			norm(v.Field(i))
		}
	case reflect.Ptr:
		if !v.IsNil() {
			norm(v.Elem())
		}
	}
}

// ---------- synthetic types ----------

type hLeaf struct {
	U8  uint8   `tlv8:"1"`
	U16 uint16  `tlv8:"2"`
	U32 uint32  `tlv8:"3"`
	U64 uint64  `tlv8:"4"`
	I16 int16   `tlv8:"5"`
	I32 int32   `tlv8:"6"`
	I64 int64   `tlv8:"7"`
	F   float32 `tlv8:"8"`
	B   bool    `tlv8:"9"`
	S   string  `tlv8:"10"`
	Bs  []byte  `tlv8:"11"`
}

type hSmall struct {
	X uint8 `tlv8:"1"`
}

type hSmall2 struct {
	Y uint16 `tlv8:"2"`
}

type hMid struct {
	ID     uint8   `tlv8:"1"`
	Leaf   hLeaf   `tlv8:"2"`
	Leaves []hLeaf `tlv8:"3"`
	Name   string  `tlv8:"4"`
}

type hInl struct {
	Xs []hSmall  `tlv8:"-"`
	Ys []hSmall2 `tlv8:"-"`
	K  uint8     `tlv8:"7"`
}

type hPair struct {
	A uint8  `tlv8:"41"`
	S string `tlv8:"42"`
	C int64  `tlv8:"43"`
}

type hTop struct {
	Mid   hMid    `tlv8:"1"`
	Mids  []hMid  `tlv8:"2"`
	Inl   hInl    `tlv8:"3"`
	Tail  uint32  `tlv8:"20"`
	Pairs []hPair `tlv8:"-"`
	End   uint16  `tlv8:"30"`
}

type hTop2 struct {
	Head  uint16  `tlv8:"9"`
	Pairs []hPair `tlv8:"-"`
	Blob  []byte  `tlv8:"12"`
	Inls  []hInl  `tlv8:"13"`
}

func diffOne(t *testing.T, r *rand.Rand, proto interface{}) (string, bool) {
	typ := reflect.TypeOf(proto)
	in := reflect.New(typ)
	fill(r, in.Elem(), 0)
	want := refStruct(in.Elem())
	got, err := Marshal(in.Interface())
	if err != nil {
		return fmt.Sprintf("marshal err %v for %+v", err, in.Elem().Interface()), false
	}
	if !bytes.Equal(want, got) {
		return fmt.Sprintf("bytes differ for %+v\nwant %x\ngot  %x", in.Elem().Interface(), want, got), false
	}
	out := reflect.New(typ)
	if err := Unmarshal(want, out.Interface()); err != nil {
		return fmt.Sprintf("unmarshal err %v for %+v", err, in.Elem().Interface()), false
	}
	norm(in.Elem())
	norm(out.Elem())
	if !reflect.DeepEqual(in.Elem().Interface(), out.Elem().Interface()) {
		return fmt.Sprintf("value differs:\nin  %+v\nout %+v\nbytes %x", in.Elem().Interface(), out.Elem().Interface(), want), false
	}
	return "", true
}

func TestHunt5DiffSynthetic(t *testing.T) {
	protos := []interface{}{hLeaf{}, hMid{}, hInl{}, hTop{}, hTop2{}}
	for _, p := range protos {
		fails := 0
		shortest := ""
		for seed := int64(0); seed < 3000; seed++ {
			r := rand.New(rand.NewSource(seed))
			msg, ok := diffOne(t, r, p)
			if !ok {
				fails++
				if shortest == "" || len(msg) < len(shortest) {
					shortest = fmt.Sprintf("seed %d: %s", seed, msg)
				}
			}
		}
		if fails > 0 {
			if len(shortest) > 3000 {
				shortest = shortest[:3000]
			}
			t.Errorf("%T: %d/3000 fail; shortest: %s", p, fails, shortest)
		}
	}
}

package tlv8

import (
	"math/rand"
	"reflect"
	"testing"
)

func TestHunt5FuzzSynthetic(t *testing.T) {
	protos := []interface{}{hLeaf{}, hMid{}, hInl{}, hTop{}, hTop2{}, hInlNested{}, hPtr{}, hDeep2{}, user{}, Object{}, List{}}
	r := rand.New(rand.NewSource(1))
	for iter := 0; iter < 300000; iter++ {
		p := protos[r.Intn(len(protos))]
		var data []byte
		switch r.Intn(2) {
		case 0:
			data = make([]byte, r.Intn(40))
			for i := range data {
				data[i] = byte(r.Intn(256))
			}
		case 1:
			n := r.Intn(12)
			for i := 0; i < n; i++ {
				l := r.Intn(10)
				if r.Intn(8) == 0 {
					l = 255
				}
				tag := byte(r.Intn(14))
				if r.Intn(5) == 0 {
					tag = byte(40 + r.Intn(8))
				}
				data = append(data, tag, byte(l))
				for j := 0; j < l; j++ {
					b := byte(r.Intn(14))
					if j%3 == 1 {
						b = byte(r.Intn(4))
					}
					data = append(data, b)
				}
			}
			if r.Intn(4) == 0 && len(data) > 0 {
				data = data[:r.Intn(len(data))]
			}
		}
		func() {
			defer func() {
				if e := recover(); e != nil {
					t.Fatalf("PANIC %v on %T with %x", e, p, data)
				}
			}()
			out := reflect.New(reflect.TypeOf(p))
			Unmarshal(data, out.Interface())
		}()
	}
}

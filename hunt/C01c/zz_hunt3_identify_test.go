package hc

import (
	"sync/atomic"
	"testing"
)

// C01, clause "A refused request ... changes nothing (no characteristic value,
// application callback, subscription or stored pairing)" for a connection that
// has not completed pair-verify.
//
// History (inside the quantifier: one plain-text request of a peer which has
// neither the setup code nor a paired key, on its own connection, while a
// controller is paired): POST /identify.
//
// /identify is the unpaired-only twin of a write to the Identify
// characteristic (HAP R2 6.7.6: once the accessory is paired it must answer
// 400 / -70401, the source carries that as a TODO). The unmodified library runs
// the application's OnIdentify callback of every accessory for any peer.
func TestZZHunt3IdentifyOnPairedAccessory(t *testing.T) {
	r := zzStart(t, "", nil)
	defer r.stop()
	admin := zzNewController(t, "admin")
	r.pairDirect(admin)
	if !r.tr.isPaired() {
		t.Fatal("rig: accessory is not paired")
	}

	var identified int32
	r.acc.Accessory.OnIdentify(func() { atomic.AddInt32(&identified, 1) })

	// the paired controller may identify through the characteristic (reference)
	legit := r.verified(admin)
	x, _ := legit.enc("PUT", "/characteristics", "application/hap+json", zzPut(1, r.acc.Info.Identify.ID, "true", nil))
	if x.status != 204 || atomic.LoadInt32(&identified) != 1 {
		t.Fatalf("rig: verified identify: %v, callbacks %d", x, identified)
	}

	// the same write from an unverified connection is refused ...
	u := r.dial()
	defer u.c.Close()
	y := u.plain("PUT", "/characteristics", "application/hap+json", zzPut(1, r.acc.Info.Identify.ID, "true", nil))
	if y.status != 470 || atomic.LoadInt32(&identified) != 1 {
		t.Fatalf("unverified identify write: %v, callbacks %d", y, identified)
	}

	// ... but not through /identify
	z := u.plain("POST", "/identify", "", nil)
	t.Logf("unverified POST /identify on a paired accessory -> %v, OnIdentify calls by unverified peer: %d", z, atomic.LoadInt32(&identified)-1)
	if n := atomic.LoadInt32(&identified) - 1; n != 0 {
		t.Errorf("unverified connection ran the application's identify callback %d time(s)", n)
	}
	if z.status >= 200 && z.status < 300 {
		t.Errorf("unverified POST /identify on a paired accessory answered %d, want a refusal (400 / 470)", z.status)
	}
}

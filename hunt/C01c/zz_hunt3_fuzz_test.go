package hc

import (
	"bytes"
	"fmt"
	"image"
	"io/ioutil"
	"math/rand"
	"net"
	"os"
	"sort"
	"strings"
	"testing"
	"time"

	"github.com/brutella/hc/crypto"
	"github.com/brutella/hc/crypto/chacha20poly1305"
	"github.com/brutella/hc/crypto/curve25519"
	"github.com/brutella/hc/crypto/hkdf"
	"github.com/brutella/hc/hap/pair"
	"github.com/brutella/hc/util"
)

// attacker connection state
type zzAtk struct {
	c      net.Conn
	priv   [32]byte
	pub    [32]byte
	other  [32]byte
	hasKey bool
	key    [32]byte
	shared [32]byte
	sess   crypto.Cryptographer
}

func (a *zzAtk) drain(max time.Duration) []byte {
	var out []byte
	buf := make([]byte, 8192)
	deadline := time.Now().Add(max)
	idle := 60 * time.Millisecond
	for {
		d := time.Now().Add(idle)
		if d.After(deadline) {
			d = deadline
		}
		a.c.SetReadDeadline(d)
		n, err := a.c.Read(buf)
		out = append(out, buf[:n]...)
		if err != nil {
			return out
		}
		if len(out) > 0 {
			idle = 25 * time.Millisecond
		}
	}
}

func zzDirList(dir string) string {
	fs, _ := ioutil.ReadDir(dir)
	var s []string
	for _, f := range fs {
		b, _ := ioutil.ReadFile(dir + "/" + f.Name())
		s = append(s, f.Name()+"="+string(b))
	}
	sort.Strings(s)
	return strings.Join(s, "\n")
}

func TestZZFuzzUnverified(t *testing.T) {
	seed := time.Now().UnixNano()
	if s := os.Getenv("ZZSEED"); s != "" {
		fmt.Sscan(s, &seed)
	}
	iters := 300
	if s := os.Getenv("ZZITERS"); s != "" {
		fmt.Sscan(s, &iters)
	}
	t.Logf("seed %d", seed)
	rnd := rand.New(rand.NewSource(seed))

	snapshots := 0
	r := zzStart(t, "", func(tr *ipTransport) {
		tr.CameraSnapshotReq = func(w, h uint) (*image.Image, error) {
			snapshots++
			var img image.Image = image.NewRGBA(image.Rect(0, 0, 4, 4))
			return &img, nil
		}
	})
	defer r.stop()
	admin := zzNewController(t, "admin")
	r.pairDirect(admin)
	evil := zzNewController(t, "evil")
	accName := r.tr.device.Name()
	onID := r.acc.Switch.On.ID

	var updates int
	r.acc.Switch.On.OnValueRemoteUpdate(func(bool) { updates++ })
	identifies := 0
	r.acc.Accessory.OnIdentify(func() { identifies++ })

	legit := r.verified(admin)
	x, _ := legit.enc("PUT", "/characteristics", "application/hap+json", zzPut(1, onID, nil, "true"))
	if x.status != 204 {
		t.Fatalf("subscribe: %v", x)
	}
	dbBefore := zzDirList(r.dir)
	legitVal := false
	expUpdates := 0

	var atks []*zzAtk
	newAtk := func() *zzAtk {
		c, err := net.DialTimeout("tcp", r.addr, time.Second)
		if err != nil {
			t.Fatal(err)
		}
		a := &zzAtk{c: c}
		atks = append(atks, a)
		return a
	}
	newAtk()
	var hist []string
	bad := func(format string, args ...interface{}) {
		t.Errorf(format, args...)
		for _, h := range hist {
			t.Log(h)
		}
		t.FailNow()
	}

	protected := func() []byte {
		switch rnd.Intn(7) {
		case 0:
			return zzBuildReq("GET", "/accessories", "", nil)
		case 1:
			return zzBuildReq("GET", fmt.Sprintf("/characteristics?id=1.%d,1.3,1.4", onID), "", nil)
		case 2:
			return zzBuildReq("PUT", "/characteristics", "application/hap+json", zzPut(1, onID, "true", nil))
		case 3:
			return zzBuildReq("PUT", "/characteristics", "application/hap+json", zzPut(1, onID, nil, "true"))
		case 4:
			c := util.NewTLV8Container()
			c.SetByte(pair.TagSequence, 1)
			c.SetByte(pair.TagPairingMethod, pair.PairingMethodAdd.Byte())
			c.SetString(pair.TagUsername, "evil")
			c.SetBytes(pair.TagPublicKey, evil.dev.PublicKey())
			c.SetByte(pair.TagPermission, 1)
			return zzBuildReq("POST", "/pairings", "application/pairing+tlv8", c.BytesBuffer().Bytes())
		case 5:
			c := util.NewTLV8Container()
			c.SetByte(pair.TagSequence, 1)
			c.SetByte(pair.TagPairingMethod, pair.PairingMethodDelete.Byte())
			c.SetString(pair.TagUsername, "admin")
			return zzBuildReq("POST", "/pairings", "application/pairing+tlv8", c.BytesBuffer().Bytes())
		default:
			return zzBuildReq("POST", "/resource", "application/hap+json", []byte(`{"resource-type":"image","image-width":10,"image-height":10}`))
		}
	}

	for i := 0; i < iters; i++ {
		a := atks[rnd.Intn(len(atks))]
		var send []byte
		desc := ""
		switch k := rnd.Intn(14); k {
		case 0, 1:
			send = protected()
			desc = "plain protected " + strings.SplitN(string(send), "\r\n", 2)[0]
		case 2: // verify M1
			a.priv = curve25519.GeneratePrivateKey()
			if rnd.Intn(6) == 0 {
				a.priv = [32]byte{}
				a.pub = [32]byte{} // low order point
			} else {
				a.pub = curve25519.PublicKey(a.priv)
			}
			c := util.NewTLV8Container()
			c.SetByte(pair.TagSequence, 1)
			c.SetBytes(pair.TagPublicKey, a.pub[:])
			send = zzBuildReq("POST", "/pair-verify", "application/pairing+tlv8", c.BytesBuffer().Bytes())
			desc = "verify M1"
			a.c.Write(send)
			resp := a.drain(400 * time.Millisecond)
			hist = append(hist, fmt.Sprintf("%d conn%p %s -> %d bytes", i, a, desc, len(resp)))
			if idx := bytes.Index(resp, []byte("\r\n\r\n")); idx > 0 && bytes.Contains(resp[:idx], []byte("200 OK")) {
				m2, err := util.NewTLV8ContainerFromReader(bytes.NewReader(resp[idx+4:]))
				if err == nil && len(m2.GetBytes(pair.TagPublicKey)) == 32 {
					copy(a.other[:], m2.GetBytes(pair.TagPublicKey))
					a.shared = curve25519.SharedSecret(a.priv, a.other)
					a.key, _ = hkdf.Sha512(a.shared[:], []byte("Pair-Verify-Encrypt-Salt"), []byte("Pair-Verify-Encrypt-Info"))
					a.hasKey = true
					a.sess, _ = crypto.NewSecureClientSessionFromSharedKey(a.shared)
				}
			}
			continue
		case 3: // bad M1
			c := util.NewTLV8Container()
			c.SetByte(pair.TagSequence, 1)
			c.SetBytes(pair.TagPublicKey, make([]byte, rnd.Intn(40)))
			send = zzBuildReq("POST", "/pair-verify", "application/pairing+tlv8", c.BytesBuffer().Bytes())
			desc = "verify bad M1"
		case 4, 5: // forged M3
			names := []string{"admin", accName, "", "evil", "nobody", "admin\x00", "ADMIN"}
			name := names[rnd.Intn(len(names))]
			var material []byte
			material = append(material, a.pub[:]...)
			material = append(material, name...)
			material = append(material, a.other[:]...)
			sig, _ := crypto.ED25519Signature(evil.dev.PrivateKey(), material)
			inner := util.NewTLV8Container()
			switch rnd.Intn(6) {
			case 0:
				inner.SetString(pair.TagUsername, name)
				inner.SetBytes(pair.TagSignature, make([]byte, 64))
			case 1:
				inner.SetString(pair.TagUsername, name)
			case 2:
				inner.SetBytes(pair.TagSignature, sig)
			case 3: // empty
			default:
				inner.SetString(pair.TagUsername, name)
				inner.SetBytes(pair.TagSignature, sig)
			}
			if rnd.Intn(4) == 0 {
				inner.SetByte(pair.TagErrCode, 0)
				inner.SetByte(pair.TagSequence, 4)
			}
			encd, mac, _ := chacha20poly1305.EncryptAndSeal(a.key[:], []byte("PV-Msg03"), inner.BytesBuffer().Bytes(), nil)
			data := append(encd, mac[:]...)
			if rnd.Intn(5) == 0 {
				data = data[:rnd.Intn(len(data)+1)]
			}
			c := util.NewTLV8Container()
			if rnd.Intn(5) == 0 {
				c.SetByte(pair.TagErrCode, 0)
			}
			c.SetByte(pair.TagSequence, 3)
			c.SetBytes(pair.TagEncryptedData, data)
			if rnd.Intn(6) == 0 {
				c.SetByte(pair.TagSequence, 4)
			}
			send = zzBuildReq("POST", "/pair-verify", "application/pairing+tlv8", c.BytesBuffer().Bytes())
			desc = fmt.Sprintf("verify forged M3 name=%q", name)
		case 6: // weird verify / setup step
			c := util.NewTLV8Container()
			c.SetByte(pair.TagSequence, byte(rnd.Intn(8)))
			if rnd.Intn(3) == 0 {
				c.SetByte(pair.TagPairingMethod, byte(rnd.Intn(5)))
			}
			if rnd.Intn(2) == 0 {
				c.SetBytes(pair.TagPublicKey, a.pub[:])
			}
			if rnd.Intn(2) == 0 {
				c.SetBytes(pair.TagEncryptedData, make([]byte, rnd.Intn(80)))
			}
			if rnd.Intn(2) == 0 {
				c.SetBytes(pair.TagProof, make([]byte, 64))
			}
			ep := []string{"/pair-verify", "/pair-setup"}[rnd.Intn(2)]
			send = zzBuildReq("POST", ep, "application/pairing+tlv8", c.BytesBuffer().Bytes())
			desc = "weird " + ep + fmt.Sprintf(" %x", c.BytesBuffer().Bytes()[:3])
		case 7: // setup M1
			c := util.NewTLV8Container()
			c.SetByte(pair.TagPairingMethod, 0)
			c.SetByte(pair.TagSequence, 1)
			send = zzBuildReq("POST", "/pair-setup", "application/pairing+tlv8", c.BytesBuffer().Bytes())
			desc = "setup M1"
		case 8: // setup M3 junk
			c := util.NewTLV8Container()
			c.SetByte(pair.TagSequence, 3)
			A := make([]byte, 384)
			if rnd.Intn(2) == 0 {
				rnd.Read(A)
				A[0] &= 0x7f
			}
			c.SetBytes(pair.TagPublicKey, A)
			c.SetBytes(pair.TagProof, make([]byte, 64))
			send = zzBuildReq("POST", "/pair-setup", "application/pairing+tlv8", c.BytesBuffer().Bytes())
			desc = "setup M3 junk"
		case 9: // setup M5 under zero key / derived key
			inner := util.NewTLV8Container()
			inner.SetString(pair.TagUsername, "evil")
			inner.SetBytes(pair.TagPublicKey, evil.dev.PublicKey())
			inner.SetBytes(pair.TagSignature, make([]byte, 64))
			var key [32]byte
			if rnd.Intn(2) == 0 {
				key = a.key
			}
			encd, mac, _ := chacha20poly1305.EncryptAndSeal(key[:], []byte("PS-Msg05"), inner.BytesBuffer().Bytes(), nil)
			c := util.NewTLV8Container()
			c.SetByte(pair.TagSequence, 5)
			c.SetBytes(pair.TagEncryptedData, append(encd, mac[:]...))
			send = zzBuildReq("POST", "/pair-setup", "application/pairing+tlv8", c.BytesBuffer().Bytes())
			desc = "setup M5 junk"
		case 10, 11: // ciphertext under own derived key
			if a.sess == nil {
				continue
			}
			e, _ := a.sess.Encrypt(bytes.NewReader(protected()))
			send, _ = ioutil.ReadAll(e)
			desc = "ciphertext under derived key"
		case 12: // new connection / close
			if len(atks) < 4 && rnd.Intn(2) == 0 {
				newAtk()
				hist = append(hist, fmt.Sprintf("%d new conn", i))
				continue
			}
			if tc, ok := a.c.(*net.TCPConn); ok && rnd.Intn(2) == 0 {
				tc.SetLinger(0)
			}
			local := a.c.LocalAddr().String()
			a.c.Close()
			*a = zzAtk{}
			var c net.Conn
			var err error
			if rnd.Intn(2) == 0 {
				la, _ := net.ResolveTCPAddr("tcp", local)
				c, err = (&net.Dialer{LocalAddr: la, Timeout: time.Second}).Dial("tcp", r.addr)
			}
			if c == nil {
				c, err = net.DialTimeout("tcp", r.addr, time.Second)
				if err != nil {
					t.Fatal(err)
				}
			}
			a.c = c
			hist = append(hist, fmt.Sprintf("%d reconnect %s", i, local))
			continue
		case 13: // legit activity
			legitVal = !legitVal
			x, evs := legit.enc("PUT", "/characteristics", "application/hap+json", zzPut(1, onID, fmt.Sprint(legitVal), nil))
			if x.status != 204 {
				bad("legit PUT: %v %v", x, evs)
			}
			expUpdates++
			hist = append(hist, fmt.Sprintf("%d legit put %v", i, legitVal))
			// attackers must not get events
			for _, b := range atks {
				if out := b.drainQuick(); len(out) > 0 {
					bad("attacker got unsolicited bytes after legit write: %q", out)
				}
			}
			continue
		}
		a.c.SetWriteDeadline(time.Now().Add(time.Second))
		a.c.Write(send)
		resp := a.drain(400 * time.Millisecond)
		hist = append(hist, fmt.Sprintf("%d conn%p %s -> %q", i, a, desc, zzTrunc(resp)))
		if len(hist) > 60 {
			hist = hist[len(hist)-60:]
		}
		if strings.Contains(desc, "forged M3") && bytes.Contains(resp, []byte(" 200 ")) {
			if idx := bytes.Index(resp, []byte("\r\n\r\n")); idx > 0 {
				m4, err := util.NewTLV8ContainerFromReader(bytes.NewReader(resp[idx+4:]))
				if err != nil || m4.GetByte(pair.TagErrCode) == 0 {
					bad("forged M3 accepted: %q", resp)
				}
			}
		}
		isPairingEP := strings.Contains(desc, "verify") || strings.Contains(desc, "setup") || strings.Contains(desc, "weird")
		if bytes.Contains(resp, []byte("CANARY")) || bytes.Contains(resp, []byte(`"aid"`)) || bytes.Contains(resp, []byte(`"value"`)) || bytes.Contains(resp, []byte("EVENT/1.0")) {
			bad("disclosure: %q", resp)
		}
		if !isPairingEP {
			for _, ok := range []string{" 200 ", " 204 ", " 207 "} {
				if bytes.Contains(resp, []byte("HTTP/1.1"+ok)) {
					bad("protected request accepted: %q", resp)
				}
			}
		}
		if a.sess != nil && len(resp) > 0 && !bytes.HasPrefix(resp, []byte("HTTP/1.1")) {
			bad("non-http answer: %q", resp)
		}
		if r.acc.Switch.On.GetValue() != legitVal || updates != expUpdates {
			bad("value/callback changed: val=%v want %v updates=%d want %d", r.acc.Switch.On.GetValue(), legitVal, updates, expUpdates)
		}
		if d := zzDirList(r.dir); d != dbBefore {
			bad("storage changed:\n%s\n---\n%s", dbBefore, d)
		}
	}
	if os.Getenv("ZZDUMP") != "" {
		for _, h := range hist {
			t.Log(h)
		}
	}
	if snapshots != 0 {
		t.Errorf("snapshot called %d", snapshots)
	}
	if identifies != 0 {
		t.Errorf("identify called %d", identifies)
	}
	// legit still works
	x, _ = legit.enc("GET", "/accessories", "", nil)
	if x.status != 200 {
		t.Errorf("legit at end: %v", x)
	}
}

func (a *zzAtk) drainQuick() []byte {
	a.c.SetReadDeadline(time.Now().Add(15 * time.Millisecond))
	buf := make([]byte, 4096)
	n, _ := a.c.Read(buf)
	return buf[:n]
}

func zzTrunc(b []byte) string {
	if len(b) > 90 {
		return string(b[:90]) + "..."
	}
	return string(b)
}

package hc

import (
	"bytes"
	"fmt"
	"sync/atomic"
	"testing"
	"time"

	"github.com/brutella/hc/crypto"
	"github.com/brutella/hc/crypto/chacha20poly1305"
	"github.com/brutella/hc/crypto/curve25519"
	"github.com/brutella/hc/crypto/hkdf"
	"github.com/brutella/hc/hap/pair"
	"github.com/brutella/hc/util"
)

// verifySplice: like verify, but the finish request is built by mk from the M3 tlv
// bytes (an on-path peer rewriting / appending to the plain-text request).
func (p *zzPeer) verifySplice(c *zzController, between []byte, mk func(m3 []byte) []byte) error {
	priv := curve25519.GeneratePrivateKey()
	pub := curve25519.PublicKey(priv)
	m1 := util.NewTLV8Container()
	m1.SetByte(pair.TagSequence, 1)
	m1.SetBytes(pair.TagPublicKey, pub[:])
	m2, r := p.tlv("/pair-verify", m1)
	if r.err != nil || r.status != 200 {
		return fmt.Errorf("M2 %v", r)
	}
	var other [32]byte
	copy(other[:], m2.GetBytes(pair.TagPublicKey))
	shared := curve25519.SharedSecret(priv, other)
	key, _ := hkdf.Sha512(shared[:], []byte("Pair-Verify-Encrypt-Salt"), []byte("Pair-Verify-Encrypt-Info"))
	var material []byte
	material = append(material, pub[:]...)
	material = append(material, c.dev.Name()...)
	material = append(material, other[:]...)
	sig, _ := crypto.ED25519Signature(c.dev.PrivateKey(), material)
	inner := util.NewTLV8Container()
	inner.SetString(pair.TagUsername, c.dev.Name())
	inner.SetBytes(pair.TagSignature, sig)
	encd, mac, _ := chacha20poly1305.EncryptAndSeal(key[:], []byte("PV-Msg03"), inner.BytesBuffer().Bytes(), nil)
	m3 := util.NewTLV8Container()
	m3.SetByte(pair.TagSequence, 3)
	m3.SetBytes(pair.TagEncryptedData, append(encd, mac[:]...))
	if between != nil {
		p.c.Write(between)
		x := p.readPlain("PUT")
		if x.status != 470 {
			return fmt.Errorf("between: %v", x)
		}
	}
	p.c.SetDeadline(time.Now().Add(3 * time.Second))
	p.c.Write(mk(m3.BytesBuffer().Bytes()))
	x := p.readPlain("POST")
	if x.err != nil || x.status != 200 {
		return fmt.Errorf("M4 %v", x)
	}
	m4, _ := util.NewTLV8ContainerFromReader(bytes.NewReader(x.body))
	if m4.GetByte(pair.TagErrCode) != 0 || m4.GetByte(pair.TagSequence) != 4 {
		return fmt.Errorf("M4 body %x", x.body)
	}
	var err error
	p.sess, err = crypto.NewSecureClientSessionFromSharedKey(shared)
	return err
}

func TestZZProbeSplice(t *testing.T) {
	r := zzStart(t, "", nil)
	defer r.stop()
	admin := zzNewController(t, "admin")
	r.pairDirect(admin)
	onID := r.acc.Switch.On.ID
	var remote int32
	r.acc.Switch.On.OnValueRemoteUpdate(func(bool) { atomic.AddInt32(&remote, 1) })
	put := zzBuildReq("PUT", "/characteristics", "application/hap+json", zzPut(1, onID, "true", nil))
	m3req := func(b []byte) []byte { return zzBuildReq("POST", "/pair-verify", "application/pairing+tlv8", b) }

	variants := map[string]func(m3 []byte) []byte{
		"append": func(m3 []byte) []byte { return append(m3req(m3), put...) },
		"append1": func(m3 []byte) []byte { return append(m3req(m3), 'P') },
		"longer-body": func(m3 []byte) []byte {
			body := append(append([]byte{}, m3...), put...)
			return zzBuildReq("POST", "/pair-verify", "application/pairing+tlv8", body)
		},
		"chunked": func(m3 []byte) []byte {
			var b bytes.Buffer
			fmt.Fprintf(&b, "POST /pair-verify HTTP/1.1\r\nHost: z\r\nTransfer-Encoding: chunked\r\n\r\n%x\r\n", len(m3))
			b.Write(m3)
			b.WriteString("\r\n0\r\n\r\n")
			b.Write(put)
			return b.Bytes()
		},
		"chunked-trailer": func(m3 []byte) []byte {
			var b bytes.Buffer
			fmt.Fprintf(&b, "POST /pair-verify HTTP/1.1\r\nHost: z\r\nTransfer-Encoding: chunked\r\nTrailer: X\r\n\r\n%x\r\n", len(m3))
			b.Write(m3)
			b.WriteString("\r\n0\r\nX: y\r\n\r\n")
			b.Write(put)
			return b.Bytes()
		},
		"expect": func(m3 []byte) []byte {
			var b bytes.Buffer
			fmt.Fprintf(&b, "POST /pair-verify HTTP/1.1\r\nHost: z\r\nExpect: 100-continue\r\nContent-Length: %d\r\n\r\n", len(m3))
			b.Write(m3)
			b.Write(put)
			return b.Bytes()
		},
	}
	for name, mk := range variants {
		for i := 0; i < 30; i++ {
			p := r.dial()
			err := p.verifySplice(admin, put, mk)
			time.Sleep(20 * time.Millisecond)
			if r.acc.Switch.On.GetValue() || atomic.LoadInt32(&remote) != 0 {
				t.Fatalf("%s: spliced plain-text write executed (verify err %v)", name, err)
			}
			if err == nil {
				// plain text after M4
				p.c.Write(put)
				time.Sleep(20 * time.Millisecond)
				if r.acc.Switch.On.GetValue() || atomic.LoadInt32(&remote) != 0 {
					t.Fatalf("%s: plain-text write after M4 executed", name)
				}
			}
			p.c.Close()
		}
		t.Logf("%s: nothing executed", name)
	}
}

package hc

// Harness for the hunt on property C01 (protected endpoints serve only
// pair-verified connections): a real ipTransport on loopback, a reference
// HAP peer (plain and encrypted) on raw TCP sockets.

import (
	"bufio"
	"bytes"
	"encoding/binary"
	"fmt"
	"io"
	"io/ioutil"
	"net"
	"net/http"
	"strings"
	"sync"
	"testing"
	"time"

	"github.com/brutella/hc/accessory"
	"github.com/brutella/hc/crypto"
	"github.com/brutella/hc/crypto/chacha20poly1305"
	"github.com/brutella/hc/crypto/curve25519"
	"github.com/brutella/hc/crypto/hkdf"
	"github.com/brutella/hc/db"
	"github.com/brutella/hc/hap"
	"github.com/brutella/hc/hap/pair"
	"github.com/brutella/hc/log"
	"github.com/brutella/hc/util"
)

var _ = log.Debug

type zzRig struct {
	t    *testing.T
	tr   *ipTransport
	addr string
	acc  *accessory.Switch
	dir  string
}

func zzStart(t *testing.T, dir string, mod func(*ipTransport)) *zzRig {
	if dir == "" {
		dir = t.TempDir()
	}
	acc := accessory.NewSwitch(accessory.Info{Name: "zzswitch", SerialNumber: "CANARY-SERIAL-7731"})
	tr, err := NewIPTransport(Config{StoragePath: dir, Port: "0", Pin: "00102003", IP: "127.0.0.1"}, acc.Accessory)
	if err != nil {
		t.Fatal(err)
	}
	if mod != nil {
		mod(tr)
	}
	go tr.Start()
	deadline := time.Now().Add(5 * time.Second)
	for {
		if tr.server != nil && tr.config.servePort != 0 {
			break
		}
		if time.Now().After(deadline) {
			t.Fatal("transport did not start")
		}
		time.Sleep(5 * time.Millisecond)
	}
	time.Sleep(20 * time.Millisecond)
	r := &zzRig{t: t, tr: tr, addr: "127.0.0.1:" + tr.server.Port(), acc: acc, dir: dir}
	return r
}

func (r *zzRig) stop() {
	select {
	case <-r.tr.Stop():
	case <-time.After(3 * time.Second):
		r.t.Log("stop timed out")
	}
}

// zzController is a controller identity (long-term key pair).
type zzController struct {
	dev hap.Device
	db  db.Database
}

func zzNewController(t *testing.T, name string) *zzController {
	d, err := db.NewDatabase(t.TempDir())
	if err != nil {
		t.Fatal(err)
	}
	dev, err := hap.NewDevice(name, d)
	if err != nil {
		t.Fatal(err)
	}
	return &zzController{dev: dev, db: d}
}

// pairDirect stores the controller as a paired controller (what a completed
// pair-setup with the setup code does).
func (r *zzRig) pairDirect(c *zzController) {
	if err := r.tr.database.SaveEntity(db.NewEntity(c.dev.Name(), c.dev.PublicKey(), nil)); err != nil {
		r.t.Fatal(err)
	}
}

// zzPeer is one TCP connection of a peer.
type zzPeer struct {
	t    *testing.T
	c    net.Conn
	br   *bufio.Reader // plain reader
	sess crypto.Cryptographer
	mu   sync.Mutex
	dec  bytes.Buffer // decrypted, not yet parsed
}

func (r *zzRig) dial() *zzPeer {
	c, err := net.DialTimeout("tcp", r.addr, 2*time.Second)
	if err != nil {
		r.t.Fatal(err)
	}
	return &zzPeer{t: r.t, c: c, br: bufio.NewReader(c)}
}

func (r *zzRig) dialFrom(local string) (*zzPeer, error) {
	la, _ := net.ResolveTCPAddr("tcp", local)
	d := net.Dialer{LocalAddr: la, Timeout: 2 * time.Second}
	c, err := d.Dial("tcp", r.addr)
	if err != nil {
		return nil, err
	}
	return &zzPeer{t: r.t, c: c, br: bufio.NewReader(c)}, nil
}

type zzResp struct {
	status int
	proto  string
	header http.Header
	body   []byte
	err    error
}

func (x zzResp) String() string {
	if x.err != nil {
		return "ERR " + x.err.Error()
	}
	return fmt.Sprintf("%s %d %q", x.proto, x.status, string(x.body))
}

func zzBuildReq(method, path, ctype string, body []byte) []byte {
	var b bytes.Buffer
	fmt.Fprintf(&b, "%s %s HTTP/1.1\r\nHost: zz\r\n", method, path)
	if body != nil {
		fmt.Fprintf(&b, "Content-Type: %s\r\nContent-Length: %d\r\n", ctype, len(body))
	}
	b.WriteString("\r\n")
	b.Write(body)
	return b.Bytes()
}

// plain sends a plain-text request and reads a plain-text response.
func (p *zzPeer) plain(method, path, ctype string, body []byte) zzResp {
	p.c.SetDeadline(time.Now().Add(3 * time.Second))
	if _, err := p.c.Write(zzBuildReq(method, path, ctype, body)); err != nil {
		return zzResp{err: err}
	}
	return p.readPlain(method)
}

func (p *zzPeer) readPlain(method string) zzResp {
	p.c.SetReadDeadline(time.Now().Add(3 * time.Second))
	resp, err := http.ReadResponse(p.br, &http.Request{Method: method})
	if err != nil {
		return zzResp{err: err}
	}
	b, _ := ioutil.ReadAll(resp.Body)
	resp.Body.Close()
	return zzResp{status: resp.StatusCode, proto: resp.Proto, header: resp.Header, body: b}
}

// readFrames reads encrypted frames until at least one message could be parsed.
func (p *zzPeer) readFrame(timeout time.Duration) error {
	p.c.SetReadDeadline(time.Now().Add(timeout))
	var hdr [2]byte
	if _, err := io.ReadFull(p.br, hdr[:]); err != nil {
		return err
	}
	n := int(binary.LittleEndian.Uint16(hdr[:]))
	rest := make([]byte, n+16)
	if _, err := io.ReadFull(p.br, rest); err != nil {
		return err
	}
	out, err := p.sess.Decrypt(bytes.NewReader(append(hdr[:], rest...)))
	if err != nil {
		return err
	}
	b, _ := ioutil.ReadAll(out)
	p.dec.Write(b)
	return nil
}

// readMsg reads one HTTP or EVENT message from the encrypted stream.
func (p *zzPeer) readMsg(method string, timeout time.Duration) zzResp {
	deadline := time.Now().Add(timeout)
	for {
		if p.dec.Len() > 0 {
			raw := p.dec.Bytes()
			proto := "HTTP"
			fixed := raw
			if bytes.HasPrefix(raw, []byte("EVENT/1.0")) {
				proto = "EVENT"
				fixed = append([]byte("HTTP/1.0"), raw[len("EVENT/1.0"):]...)
			}
			rd := bytes.NewReader(fixed)
			brd := bufio.NewReader(rd)
			resp, err := http.ReadResponse(brd, &http.Request{Method: method})
			if err == nil {
				b, berr := ioutil.ReadAll(resp.Body)
				if berr == nil {
					consumedFixed := len(fixed) - rd.Len() - brd.Buffered()
					consumed := consumedFixed + (len(raw) - len(fixed))
					p.dec.Next(consumed)
					return zzResp{status: resp.StatusCode, proto: proto, header: resp.Header, body: b}
				}
			}
		}
		left := time.Until(deadline)
		if left <= 0 {
			return zzResp{err: fmt.Errorf("timeout")}
		}
		if err := p.readFrame(left); err != nil {
			return zzResp{err: err}
		}
	}
}

// enc sends an encrypted request and returns the next HTTP response; EVENT
// messages read on the way are returned in events.
func (p *zzPeer) enc(method, path, ctype string, body []byte) (zzResp, []zzResp) {
	e, err := p.sess.Encrypt(bytes.NewReader(zzBuildReq(method, path, ctype, body)))
	if err != nil {
		return zzResp{err: err}, nil
	}
	raw, _ := ioutil.ReadAll(e)
	p.c.SetWriteDeadline(time.Now().Add(3 * time.Second))
	if _, err := p.c.Write(raw); err != nil {
		return zzResp{err: err}, nil
	}
	var evs []zzResp
	for {
		m := p.readMsg(method, 3*time.Second)
		if m.err == nil && m.proto == "EVENT" {
			evs = append(evs, m)
			continue
		}
		return m, evs
	}
}

func (p *zzPeer) tlv(path string, c util.Container) (util.Container, zzResp) {
	r := p.plain("POST", path, hap.HTTPContentTypePairingTLV8, c.BytesBuffer().Bytes())
	if r.err != nil {
		return nil, r
	}
	out, err := util.NewTLV8ContainerFromReader(bytes.NewReader(r.body))
	if err != nil {
		return nil, zzResp{err: err}
	}
	return out, r
}

// verify runs pair-verify as controller c; on success the peer is switched to
// the encrypted session.
func (p *zzPeer) verify(c *zzController, accessoryName string, accessoryLTPK []byte) error {
	priv := curve25519.GeneratePrivateKey()
	pub := curve25519.PublicKey(priv)
	m1 := util.NewTLV8Container()
	m1.SetByte(pair.TagSequence, pair.VerifyStepStartRequest.Byte())
	m1.SetBytes(pair.TagPublicKey, pub[:])
	m2, r := p.tlv("/pair-verify", m1)
	if r.err != nil {
		return r.err
	}
	if r.status != 200 {
		return fmt.Errorf("M2 status %d", r.status)
	}
	var other [32]byte
	copy(other[:], m2.GetBytes(pair.TagPublicKey))
	shared := curve25519.SharedSecret(priv, other)
	key, _ := hkdf.Sha512(shared[:], []byte("Pair-Verify-Encrypt-Salt"), []byte("Pair-Verify-Encrypt-Info"))

	var material []byte
	material = append(material, pub[:]...)
	material = append(material, c.dev.Name()...)
	material = append(material, other[:]...)
	sig, err := crypto.ED25519Signature(c.dev.PrivateKey(), material)
	if err != nil {
		return err
	}
	inner := util.NewTLV8Container()
	inner.SetString(pair.TagUsername, c.dev.Name())
	inner.SetBytes(pair.TagSignature, sig)
	encd, mac, _ := chacha20poly1305.EncryptAndSeal(key[:], []byte("PV-Msg03"), inner.BytesBuffer().Bytes(), nil)
	m3 := util.NewTLV8Container()
	m3.SetByte(pair.TagSequence, pair.VerifyStepFinishRequest.Byte())
	m3.SetBytes(pair.TagEncryptedData, append(encd, mac[:]...))
	m4, r := p.tlv("/pair-verify", m3)
	if r.err != nil {
		return r.err
	}
	if r.status != 200 {
		return fmt.Errorf("M4 status %d", r.status)
	}
	if e := m4.GetByte(pair.TagErrCode); e != 0 {
		return fmt.Errorf("M4 error code %d", e)
	}
	if m4.GetByte(pair.TagSequence) != pair.VerifyStepFinishResponse.Byte() {
		return fmt.Errorf("M4 sequence %d", m4.GetByte(pair.TagSequence))
	}
	p.sess, err = crypto.NewSecureClientSessionFromSharedKey(shared)
	return err
}

func (r *zzRig) verified(c *zzController) *zzPeer {
	// the M4 answer is sometimes sent encrypted (known hand-over race): retry
	for i := 0; i < 20; i++ {
		p := r.dial()
		if err := p.verify(c, "", nil); err == nil {
			return p
		} else if !strings.Contains(err.Error(), "malformed") {
			r.t.Logf("verify: %v", err)
		}
		p.c.Close()
	}
	r.t.Fatal("could not verify")
	return nil
}

func zzPut(aid, iid uint64, val interface{}, ev interface{}) []byte {
	s := fmt.Sprintf(`{"characteristics":[{"aid":%d,"iid":%d`, aid, iid)
	if val != nil {
		s += fmt.Sprintf(`,"value":%v`, val)
	}
	if ev != nil {
		s += fmt.Sprintf(`,"ev":%v`, ev)
	}
	return []byte(s + "}]}")
}

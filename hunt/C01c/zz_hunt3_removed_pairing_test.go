package hc

import (
	"bytes"
	"sync/atomic"
	"testing"
	"time"

	"github.com/brutella/hc/hap/pair"
	"github.com/brutella/hc/util"
)

// C01, clause "A connection that has not completed pair-verify with a
// controller key stored on the accessory is refused every protected operation"
// (and "discloses no attribute or value and changes nothing").
//
// History: controller "guest" is paired and verifies a connection; the admin,
// on another connection, removes the pairing of "guest" (POST /pairings,
// method 4, answered with success; the entity is gone from the store). From
// here on "guest" is a peer without a paired long-term key, and the key its
// connection was verified with is not stored on the accessory. The connection
// it opened earlier is nevertheless served like before: it reads, writes,
// receives events and - the part that makes the removal void - adds a pairing
// for itself again.
func TestZZHunt3RemovedPairingKeepsItsConnection(t *testing.T) {
	r := zzStart(t, "", nil)
	defer r.stop()
	admin := zzNewController(t, "admin")
	guest := zzNewController(t, "guest")
	r.pairDirect(admin)
	r.pairDirect(guest)
	onID := r.acc.Switch.On.ID

	var remote int32
	r.acc.Switch.On.OnValueRemoteUpdate(func(bool) { atomic.AddInt32(&remote, 1) })

	g := r.verified(guest)
	defer g.c.Close()
	if x, _ := g.enc("PUT", "/characteristics", "application/hap+json", zzPut(1, onID, nil, "true")); x.status != 204 {
		t.Fatalf("rig: guest subscribe: %v", x)
	}

	a := r.verified(admin)
	defer a.c.Close()
	rm := util.NewTLV8Container()
	rm.SetByte(pair.TagSequence, 1)
	rm.SetByte(pair.TagPairingMethod, pair.PairingMethodDelete.Byte())
	rm.SetString(pair.TagUsername, "guest")
	if x, _ := a.enc("POST", "/pairings", "application/pairing+tlv8", rm.BytesBuffer().Bytes()); x.status != 200 {
		t.Fatalf("rig: remove pairing: %v", x)
	}
	if _, err := r.tr.database.EntityWithName("guest"); err == nil {
		t.Fatal("rig: guest is still stored")
	}
	// a new connection of guest is refused, as it should be
	if p := r.dial(); p.verify(guest, "", nil) == nil {
		t.Fatal("rig: removed controller can still verify")
	} else {
		p.c.Close()
	}
	time.Sleep(50 * time.Millisecond)

	// 1. events
	r.acc.Switch.On.SetValue(true)
	if ev := g.readMsg("GET", 300*time.Millisecond); ev.err == nil {
		t.Errorf("removed controller received %s %d %q", ev.proto, ev.status, ev.body)
	}
	if g.dec.Len() > 0 { // drop partial state between the steps
		g.dec.Reset()
	}

	// 2. read
	x, _ := g.enc("GET", "/accessories", "", nil)
	if x.err == nil && (x.status == 200 || bytes.Contains(x.body, []byte("CANARY-SERIAL-7731"))) {
		t.Errorf("removed controller listed the accessories: %d, canary disclosed: %v", x.status, bytes.Contains(x.body, []byte("CANARY-SERIAL-7731")))
	}

	// 3. write
	x, _ = g.enc("PUT", "/characteristics", "application/hap+json", zzPut(1, onID, "false", nil))
	if r.acc.Switch.On.GetValue() != true || atomic.LoadInt32(&remote) != 0 {
		t.Errorf("removed controller wrote the characteristic (answer %v): value %v, remote-update callbacks %d", x, r.acc.Switch.On.GetValue(), remote)
	}

	// 4. pairs itself again
	add := util.NewTLV8Container()
	add.SetByte(pair.TagSequence, 1)
	add.SetByte(pair.TagPairingMethod, pair.PairingMethodAdd.Byte())
	add.SetString(pair.TagUsername, "guest")
	add.SetBytes(pair.TagPublicKey, guest.dev.PublicKey())
	add.SetByte(pair.TagPermission, 1)
	x, _ = g.enc("POST", "/pairings", "application/pairing+tlv8", add.BytesBuffer().Bytes())
	if _, err := r.tr.database.EntityWithName("guest"); err == nil {
		t.Errorf("removed controller stored a pairing for itself again (answer %v)", x)
		if p := r.dial(); p.verify(guest, "", nil) == nil {
			t.Errorf("... and verifies new connections with it")
			p.c.Close()
		}
	}
}

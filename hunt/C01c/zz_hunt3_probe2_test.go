package hc

import (
	"net"
	"sync/atomic"
	"testing"
	"time"
)

// probe: attacker pipelines a slow unauthenticated request and a protected write,
// resets its connection, and the legit controller reuses the very same 4-tuple
// and verifies while the slow handler still runs.
func TestZZProbeTupleTakeover(t *testing.T) {
	r := zzStart(t, "", nil)
	defer r.stop()
	admin := zzNewController(t, "admin")
	r.pairDirect(admin)
	onID := r.acc.Switch.On.ID
	var remote int32
	r.acc.Switch.On.OnValueRemoteUpdate(func(bool) { atomic.AddInt32(&remote, 1) })
	entered := make(chan struct{}, 4)
	release := make(chan struct{})
	r.acc.Accessory.OnIdentify(func() { entered <- struct{}{}; <-release })

	a := r.dial()
	local := a.c.LocalAddr().String()
	req := append(zzBuildReq("POST", "/identify", "", nil), zzBuildReq("PUT", "/characteristics", "application/hap+json", zzPut(1, onID, "true", nil))...)
	a.c.Write(req)
	<-entered
	a.c.(*net.TCPConn).SetLinger(0)
	a.c.Close()
	time.Sleep(50 * time.Millisecond)

	var legit *zzPeer
	for i := 0; i < 50; i++ {
		p, err := r.dialFrom(local)
		if err != nil {
			t.Logf("dialFrom: %v", err)
			time.Sleep(20 * time.Millisecond)
			continue
		}
		if err := p.verify(admin, "", nil); err != nil {
			t.Logf("verify: %v", err)
			p.c.(*net.TCPConn).SetLinger(0)
			p.c.Close()
			continue
		}
		legit = p
		break
	}
	if legit == nil {
		t.Fatal("no legit connection from the same tuple")
	}
	x, _ := legit.enc("GET", "/characteristics?id=1.9", "", nil)
	t.Logf("legit from %s: %v", legit.c.LocalAddr(), x)
	close(release)
	time.Sleep(300 * time.Millisecond)
	t.Logf("value=%v remote=%d", r.acc.Switch.On.GetValue(), atomic.LoadInt32(&remote))
	if r.acc.Switch.On.GetValue() || remote != 0 {
		t.Errorf("spliced write executed")
	}
	x, _ = legit.enc("GET", "/characteristics?id=1.9", "", nil)
	t.Logf("legit afterwards: %v", x)
}

package http

import (
	"bufio"
	"bytes"
	"context"
	"fmt"
	"io/ioutil"
	"net"
	gohttp "net/http"
	"strings"
	"sync"
	"sync/atomic"
	"testing"
	"time"

	"github.com/brutella/hc/accessory"
	"github.com/brutella/hc/crypto"
	"github.com/brutella/hc/crypto/chacha20poly1305"
	"github.com/brutella/hc/crypto/curve25519"
	"github.com/brutella/hc/crypto/hkdf"
	"github.com/brutella/hc/db"
	"github.com/brutella/hc/event"
	"github.com/brutella/hc/hap"
	"github.com/brutella/hc/hap/pair"
	"github.com/brutella/hc/util"
)

// The library's own server (hap/http.Server, endpoint.PairVerify, hap.Connection), nothing
// injected. A paired controller verifies over real TCP on loopback and sends its first
// encrypted request as soon as it has M4. The request is one well-formed frame.
func TestZZFirstEncryptedRequestAfterVerify(t *testing.T) {
	database, err := db.NewTempDatabase()
	if err != nil {
		t.Fatal(err)
	}
	bridge, err := hap.NewSecuredDevice("Bridge", "001-02-003", database)
	if err != nil {
		t.Fatal(err)
	}
	clientDB, _ := db.NewTempDatabase()
	client, err := hap.NewDevice("Controller", clientDB)
	if err != nil {
		t.Fatal(err)
	}
	if err := database.SaveEntity(db.NewEntity(client.Name(), client.PublicKey(), nil)); err != nil {
		t.Fatal(err)
	}
	hapCtx := hap.NewContextForSecuredDevice(bridge)
	container := accessory.NewContainer()
	container.AddAccessory(accessory.New(accessory.Info{Name: "A"}, accessory.TypeOther))
	s := NewServer(Config{
		Port:      "127.0.0.1:0",
		Context:   hapCtx,
		Database:  database,
		Container: container,
		Device:    bridge,
		Mutex:     &sync.Mutex{},
		Emitter:   event.NewEmitter(),
	})
	ctx, cancel := context.WithCancel(context.Background())
	defer cancel()
	go s.ListenAndServe(ctx)
	addr := s.listener.Addr().String()

	post := func(c net.Conn, br *bufio.Reader, body []byte) (util.Container, error) {
		fmt.Fprintf(c, "POST /pair-verify HTTP/1.1\r\nHost: x\r\nContent-Type: application/pairing+tlv8\r\nContent-Length: %d\r\n\r\n%s", len(body), body)
		c.SetReadDeadline(time.Now().Add(2 * time.Second))
		resp, err := gohttp.ReadResponse(br, nil)
		if err != nil {
			return nil, err
		}
		b, err := ioutil.ReadAll(resp.Body)
		if err != nil {
			return nil, err
		}
		return util.NewTLV8ContainerFromReader(bytes.NewReader(b))
	}

	var total, setupFailed, unanswered int32
	one := func() {
		c, err := net.Dial("tcp", addr)
		if err != nil {
			atomic.AddInt32(&setupFailed, 1)
			return
		}
		defer c.Close()
		br := bufio.NewReader(c)

		priv := curve25519.GeneratePrivateKey()
		pub := curve25519.PublicKey(priv)
		m1 := util.NewTLV8Container()
		m1.SetByte(pair.TagPairingMethod, 0)
		m1.SetByte(pair.TagSequence, pair.VerifyStepStartRequest.Byte())
		m1.SetBytes(pair.TagPublicKey, pub[:])
		m2, err := post(c, br, m1.BytesBuffer().Bytes())
		if err != nil || len(m2.GetBytes(pair.TagPublicKey)) != 32 {
			atomic.AddInt32(&setupFailed, 1)
			return
		}
		var other [32]byte
		copy(other[:], m2.GetBytes(pair.TagPublicKey))
		shared := curve25519.SharedSecret(priv, other)
		encKey, _ := hkdf.Sha512(shared[:], []byte("Pair-Verify-Encrypt-Salt"), []byte("Pair-Verify-Encrypt-Info"))

		var material []byte
		material = append(material, pub[:]...)
		material = append(material, client.Name()...)
		material = append(material, other[:]...)
		sig, _ := crypto.ED25519Signature(client.PrivateKey(), material)
		sub := util.NewTLV8Container()
		sub.SetString(pair.TagUsername, client.Name())
		sub.SetBytes(pair.TagSignature, sig)
		enc, mac, _ := chacha20poly1305.EncryptAndSeal(encKey[:], []byte("PV-Msg03"), sub.BytesBuffer().Bytes(), nil)
		m3 := util.NewTLV8Container()
		m3.SetByte(pair.TagSequence, pair.VerifyStepFinishRequest.Byte())
		m3.SetBytes(pair.TagEncryptedData, append(enc, mac[:]...))

		// everything for the first encrypted request is prepared before M3 goes out
		sess, _ := crypto.NewSecureClientSessionFromSharedKey(shared)
		e, _ := sess.Encrypt(strings.NewReader("GET /accessories HTTP/1.1\r\nHost: x\r\n\r\n"))
		frame, _ := ioutil.ReadAll(e)

		m4, err := post(c, br, m3.BytesBuffer().Bytes())
		if err != nil || m4.GetByte(pair.TagSequence) != pair.VerifyStepFinishResponse.Byte() || m4.GetByte(pair.TagErrCode) != 0 {
			atomic.AddInt32(&setupFailed, 1) // not what is counted here
			return
		}
		atomic.AddInt32(&total, 1)
		c.Write(frame)

		c.SetReadDeadline(time.Now().Add(1 * time.Second))
		var answer []byte
		buf := make([]byte, 8192)
		for {
			n, err := br.Read(buf)
			answer = append(answer, buf[:n]...)
			if len(answer) > 0 {
				// the answer is a few frames; try to decrypt what is there with a fresh copy of the session
				probe, _ := crypto.NewSecureClientSessionFromSharedKey(shared)
				if d, derr := probe.Decrypt(bytes.NewReader(answer)); derr == nil {
					b, _ := ioutil.ReadAll(d)
					if bytes.Contains(b, []byte("200 OK")) && bytes.Contains(b, []byte("accessories")) {
						return
					}
				}
			}
			if err != nil {
				break
			}
		}
		atomic.AddInt32(&unanswered, 1)
	}

	var wg sync.WaitGroup
	for w := 0; w < 4; w++ {
		wg.Add(1)
		go func() {
			defer wg.Done()
			for i := 0; i < 150; i++ {
				one()
			}
		}()
	}
	wg.Wait()
	t.Logf("%d verified connections (%d others failed before that and are not counted), %d got no answer to GET /accessories", total, setupFailed, unanswered)
	if total == 0 {
		t.Fatal("harness problem: no connection was verified")
	}
	if unanswered > 0 {
		t.Fatalf("%d of %d verified connections: the first encrypted request, one well-formed frame, was not delivered to the HTTP server", unanswered, total)
	}
}

package hap

import (
	"bytes"
	"fmt"
	"io"
	"io/ioutil"
	"math/rand"
	"net"
	"testing"
	"time"

	"github.com/brutella/hc/crypto"
)

type zzAddr string

func (a zzAddr) Network() string { return "tcp" }
func (a zzAddr) String() string  { return string(a) }

type zzTimeout struct{}

func (zzTimeout) Error() string   { return "i/o timeout" }
func (zzTimeout) Timeout() bool   { return true }
func (zzTimeout) Temporary() bool { return true }

// scripted connection: each element of script is a segment; nil element = a read time-out
type zzConn struct {
	script    [][]byte
	delivered int // bytes handed to the reader so far
	closed    bool
	written   bytes.Buffer
	name      string
}

func (c *zzConn) Read(p []byte) (int, error) {
	if c.closed {
		return 0, fmt.Errorf("use of closed connection")
	}
	if len(c.script) == 0 {
		return 0, zzTimeout{} // idle, peer still connected
	}
	s := c.script[0]
	if s == nil {
		c.script = c.script[1:]
		return 0, zzTimeout{}
	}
	n := copy(p, s)
	if n == len(s) {
		c.script = c.script[1:]
	} else {
		c.script[0] = s[n:]
	}
	c.delivered += n
	return n, nil
}
func (c *zzConn) Write(p []byte) (int, error)        { return c.written.Write(p) }
func (c *zzConn) Close() error                       { c.closed = true; return nil }
func (c *zzConn) LocalAddr() net.Addr                { return zzAddr("127.0.0.1:1" + c.name) }
func (c *zzConn) RemoteAddr() net.Addr               { return zzAddr("127.0.0.1:2" + c.name) }
func (c *zzConn) SetDeadline(t time.Time) error      { return nil }
func (c *zzConn) SetReadDeadline(t time.Time) error  { return nil }
func (c *zzConn) SetWriteDeadline(t time.Time) error { return nil }

func zzPair(t testing.TB) (server crypto.Cryptographer, client crypto.Cryptographer) {
	var key [32]byte
	for i := range key {
		key[i] = byte(i * 7)
	}
	s, err := crypto.NewSecureSessionFromSharedKey(key)
	if err != nil {
		t.Fatal(err)
	}
	c, err := crypto.NewSecureClientSessionFromSharedKey(key)
	if err != nil {
		t.Fatal(err)
	}
	return s, c
}

func zzMsg(n int, seed int) []byte {
	b := make([]byte, n)
	for i := range b {
		b[i] = byte((i*31 + seed*17 + i/251) % 251)
	}
	return b
}

// returns ciphertext stream, plaintext concat, and frame end offsets (cipher offset -> cumulative plain)
func zzEncrypt(t testing.TB, client crypto.Cryptographer, msgs [][]byte) (cipher []byte, plain []byte, ends [][2]int) {
	for _, m := range msgs {
		r, err := client.Encrypt(bytes.NewReader(m))
		if err != nil {
			t.Fatal(err)
		}
		b, _ := ioutil.ReadAll(r)
		// walk frames
		off := 0
		for off < len(b) {
			l := int(b[off]) | int(b[off+1])<<8
			off += 2 + l + 16
			plain = append(plain, m[:l]...)
			m = m[l:]
			ends = append(ends, [2]int{len(cipher) + off, len(plain)})
		}
		cipher = append(cipher, b...)
	}
	return
}

// available plaintext given delivered ciphertext bytes
func zzAvail(ends [][2]int, delivered int) int {
	a := 0
	for _, e := range ends {
		if e[0] <= delivered {
			a = e[1]
		}
	}
	return a
}

// run drives Connection.Read with the buffer sizes and checks the property. returns error description or "".
func zzRun(t testing.TB, msgs [][]byte, segs func(cipher []byte) [][]byte, bufsizes func(i int) int) string {
	srv, cli := zzPair(t)
	cipher, plain, ends := zzEncrypt(t, cli, msgs)
	raw := &zzConn{script: segs(cipher)}
	ctx := NewContextForSecuredDevice(nil)
	con := NewConnection(raw, ctx)
	ctx.GetSessionForConnection(raw).SetCryptographer(srv)

	var got []byte
	idle := 0
	for i := 0; i < 200000; i++ {
		bs := bufsizes(i)
		buf := make([]byte, bs)
		before := raw.delivered
		_ = before
		n, err := con.Read(buf)
		got = append(got, buf[:n]...)
		if !bytes.Equal(got, plain[:len(got)]) {
			return fmt.Sprintf("read %d: data mismatch at %d bytes", i, len(got))
		}
		if len(got) > len(plain) {
			return "more data than sent"
		}
		if err != nil {
			if ne, ok := err.(net.Error); ok && ne.Timeout() {
				// a time-out is only acceptable if no undelivered complete frame had arrived before this call's wait
				if n == 0 && bs > 0 && zzAvail(ends, raw.delivered) > len(got) {
					return fmt.Sprintf("read %d: time-out although a complete frame is available (delivered %d cipher bytes, avail %d, got %d)", i, raw.delivered, zzAvail(ends, raw.delivered), len(got))
				}
				if len(raw.script) == 0 {
					idle++
					if idle > 3 {
						break
					}
				}
				continue
			}
			return fmt.Sprintf("read %d: error %v (n=%d) after %d/%d bytes", i, err, n, len(got), len(plain))
		}
		if n == 0 && bs > 0 {
			return fmt.Sprintf("read %d: (0,nil)", i)
		}
		if len(got) == len(plain) && len(raw.script) == 0 {
			// one more read must be an idle time-out
			n, err := con.Read(make([]byte, 10))
			if n != 0 {
				return "extra data"
			}
			if ne, ok := err.(net.Error); !ok || !ne.Timeout() {
				return fmt.Sprintf("after all data: %v", err)
			}
			break
		}
	}
	if !bytes.Equal(got, plain) {
		return fmt.Sprintf("got %d bytes of %d", len(got), len(plain))
	}
	if raw.closed {
		return "connection was closed"
	}
	return ""
}

func zzWhole(c []byte) [][]byte { return [][]byte{c} }
func zzChunks(k int, timeouts bool) func(c []byte) [][]byte {
	return func(c []byte) [][]byte {
		var out [][]byte
		for len(c) > 0 {
			n := k
			if n > len(c) {
				n = len(c)
			}
			out = append(out, c[:n])
			if timeouts {
				out = append(out, nil)
			}
			c = c[n:]
		}
		return out
	}
}
func zzSplitAt(off int, timeout bool) func(c []byte) [][]byte {
	return func(c []byte) [][]byte {
		if off <= 0 || off >= len(c) {
			return [][]byte{c}
		}
		if timeout {
			return [][]byte{c[:off], nil, c[off:]}
		}
		return [][]byte{c[:off], c[off:]}
	}
}

var zzLens = []int{0, 1, 2, 15, 16, 17, 18, 1022, 1023, 1024, 1025, 1026, 2047, 2048, 2049, 3072, 4095, 4096, 4097, 5120, 8192}
var zzBufs = []int{1, 2, 3, 16, 1023, 1024, 1025, 1042, 2048, 4096, 4097, 10000}

func TestZZSingleMessageAllSplits(t *testing.T) {
	for _, l := range []int{1, 1023, 1024, 1025, 2048} {
		for _, bs := range []int{7, 1024, 4096} {
			bs := bs
			clen := l + (l+1023)/1024*18
			for off := 0; off <= clen; off++ {
				for _, to := range []bool{false, true} {
					if r := zzRun(t, [][]byte{zzMsg(l, 1)}, zzSplitAt(off, to), func(int) int { return bs }); r != "" {
						t.Fatalf("len %d buf %d split %d timeout %v: %s", l, bs, off, to, r)
					}
				}
			}
		}
	}
}

func TestZZSequences(t *testing.T) {
	short := []int{0, 1, 17, 1023, 1024, 1025, 2048, 4096}
	for _, a := range short {
		for _, b := range short {
			for _, c := range []int{0, 1024} {
				msgs := [][]byte{zzMsg(a, 1), zzMsg(b, 2), zzMsg(c, 3)}
				for _, bs := range zzBufs {
					bs := bs
					for _, seg := range []func([]byte) [][]byte{zzWhole, zzChunks(1, false), zzChunks(1, true), zzChunks(1042, true), zzChunks(1041, false), zzChunks(1043, true), zzChunks(4096, false), zzChunks(4097, true), zzChunks(500, true)} {
						if a+b+c > 3000 && bs < 16 {
							continue
						}
						if r := zzRun(t, msgs, seg, func(int) int { return bs }); r != "" {
							t.Fatalf("lens %d,%d,%d buf %d: %s", a, b, c, bs, r)
						}
					}
				}
			}
		}
	}
}

func TestZZRandom(t *testing.T) {
	rnd := rand.New(rand.NewSource(42))
	for iter := 0; iter < 1500; iter++ {
		var msgs [][]byte
		k := 1 + rnd.Intn(6)
		for i := 0; i < k; i++ {
			l := zzLens[rnd.Intn(len(zzLens))]
			if rnd.Intn(3) == 0 {
				l = rnd.Intn(3000)
			}
			msgs = append(msgs, zzMsg(l, i))
		}
		seed := rnd.Int63()
		seg := func(c []byte) [][]byte {
			r := rand.New(rand.NewSource(seed))
			var out [][]byte
			for len(c) > 0 {
				var n int
				switch r.Intn(4) {
				case 0:
					n = 1 + r.Intn(3)
				case 1:
					n = 1 + r.Intn(1100)
				case 2:
					n = 1 + r.Intn(6000)
				default:
					n = 1040 + r.Intn(5)
				}
				if n > len(c) {
					n = len(c)
				}
				out = append(out, c[:n])
				for r.Intn(3) == 0 {
					out = append(out, nil)
				}
				c = c[n:]
			}
			return out
		}
		br := rand.New(rand.NewSource(seed + 1))
		bufs := func(int) int {
			switch br.Intn(4) {
			case 0:
				return br.Intn(4) // includes 0
			case 1:
				return 1020 + br.Intn(10)
			case 2:
				return 1 + br.Intn(9000)
			default:
				return zzBufs[br.Intn(len(zzBufs))]
			}
		}
		if r := zzRun(t, msgs, seg, bufs); r != "" {
			var ls []int
			for _, m := range msgs {
				ls = append(ls, len(m))
			}
			t.Fatalf("iter %d lens %v: %s", iter, ls, r)
		}
	}
}

var _ = io.EOF

package hap

import (
	"bytes"
	"io/ioutil"
	"math/rand"
	"net"
	"testing"
	"time"
)

// Real TCP, real deadlines: the reader aborts pending reads with a deadline in the past
// (as net/http does) at random moments while the peer dribbles frames in random pieces.
func TestZZTCPAbortedReads(t *testing.T) {
	rnd := rand.New(rand.NewSource(7))
	for iter := 0; iter < 30; iter++ {
		srvCrypt, cliCrypt := zzPair(t)
		raw, client := zzTCPPair(t)
		ctx := NewContextForSecuredDevice(nil)
		con := NewConnection(raw, ctx)
		ctx.GetSessionForConnection(raw).SetCryptographer(srvCrypt)

		var msgs [][]byte
		for i := 0; i < 5; i++ {
			msgs = append(msgs, zzMsg(zzLens[rnd.Intn(len(zzLens))], i))
		}
		var cipher, plain []byte
		for _, m := range msgs {
			e, _ := cliCrypt.Encrypt(bytes.NewReader(m))
			b, _ := ioutil.ReadAll(e)
			cipher = append(cipher, b...)
			plain = append(plain, m...)
		}
		seed := rnd.Int63()
		go func() {
			r := rand.New(rand.NewSource(seed))
			c := cipher
			for len(c) > 0 {
				n := 1 + r.Intn(1500)
				if n > len(c) {
					n = len(c)
				}
				client.Write(c[:n])
				c = c[n:]
				if r.Intn(2) == 0 {
					time.Sleep(time.Duration(r.Intn(3)) * time.Millisecond)
				}
			}
		}()
		var got []byte
		deadline := time.Now().Add(5 * time.Second)
		for len(got) < len(plain) && time.Now().Before(deadline) {
			switch rnd.Intn(3) {
			case 0:
				con.SetReadDeadline(time.Unix(1, 0)) // aborted at once
			case 1:
				con.SetReadDeadline(time.Now().Add(time.Duration(rnd.Intn(2000)) * time.Microsecond))
			default:
				con.SetReadDeadline(time.Now().Add(50 * time.Millisecond))
			}
			buf := make([]byte, 1+rnd.Intn(3000))
			if rnd.Intn(4) == 0 {
				buf = buf[:1]
			}
			n, err := con.Read(buf)
			got = append(got, buf[:n]...)
			if err != nil {
				if ne, ok := err.(net.Error); ok && ne.Timeout() {
					continue
				}
				t.Fatalf("iter %d: %v after %d of %d bytes", iter, err, len(got), len(plain))
			}
		}
		if !bytes.Equal(got, plain) {
			t.Fatalf("iter %d: got %d bytes, want %d, equal prefix %v", iter, len(got), len(plain), bytes.HasPrefix(plain, got))
		}
		client.Close()
		con.Close()
	}
}

// The peer sends its frames and closes: everything sent must still be delivered before EOF.
func TestZZTCPDataThenClose(t *testing.T) {
	for _, l := range []int{1, 1024, 2048, 5000} {
		srvCrypt, cliCrypt := zzPair(t)
		raw, client := zzTCPPair(t)
		ctx := NewContextForSecuredDevice(nil)
		con := NewConnection(raw, ctx)
		ctx.GetSessionForConnection(raw).SetCryptographer(srvCrypt)
		plain := zzMsg(l, 9)
		e, _ := cliCrypt.Encrypt(bytes.NewReader(plain))
		b, _ := ioutil.ReadAll(e)
		client.Write(b)
		client.Close()
		time.Sleep(20 * time.Millisecond)
		got, err := ioutil.ReadAll(con)
		if err != nil || !bytes.Equal(got, plain) {
			t.Fatalf("len %d: got %d bytes, err %v", l, len(got), err)
		}
	}
}

package hap

import (
	"bufio"
	"bytes"
	"io/ioutil"
	"net"
	"net/http"
	"strings"
	"testing"
	"time"
)

func zzTCPPair(t *testing.T) (server net.Conn, client net.Conn) {
	ln, err := net.Listen("tcp", "127.0.0.1:0")
	if err != nil {
		t.Fatal(err)
	}
	defer ln.Close()
	ch := make(chan net.Conn, 1)
	go func() {
		c, _ := ln.Accept()
		ch <- c
	}()
	client, err = net.Dial("tcp", ln.Addr().String())
	if err != nil {
		t.Fatal(err)
	}
	return <-ch, client
}

// A Read that was started while the connection was still unencrypted (net/http keeps
// such a 1-byte background read pending while the pair-verify handler runs) and that
// returns after the session has been switched to encryption.
func TestZZReadPendingAcrossSwitch(t *testing.T) {
	srvCrypt, cliCrypt := zzPair(t)
	raw, client := zzTCPPair(t)
	defer client.Close()
	ctx := NewContextForSecuredDevice(nil)
	con := NewConnection(raw, ctx)
	defer con.Close()

	type res struct {
		b   []byte
		err error
	}
	pending := make(chan res, 1)
	go func() {
		var one [1]byte
		n, err := con.Read(one[:]) // like net/http's connReader.backgroundRead
		pending <- res{one[:n], err}
	}()
	time.Sleep(50 * time.Millisecond) // the read is blocked in the socket now

	// pair-verify M3 handled: the session gets its cryptographer, M4 goes out in the clear
	ctx.GetSessionForConnection(raw).SetCryptographer(srvCrypt)
	con.Write([]byte("M4"))
	var m4 [2]byte
	client.Read(m4[:])

	// the controller has M4 and sends its first encrypted request
	plain := []byte("GET /accessories HTTP/1.1\r\nHost: x\r\n\r\n")
	enc, _ := cliCrypt.Encrypt(bytes.NewReader(plain))
	frame, _ := ioutil.ReadAll(enc)
	client.Write(frame)

	var got []byte
	r := <-pending
	got = append(got, r.b...)
	if r.err != nil {
		t.Fatalf("pending read: %v", r.err)
	}
	for len(got) < len(plain) {
		buf := make([]byte, 4096)
		con.SetReadDeadline(time.Now().Add(300 * time.Millisecond))
		n, err := con.Read(buf)
		got = append(got, buf[:n]...)
		if err != nil {
			t.Logf("read error: %v", err)
			break
		}
	}
	if !bytes.Equal(got, plain) {
		t.Fatalf("peer sent one well-formed frame with %q,\nreads delivered %q (first frame byte is %#x)", plain, got, frame[0])
	}
}

type zzSlowWriteConn struct {
	net.Conn
}

// the goroutine that wrote is descheduled for a moment after the write system call
func (c zzSlowWriteConn) Read(p []byte) (int, error) {
	if zzTrace != nil {
		zzTrace("raw Read(len %d) starts", len(p))
	}
	n, err := c.Conn.Read(p)
	if zzTrace != nil {
		zzTrace("raw Read(len %d) = %d, %v", len(p), n, err)
	}
	return n, err
}

var zzTrace func(string, ...interface{})

func (c zzSlowWriteConn) Write(p []byte) (int, error) {
	if zzTrace != nil {
		zzTrace("raw Write(%d)", len(p))
	}
	n, err := c.Conn.Write(p)
	time.Sleep(100 * time.Millisecond)
	return n, err
}

type zzListener struct {
	net.Listener
	ctx Context
}

func (l zzListener) Accept() (net.Conn, error) {
	c, err := l.Listener.Accept()
	if err != nil {
		return nil, err
	}
	return NewConnection(zzSlowWriteConn{c}, l.ctx), nil
}

// End to end through net/http as hap/http.Server uses it (http.Server.Serve on a listener
// whose Accept returns hap.NewConnection).
func TestZZSwitchThroughNetHTTP(t *testing.T) {
	srvCrypt, cliCrypt := zzPair(t)
	zzTrace = t.Logf
	defer func() { zzTrace = nil }()
	ctx := NewContextForSecuredDevice(nil)
	ln, err := net.Listen("tcp", "127.0.0.1:0")
	if err != nil {
		t.Fatal(err)
	}
	mux := http.NewServeMux()
	mux.HandleFunc("/pair-verify", func(w http.ResponseWriter, r *http.Request) {
		ioutil.ReadAll(r.Body)
		time.Sleep(20 * time.Millisecond) // the signature checks of pair.VerifyServerController.Handle
		w.Write([]byte("M4"))
		ctx.GetSessionForRequest(r).SetCryptographer(srvCrypt) // as endpoint.PairVerify does
	})
	mux.HandleFunc("/accessories", func(w http.ResponseWriter, r *http.Request) {
		w.Write([]byte("ACCESSORIES"))
	})
	server := &http.Server{Handler: mux}
	go server.Serve(zzListener{ln, ctx})
	defer server.Close()

	client, err := net.Dial("tcp", ln.Addr().String())
	if err != nil {
		t.Fatal(err)
	}
	defer client.Close()
	br := bufio.NewReader(client)

	client.Write([]byte("POST /pair-verify HTTP/1.1\r\nHost: x\r\nContent-Length: 2\r\n\r\nM3"))
	resp, err := http.ReadResponse(br, nil)
	if err != nil {
		t.Fatal(err)
	}
	body, _ := ioutil.ReadAll(resp.Body)
	if string(body) != "M4" {
		t.Fatalf("M4: %q", body)
	}

	enc, _ := cliCrypt.Encrypt(strings.NewReader("GET /accessories HTTP/1.1\r\nHost: x\r\n\r\n"))
	frame, _ := ioutil.ReadAll(enc)
	client.Write(frame)

	client.SetReadDeadline(time.Now().Add(2 * time.Second))
	var answer []byte
	buf := make([]byte, 4096)
	for {
		n, err := br.Read(buf)
		answer = append(answer, buf[:n]...)
		if err != nil {
			t.Logf("client read ended: %v", err)
			break
		}
		if dec, err := cliCrypt.Decrypt(bytes.NewReader(answer)); err == nil {
			b, _ := ioutil.ReadAll(dec)
			if strings.Contains(string(b), "ACCESSORIES") {
				return // fine
			}
			t.Fatalf("decrypted answer: %q", b)
		} else {
			t.Fatalf("answer is not a valid frame: %q", answer)
		}
	}
	t.Fatalf("no answer to a well-formed encrypted request; raw answer %q", answer)
}

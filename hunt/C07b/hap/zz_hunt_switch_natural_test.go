package hap

import (
	"bytes"
	"io/ioutil"
	"net"
	"net/http"
	"strings"
	"sync"
	"sync/atomic"
	"testing"
	"time"

	"github.com/brutella/hc/crypto"
)

type zzPlainListener struct {
	net.Listener
	ctx Context
}

func (l zzPlainListener) Accept() (net.Conn, error) {
	c, err := l.Listener.Accept()
	if err != nil {
		return nil, err
	}
	return NewConnection(c, l.ctx), nil
}

// No injected delay at all: unmodified net/http + hap.Connection on loopback, a client that
// answers M4 at once. Counts how often the first encrypted request is lost.
func TestZZSwitchNaturalRace(t *testing.T) {
	ctx := NewContextForSecuredDevice(nil)
	ln, err := net.Listen("tcp", "127.0.0.1:0")
	if err != nil {
		t.Fatal(err)
	}
	var key [32]byte
	mux := http.NewServeMux()
	mux.HandleFunc("/pair-verify", func(w http.ResponseWriter, r *http.Request) {
		ioutil.ReadAll(r.Body)
		time.Sleep(2 * time.Millisecond) // signature checks
		w.Write([]byte("M4"))
		s, _ := crypto.NewSecureSessionFromSharedKey(key)
		ctx.GetSessionForRequest(r).SetCryptographer(s)
	})
	mux.HandleFunc("/accessories", func(w http.ResponseWriter, r *http.Request) {
		w.Write([]byte("ACCESSORIES"))
	})
	server := &http.Server{Handler: mux}
	go server.Serve(zzPlainListener{ln, ctx})
	defer server.Close()

	var failures, total, noM4 int32
	var wg sync.WaitGroup
	for w := 0; w < 8; w++ {
		wg.Add(1)
		go func() {
			defer wg.Done()
			for i := 0; i < 400; i++ {
				cli, _ := crypto.NewSecureClientSessionFromSharedKey(key)
				enc, _ := cli.Encrypt(strings.NewReader("GET /accessories HTTP/1.1\r\nHost: x\r\n\r\n"))
				frame, _ := ioutil.ReadAll(enc)
				c, err := net.Dial("tcp", ln.Addr().String())
				if err != nil {
					continue
				}
				atomic.AddInt32(&total, 1)
				c.Write([]byte("POST /pair-verify HTTP/1.1\r\nHost: x\r\nContent-Length: 2\r\n\r\nM3"))
				buf := make([]byte, 4096)
				var resp []byte
				c.SetReadDeadline(time.Now().Add(500 * time.Millisecond))
				for !bytes.HasSuffix(resp, []byte("\r\n\r\nM4")) {
					n, err := c.Read(buf)
					if err != nil {
						break
					}
					resp = append(resp, buf[:n]...)
				}
				if !bytes.HasSuffix(resp, []byte("\r\n\r\nM4")) {
					// a different matter (the answer to M3 itself did not arrive in the clear): not counted
					atomic.AddInt32(&noM4, 1)
					c.Close()
					continue
				}
				c.Write(frame)
				c.SetReadDeadline(time.Now().Add(500 * time.Millisecond))
				n, _ := c.Read(buf)
				ok := false
				if dec, err := cli.Decrypt(bytes.NewReader(buf[:n])); err == nil {
					b, _ := ioutil.ReadAll(dec)
					ok = strings.Contains(string(b), "ACCESSORIES")
				}
				if !ok {
					atomic.AddInt32(&failures, 1)
				}
				c.Close()
			}
		}()
	}
	wg.Wait()
	t.Logf("%d connections, %d without a clear-text M4 (not counted), %d with the first encrypted request unanswered", total, noM4, failures)
	if failures > 0 {
		t.Fatalf("%d of %d connections: the first encrypted request after pair-verify was not answered", failures, total)
	}
}

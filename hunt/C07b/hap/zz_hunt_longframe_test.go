package hap

import (
	"bytes"
	"encoding/binary"
	"testing"

	"github.com/brutella/hc/crypto/chacha20poly1305"
	"github.com/brutella/hc/crypto/hkdf"
)

// A single authentic frame whose length field is larger than 1024 (the HAP specification
// limits frames to 1024 bytes; crypto.Encrypt never produces such a frame).
func TestZZLongFrame(t *testing.T) {
	for _, l := range []int{1025, 4078, 4079, 65535} {
		srv, _ := zzPair(t)
		var key [32]byte
		for i := range key {
			key[i] = byte(i * 7)
		}
		k, _ := hkdf.Sha512(key[:], []byte("Control-Salt"), []byte("Control-Write-Encryption-Key"))
		plain := zzMsg(l, 5)
		var nonce [8]byte
		hdr := make([]byte, 2)
		binary.LittleEndian.PutUint16(hdr, uint16(l))
		enc, mac, err := chacha20poly1305.EncryptAndSeal(k[:], nonce[:], plain, hdr)
		if err != nil {
			t.Fatal(err)
		}
		frame := append(append(append([]byte{}, hdr...), enc...), mac[:]...)

		raw := &zzConn{script: [][]byte{frame}}
		ctx := NewContextForSecuredDevice(nil)
		con := NewConnection(raw, ctx)
		ctx.GetSessionForConnection(raw).SetCryptographer(srv)
		var got []byte
		var rerr error
		for len(got) < l {
			buf := make([]byte, 4096)
			n, err := con.Read(buf)
			got = append(got, buf[:n]...)
			if err != nil {
				rerr = err
				break
			}
		}
		if !bytes.Equal(got, plain) {
			t.Errorf("frame of %d bytes: got %d bytes, error %v, connection closed %v", l, len(got), rerr, raw.closed)
		}
	}
}

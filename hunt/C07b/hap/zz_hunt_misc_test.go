package hap

import (
	"bytes"
	"io/ioutil"
	"testing"
	"time"

	"github.com/brutella/hc/crypto"
)

// A second pair-verify on a connection that is already encrypted: a read is pending
// (blocked, old key) while the new cryptographer is installed; the frames after it use the new key.
func TestZZReverifyWithPendingRead(t *testing.T) {
	srv1, cli1 := zzPair(t)
	var key2 [32]byte
	key2[0] = 99
	srv2, _ := crypto.NewSecureSessionFromSharedKey(key2)
	cli2, _ := crypto.NewSecureClientSessionFromSharedKey(key2)

	raw, client := zzTCPPair(t)
	defer client.Close()
	ctx := NewContextForSecuredDevice(nil)
	con := NewConnection(raw, ctx)
	defer con.Close()
	sess := ctx.GetSessionForConnection(raw)
	sess.SetCryptographer(srv1)

	send := func(c crypto.Cryptographer, s string) {
		e, _ := c.Encrypt(bytes.NewReader([]byte(s)))
		b, _ := ioutil.ReadAll(e)
		client.Write(b)
	}
	send(cli1, "first")
	buf := make([]byte, 100)
	n, err := con.Read(buf)
	if err != nil || string(buf[:n]) != "first" {
		t.Fatalf("%q %v", buf[:n], err)
	}
	type res struct {
		b   []byte
		err error
	}
	pending := make(chan res, 1)
	go func() {
		var one [1]byte
		n, err := con.Read(one[:])
		pending <- res{one[:n], err}
	}()
	time.Sleep(30 * time.Millisecond)
	sess.SetCryptographer(srv2)
	con.Write([]byte("M4")) // still under the old key
	rb := make([]byte, 100)
	client.SetReadDeadline(time.Now().Add(time.Second))
	n, _ = client.Read(rb)
	d, err := cli1.Decrypt(bytes.NewReader(rb[:n]))
	if err != nil {
		t.Fatalf("M4 not under old key: %v", err)
	}
	m4, _ := ioutil.ReadAll(d)
	if string(m4) != "M4" {
		t.Fatalf("M4 %q", m4)
	}
	send(cli2, "second")
	r := <-pending
	got := r.b
	if r.err != nil {
		t.Fatal(r.err)
	}
	for len(got) < 6 {
		con.SetReadDeadline(time.Now().Add(300 * time.Millisecond))
		n, err := con.Read(buf)
		got = append(got, buf[:n]...)
		if err != nil {
			t.Fatalf("%v after %q", err, got)
		}
	}
	if string(got) != "second" {
		t.Fatalf("got %q", got)
	}
}

// Two connections of one context, reads interleaved: each stream keeps its own counters and buffers.
func TestZZTwoConnectionsInterleaved(t *testing.T) {
	ctx := NewContextForSecuredDevice(nil)
	type side struct {
		con   *Connection
		plain []byte
		got   []byte
	}
	var sides []*side
	for i := 0; i < 2; i++ {
		srv, cli := zzPair(t)
		var cipher, plain []byte
		for j, l := range []int{1024, 3, 2048, 1500} {
			m := zzMsg(l, i*10+j)
			e, _ := cli.Encrypt(bytes.NewReader(m))
			b, _ := ioutil.ReadAll(e)
			cipher = append(cipher, b...)
			plain = append(plain, m...)
		}
		raw := &zzConn{script: zzChunks(700, true)(cipher), name: string(rune('a' + i))}
		con := NewConnection(raw, ctx)
		ctx.GetSessionForConnection(raw).SetCryptographer(srv)
		sides = append(sides, &side{con: con, plain: plain})
	}
	for k := 0; k < 200; k++ {
		s := sides[k%2]
		buf := make([]byte, 333)
		n, _ := s.con.Read(buf)
		s.got = append(s.got, buf[:n]...)
	}
	for i, s := range sides {
		if !bytes.Equal(s.got, s.plain) {
			t.Fatalf("connection %d: got %d of %d bytes", i, len(s.got), len(s.plain))
		}
	}
}

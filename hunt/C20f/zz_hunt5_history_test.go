package hc

import (
	"bytes"
	"fmt"
	"io/ioutil"
	"math/rand"
	"os"
	"sort"
	"strings"
	"testing"

	"github.com/brutella/hc/accessory"
	"github.com/brutella/hc/characteristic"
	"github.com/brutella/hc/event"
	"github.com/brutella/hc/hap/pair"
	"github.com/brutella/hc/service"
	"github.com/brutella/hc/util"
)

// descriptor of a structure: everything in it is structural
type chDesc struct {
	typ, format, unit, desc string
	perms                   []string
	maxLen                  int
	min, max, step          interface{}
}
type svDesc struct {
	typ             string
	hidden, primary bool
	linkPrev        bool
	chars           []chDesc
}
type acDesc struct {
	kind string // "switch","bulb","thermo","custom"
	id   uint64
	tmin, tmax, tstep float64
	svcs []svDesc
}

func (d chDesc) sig() string {
	return fmt.Sprintf("c(%q,%q,%q,%q,%v,%d,%#v,%#v,%#v)", d.typ, d.format, d.unit, d.desc, d.perms, d.maxLen, d.min, d.max, d.step)
}
func (d acDesc) sig() string {
	s := fmt.Sprintf("a(%s,%d,%v,%v,%v", d.kind, d.id, d.tmin, d.tmax, d.tstep)
	for _, sv := range d.svcs {
		s += fmt.Sprintf(",s(%q,%v,%v,%v", sv.typ, sv.hidden, sv.primary, sv.linkPrev)
		for _, c := range sv.chars {
			s += "," + c.sig()
		}
		s += ")"
	}
	return s + ")"
}

var formats = []string{characteristic.FormatBool, characteristic.FormatString, characteristic.FormatFloat, characteristic.FormatUInt8, characteristic.FormatInt32, characteristic.FormatUInt64, characteristic.FormatTLV8, characteristic.FormatData, ""}
var strs = []string{"", "value", "Value", "<a&b>", " x", "é", "23", "perms"}
var permSets = [][]string{{"pr"}, {"pw"}, {"pr", "pw"}, {"pr", "ev"}, {"pr", "pw", "ev"}, {"pw", "pr"}}

func randCh(r *rand.Rand) chDesc {
	d := chDesc{typ: strs[1+r.Intn(len(strs)-1)], format: formats[r.Intn(len(formats))], unit: strs[r.Intn(len(strs))], desc: strs[r.Intn(len(strs))], perms: permSets[r.Intn(len(permSets))]}
	if r.Intn(3) == 0 {
		d.maxLen = r.Intn(3) * 64
	}
	switch d.format {
	case characteristic.FormatFloat:
		if r.Intn(2) == 0 {
			d.min, d.max, d.step = float64(r.Intn(3))+0.5, float64(10+r.Intn(3))+0.5, 0.5
		}
	case characteristic.FormatUInt8, characteristic.FormatInt32, characteristic.FormatUInt64:
		if r.Intn(2) == 0 {
			d.min, d.max, d.step = r.Intn(3), 10+r.Intn(3), 1+r.Intn(2)
		}
	}
	return d
}

func randAc(r *rand.Rand, first bool) acDesc {
	kinds := []string{"switch", "bulb", "thermo", "custom", "custom"}
	d := acDesc{kind: kinds[r.Intn(len(kinds))]}
	if !first && r.Intn(4) == 0 {
		d.id = uint64(10 + r.Intn(5))
	}
	if d.kind == "thermo" {
		d.tmin, d.tmax, d.tstep = float64(r.Intn(3)), float64(30+r.Intn(3)), []float64{0.1, 0.5, 1}[r.Intn(3)]
	}
	if d.kind == "custom" {
		for i, n := 0, r.Intn(3); i < n; i++ {
			sv := svDesc{typ: strs[1+r.Intn(len(strs)-1)], hidden: r.Intn(4) == 0, primary: r.Intn(4) == 0, linkPrev: r.Intn(3) == 0}
			for j, m := 0, r.Intn(4); j < m; j++ {
				sv.chars = append(sv.chars, randCh(r))
			}
			d.svcs = append(d.svcs, sv)
		}
	}
	return d
}

func randVal(r *rand.Rand) interface{} {
	switch r.Intn(8) {
	case 0:
		return r.Intn(300) - 20
	case 1:
		return r.Float64() * 40
	case 2:
		return r.Intn(2) == 0
	case 3:
		return strs[r.Intn(len(strs))]
	case 4:
		return map[string]interface{}{"value": 1, "iid": r.Intn(5), "x": []interface{}{map[string]interface{}{"value": r.Intn(3)}}}
	case 5:
		return []interface{}{r.Intn(3), "value"}
	case 6:
		return fmt.Sprintf("%d", r.Intn(1000))
	}
	return nil
}

// build makes fresh objects for a descriptor and gives every characteristic a random value
func build(r *rand.Rand, d acDesc, idx int) *accessory.Accessory {
	info := accessory.Info{Name: "Acc", ID: d.id}
	if idx > 0 {
		info.Name = []string{"x", "y", "another name"}[r.Intn(3)] // a value
		info.SerialNumber = fmt.Sprint(r.Intn(100))
	}
	var a *accessory.Accessory
	switch d.kind {
	case "switch":
		a = accessory.NewSwitch(info).Accessory
	case "bulb":
		a = accessory.NewLightbulb(info).Accessory
	case "thermo":
		a = accessory.NewThermostat(info, d.tmin+r.Float64()*(d.tmax-d.tmin), d.tmin, d.tmax, d.tstep).Accessory
	default:
		a = accessory.New(info, accessory.TypeOther)
		var prev *service.Service
		for _, sd := range d.svcs {
			s := service.New(sd.typ)
			s.Hidden, s.Primary = sd.hidden, sd.primary
			for _, cd := range sd.chars {
				c := characteristic.NewCharacteristic(cd.typ)
				c.Format, c.Unit, c.Description, c.Perms, c.MaxLen = cd.format, cd.unit, cd.desc, cd.perms, cd.maxLen
				c.MinValue, c.MaxValue, c.StepValue = cd.min, cd.max, cd.step
				s.AddCharacteristic(c)
			}
			if sd.linkPrev && prev != nil {
				s.AddLinkedService(prev)
			}
			a.AddService(s)
			prev = s
		}
	}
	for _, s := range a.Services {
		for _, c := range s.Characteristics {
			if c.Type == characteristic.TypeName && idx == 0 {
				continue
			}
			for k := r.Intn(3); k > 0; k-- {
				setVal(r, c)
			}
		}
	}
	return a
}

func setVal(r *rand.Rand, c *characteristic.Characteristic) {
	v := randVal(r)
	if v == nil {
		return
	}
	switch v.(type) {
	case map[string]interface{}, []interface{}:
		// the library compares old and new value with ==
		switch c.Value.(type) {
		case map[string]interface{}, []interface{}:
			return
		}
	}
	c.UpdateValue(v)
}

type model struct {
	started bool
	id      string
	pub, priv []byte
	pairings map[string][]byte
	version int64
	sig     string
}

func TestZZHistoryDifferential(t *testing.T) {
	for seed := int64(1); seed <= 60; seed++ {
		runHistory(t, seed, 120)
		if t.Failed() {
			return
		}
	}
}

func runHistory(t *testing.T, seed int64, steps int) {
	r := rand.New(rand.NewSource(seed))
	dir, _ := ioutil.TempDir("", "c20h")
	defer os.RemoveAll(dir)
	m := &model{pairings: map[string][]byte{}}
	var descs []acDesc
	newSet := func() {
		descs = nil
		for i, n := 0, 1+r.Intn(3); i < n; i++ {
			descs = append(descs, randAc(r, i == 0))
		}
	}
	newSet()
	var tr *ipTransport
	names := []string{"", "A", "ctrl-1", "\xff\xfe", strings.Repeat("n", 100), "E1:22:33:44:55:66", "a/b", "..", "uuid", "x.entity"}
	var log []string
	fail := func(f string, a ...interface{}) {
		t.Errorf("seed %d: "+f+"\nhistory:\n%s", append(append([]interface{}{seed}, a...), strings.Join(log, "\n"))...)
	}
	for step := 0; step < steps && !t.Failed(); step++ {
		op := r.Intn(10)
		if tr == nil {
			op = 0
		}
		switch {
		case op <= 3: // restart, maybe with a different structure
			if r.Intn(3) == 0 {
				switch r.Intn(3) {
				case 0:
					newSet()
				case 1:
					i := r.Intn(len(descs))
					descs[i] = randAc(r, i == 0)
				case 2:
					if len(descs) > 1 {
						descs = descs[:len(descs)-1]
					} else {
						descs = append(descs, randAc(r, false))
					}
				}
			}
			sig := ""
			var as []*accessory.Accessory
			ids := map[uint64]bool{}
			dup := false
			for i, d := range descs {
				sig += d.sig()
				as = append(as, build(r, d, i))
				if d.id != 0 {
					if ids[d.id] {
						dup = true
					}
					ids[d.id] = true
				}
			}
			log = append(log, fmt.Sprintf("restart %s", sig))
			ntr, err := NewIPTransport(Config{StoragePath: dir}, as[0], as[1:]...)
			if err != nil {
				if !dup {
					fail("restart failed: %v", err)
				}
				// explicit ids collide: pick another set next time
				newSet()
				continue
			}
			tr = ntr
			txt := tr.config.txtRecords()
			if !m.started {
				m.started, m.id, m.version, m.sig = true, txt["id"], 1, sig
				m.pub, m.priv = tr.device.PublicKey(), tr.device.PrivateKey()
			} else if sig != m.sig {
				m.version++
				m.sig = sig
			}
			if txt["id"] != m.id || tr.device.Name() != m.id {
				fail("id changed %s -> %s", m.id, txt["id"])
			}
			if !bytes.Equal(tr.device.PublicKey(), m.pub) || !bytes.Equal(tr.device.PrivateKey(), m.priv) {
				fail("key pair changed")
			}
			if txt["c#"] != fmt.Sprint(m.version) {
				fail("c# is %s, model %d", txt["c#"], m.version)
			}
		case op <= 5: // pair
			n := names[r.Intn(len(names))]
			pk := []byte(util.RandomHexString())
			log = append(log, fmt.Sprintf("pair %q", n))
			c := util.NewTLV8Container()
			c.SetByte(pair.TagPairingMethod, byte(pair.PairingMethodAdd))
			c.SetString(pair.TagUsername, n)
			c.SetBytes(pair.TagPublicKey, pk)
			c.SetByte(pair.TagPermission, 1)
			if _, err := pair.NewPairingController(tr.database).Handle(c); err == nil {
				m.pairings[n] = pk
				tr.emitter.Emit(event.DevicePaired{})
			} else {
				log = append(log, "  -> "+err.Error())
			}
		case op <= 7: // unpair
			n := names[r.Intn(len(names))]
			log = append(log, fmt.Sprintf("unpair %q", n))
			c := util.NewTLV8Container()
			c.SetByte(pair.TagPairingMethod, byte(pair.PairingMethodDelete))
			c.SetString(pair.TagUsername, n)
			if _, err := pair.NewPairingController(tr.database).Handle(c); err == nil {
				delete(m.pairings, n)
				tr.emitter.Emit(event.DeviceUnpaired{})
			}
		default: // value changes on the running accessories
			log = append(log, "values")
			for _, a := range tr.container.Accessories {
				for _, s := range a.Services {
					for _, c := range s.Characteristics {
						if c.Type != characteristic.TypeName && r.Intn(2) == 0 {
							setVal(r, c)
						}
					}
				}
			}
		}
		if tr == nil {
			continue
		}
		// compare the stored pairings and the flag after every step
		es, err := tr.database.Entities()
		if err != nil {
			fail("Entities: %v", err)
		}
		var got, want []string
		for _, e := range es {
			if len(e.PrivateKey) == 0 {
				got = append(got, fmt.Sprintf("%q=%x", e.Name, e.PublicKey))
			}
		}
		for n, pk := range m.pairings {
			want = append(want, fmt.Sprintf("%q=%x", n, pk))
		}
		sort.Strings(got)
		sort.Strings(want)
		if fmt.Sprint(got) != fmt.Sprint(want) {
			fail("pairings differ:\n got %v\nwant %v", got, want)
		}
		if step == steps-1 { t.Logf("seed %d final version %d pairings %d", seed, m.version, len(m.pairings)) }
		sf := tr.config.txtRecords()["sf"]
		if (sf == "1") != (len(m.pairings) == 0) {
			fail("sf=%s with %d pairings", sf, len(m.pairings))
		}
	}
}

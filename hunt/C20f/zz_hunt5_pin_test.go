package hc

import (
	"fmt"
	"math/rand"
	"strings"
	"testing"

	"github.com/brutella/hc/util"
)

// reference decoder of the setup payload, written from the HAP layout:
// 9 base-36 digits = version(3) reserved(4) category(8) flags(4) code(27), then the setup id
func decodeXHM(uri string) (code uint64, cat uint8, flags uint8, setupID string, err error) {
	if !strings.HasPrefix(uri, "X-HM://") || len(uri) < 7+9 {
		return 0, 0, 0, "", fmt.Errorf("bad uri %q", uri)
	}
	body := uri[7:]
	var p uint64
	for _, ch := range body[:9] {
		var d uint64
		switch {
		case ch >= '0' && ch <= '9':
			d = uint64(ch - '0')
		case ch >= 'A' && ch <= 'Z':
			d = uint64(ch-'A') + 10
		default:
			return 0, 0, 0, "", fmt.Errorf("bad digit %q", ch)
		}
		p = p*36 + d
	}
	if p>>39 != 0 {
		return 0, 0, 0, "", fmt.Errorf("version/reserved not zero")
	}
	return p & 0x7ffffff, uint8(p >> 31), uint8(p>>27) & 0xf, body[9:], nil
}

func refValid(pin string) bool {
	if len(pin) != 8 {
		return false
	}
	same, up, down := true, true, true
	for i := 0; i < 8; i++ {
		if pin[i] < '0' || pin[i] > '9' {
			return false
		}
		if pin[i] != pin[0] {
			same = false
		}
		if pin[i] != byte('1'+i) {
			up = false
		}
		if pin[i] != byte('8'-i) {
			down = false
		}
	}
	return !(same || up || down)
}

// all 10^8 codes through ValidatePin, a sample of them (every 997th) through the URI
func TestZZAllPins(t *testing.T) {
	if testing.Short() {
		t.Skip()
	}
	buf := make([]byte, 8)
	for n := 0; n < 100000000; n++ {
		v := n
		for i := 7; i >= 0; i-- {
			buf[i] = byte('0' + v%10)
			v /= 10
		}
		pin := string(buf)
		f, err := ValidatePin(pin)
		if (err == nil) != refValid(pin) {
			t.Fatalf("%s: err=%v ref=%v", pin, err, refValid(pin))
		}
		if err == nil && f != pin[:3]+"-"+pin[3:5]+"-"+pin[5:] {
			t.Fatalf("%s formatted %s", pin, f)
		}
		if n%997 == 0 {
			cat := uint8(n / 997)
			fl := util.SetupFlag(n / 997 / 256 % 16)
			cfg := Config{Pin: pin, SetupId: "AB12", categoryId: cat}
			uri, err := cfg.XHMURI(fl)
			if err != nil {
				t.Fatal(err)
			}
			c, ca, f2, sid, err := decodeXHM(uri)
			if err != nil || c != uint64(n) || ca != cat || f2 != uint8(fl) || sid != "AB12" {
				t.Fatalf("%s cat %d fl %d -> %s -> %d %d %d %s %v", pin, cat, fl, uri, c, ca, f2, sid, err)
			}
		}
	}
}

func TestZZOtherStringsAsPins(t *testing.T) {
	r := rand.New(rand.NewSource(1))
	alphabet := []string{"0", "1", "9", "-", " ", "+", "_", "a", "x", "\x00", "٣", "１", "\n", ".", "e"}
	for i := 0; i < 2000000; i++ {
		n := r.Intn(12)
		s := ""
		for j := 0; j < n; j++ {
			s += alphabet[r.Intn(len(alphabet))]
		}
		_, err := ValidatePin(s)
		if (err == nil) != refValid(s) {
			t.Fatalf("%q: err=%v ref=%v", s, err, refValid(s))
		}
	}
}

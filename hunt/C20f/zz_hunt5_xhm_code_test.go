package hc

import (
	"testing"

	"github.com/brutella/hc/util"
)

// Clause: "Setup codes are accepted exactly when they are eight digits and not a
// trivial code, and the setup URI decodes back to the code, category and flags."
// Input: the string "200000000" as setup code (one of "all other strings"), given
// to the exported Config.XHMURI the way an application prints its QR code from the
// Config it is about to pass to NewIPTransport.
// Observed: no error, and the URI decodes to the code 65782272 (the low 27 bits).
// (decodeXHM is the reference decoder in zz_hunt5_pin_test.go)
func TestZZXHMURIAcceptsNineDigitCodeAndEncodesAnotherCode(t *testing.T) {
	cfg := Config{Pin: "200000000", SetupId: "HOME"}
	if _, err := ValidatePin(cfg.Pin); err == nil {
		t.Fatal("ValidatePin accepts nine digits")
	}
	uri, err := cfg.XHMURI(util.SetupFlagIP)
	if err != nil {
		return // rejected: fine
	}
	code, _, _, _, derr := decodeXHM(uri)
	if derr != nil || code != 200000000 {
		t.Fatalf("setup code %q was accepted (err == nil) and the URI %s decodes to the code %08d (%v)", cfg.Pin, uri, code, derr)
	}
}

package hc

import (
	"testing"

	"github.com/brutella/dnssd"
	"github.com/brutella/hc/util"
)

// Clause: "it advertises itself as discoverable exactly when no controller pairing
// is stored" (sibling of repair 53, the PRECIS error of the accessory name).
// Configuration: an unpaired accessory whose name consists of combining marks only
// (here U+0301; the same for Thai tone marks or Arabic harakat on their own).
// newService() gives the DNS-SD instance name util.RemoveAccentsFromString(name),
// which is still "" for such a name: dnssd.NewService refuses it and Start() ends
// the process through log.Info.Fatal, so the accessory is never advertised.
// The test repeats the two calls of newService() (ip_transport.go:345-357) instead
// of calling it, because the failure path is os.Exit.
func TestZZNameOfCombiningMarksOnlyGivesEmptyInstanceName(t *testing.T) {
	name := "́"
	got := util.RemoveAccentsFromString(name)
	_, err := dnssd.NewService(dnssd.Config{Name: got, Type: "_hap._tcp", Domain: "local", Host: "AABBCCDDEEFF", Port: 12345})
	if got == "" || err != nil {
		t.Fatalf("instance name for accessory name %q is %q; dnssd.NewService: %v (Start() calls log.Info.Fatal on this error)", name, got, err)
	}
}

package hc

// An independent HAP controller written from the specification: own TLV8, own
// SRP-6a client (math/big), HKDF / ChaCha20-Poly1305 / Ed25519 / X25519 straight
// from the Go libraries, own framing. Nothing of hc is used on this side except
// the 3072-bit group constant.

import (
	"bufio"
	"bytes"
	"context"
	"crypto/ed25519"
	"crypto/rand"
	"crypto/sha512"
	"encoding/binary"
	"errors"
	"fmt"
	"io"
	"math/big"
	"net"
	nethttp "net/http"
	"os"
	"strings"
	"sync"
	"testing"
	"time"

	"github.com/brutella/hc/accessory"
	"github.com/brutella/hc/db"
	"github.com/brutella/hc/event"
	"github.com/brutella/hc/hap"
	hchttp "github.com/brutella/hc/hap/http"
	"github.com/brutella/hc/util"
	"github.com/tadglines/go-pkgs/crypto/srp"
	"golang.org/x/crypto/chacha20poly1305"
	"golang.org/x/crypto/curve25519"
	"golang.org/x/crypto/hkdf"
)

// ---------- accessory under test ----------

type testAccessory struct {
	t        testing.TB
	dir      string
	storage  util.Storage
	database db.Database
	device   hap.SecuredDevice
	ctx      hap.Context
	server   *hchttp.Server
	cancel   context.CancelFunc
	addr     string
	id       string
	pin      string
	acc      *accessory.Accessory
}

func startAccessory(t testing.TB, id, pin string) *testAccessory {
	dir, err := os.MkdirTemp("", "hunt")
	if err != nil {
		t.Fatal(err)
	}
	return startAccessoryIn(t, dir, id, pin)
}

func startAccessoryAny(t testing.TB, id, pin string) *testAccessory {
	dir, err := os.MkdirTemp("", "hunt")
	if err != nil {
		t.Fatal(err)
	}
	listenOn = ""
	defer func() { listenOn = "127.0.0.1:0" }()
	return startAccessoryIn(t, dir, id, pin)
}

var listenOn = "127.0.0.1:0"

func startAccessoryIn(t testing.TB, dir, id, pin string) *testAccessory {
	storage, err := util.NewFileStorage(dir)
	if err != nil {
		t.Fatal(err)
	}
	database := db.NewDatabaseWithStorage(storage)
	device, err := hap.NewSecuredDevice(id, pin, database)
	if err != nil {
		t.Fatal(err)
	}
	hctx := hap.NewContextForSecuredDevice(device)
	container := accessory.NewContainer()
	acc := accessory.NewSwitch(accessory.Info{Name: "Hunt Switch", SerialNumber: "1", Manufacturer: "m", Model: "x"}).Accessory
	container.AddAccessory(acc)
	// a number of further accessories to make /accessories large
	for i := 0; i < 12; i++ {
		a := accessory.NewLightbulb(accessory.Info{Name: fmt.Sprintf("Bulb %d", i), SerialNumber: "1", Manufacturer: "m", Model: "x"}).Accessory
		container.AddAccessory(a)
	}
	cfg := hchttp.Config{
		Port:      listenOn,
		Context:   hctx,
		Database:  database,
		Container: container,
		Device:    device,
		Mutex:     &sync.Mutex{},
		Emitter:   event.NewEmitter(),
	}
	s := hchttp.NewServer(cfg)
	cctx, cancel := context.WithCancel(context.Background())
	go s.ListenAndServe(cctx)
	ta := &testAccessory{t: t, dir: dir, storage: storage, database: database, device: device, ctx: hctx, server: s, cancel: cancel,
		addr: "127.0.0.1:" + s.Port(), id: id, pin: pin, acc: acc}
	t.Cleanup(func() { cancel(); time.Sleep(10 * time.Millisecond) })
	return ta
}

// ---------- TLV8 ----------

type tlvItem struct {
	typ byte
	val []byte
}

func tlvEncode(items ...tlvItem) []byte {
	var b bytes.Buffer
	for _, it := range items {
		v := it.val
		if len(v) == 0 {
			b.WriteByte(it.typ)
			b.WriteByte(0)
			continue
		}
		for len(v) > 0 {
			n := len(v)
			if n > 255 {
				n = 255
			}
			b.WriteByte(it.typ)
			b.WriteByte(byte(n))
			b.Write(v[:n])
			v = v[n:]
		}
	}
	return b.Bytes()
}

// tlvDecode merges an item into the previous one only if that one has the same type
// and was 255 bytes long (specification: fragments are consecutive).
func tlvDecode(b []byte) (map[byte][]byte, error) {
	out := map[byte][]byte{}
	var last = -1
	var lastLen = 0
	for len(b) > 0 {
		if len(b) < 2 {
			return nil, errors.New("tlv: truncated header")
		}
		t, l := b[0], int(b[1])
		if len(b) < 2+l {
			return nil, errors.New("tlv: truncated value")
		}
		v := b[2 : 2+l]
		if _, seen := out[t]; seen && !(last == int(t) && lastLen == 255) {
			return nil, fmt.Errorf("tlv: type %d repeated without being a fragment", t)
		}
		out[t] = append(out[t], v...)
		last, lastLen = int(t), l
		b = b[2+l:]
	}
	return out, nil
}

const (
	tMethod     = 0
	tIdentifier = 1
	tSalt       = 2
	tPublicKey  = 3
	tProof      = 4
	tEncrypted  = 5
	tState      = 6
	tError      = 7
	tSignature  = 10
)

// ---------- crypto helpers ----------

func hkdf32(key []byte, salt, info string) []byte {
	r := hkdf.New(sha512.New, key, []byte(salt), []byte(info))
	out := make([]byte, 32)
	if _, err := io.ReadFull(r, out); err != nil {
		panic(err)
	}
	return out
}

func nonce12(n string) []byte {
	out := make([]byte, 12)
	copy(out[4:], n)
	return out
}

func seal(key []byte, nonce []byte, plain, aad []byte) []byte {
	a, err := chacha20poly1305.New(key)
	if err != nil {
		panic(err)
	}
	return a.Seal(nil, nonce, plain, aad)
}

func open(key []byte, nonce []byte, ct, aad []byte) ([]byte, error) {
	a, err := chacha20poly1305.New(key)
	if err != nil {
		panic(err)
	}
	return a.Open(nil, nonce, ct, aad)
}

func sha(parts ...[]byte) []byte {
	h := sha512.New()
	for _, p := range parts {
		h.Write(p)
	}
	return h.Sum(nil)
}

// ---------- SRP-6a client ----------

type srpConvention int

const (
	// leading zero bytes of A, B, S are not hashed in M1/M2/K (Stanford libsrp, HomeKit ADK for M1 and K)
	srpStripped srpConvention = iota
	// A, B hashed as 384-byte values everywhere
	srpPadded
)

var srpN, srpG *big.Int

func init() {
	s, err := srp.NewSRP("rfc5054.3072", sha512.New, nil)
	if err != nil {
		panic(err)
	}
	srpN = s.Group.Prime
	srpG = s.Group.Generator
	if srpN.BitLen() != 3072 || srpG.Int64() != 5 {
		panic("unexpected group")
	}
}

func pad384(x *big.Int) []byte {
	b := x.Bytes()
	if len(b) >= 384 {
		return b
	}
	out := make([]byte, 384)
	copy(out[384-len(b):], b)
	return out
}

type srpClient struct {
	a, A *big.Int
	K    []byte
	M1   []byte
	S    *big.Int
	B    *big.Int
}

func newSRPClient() *srpClient {
	ab := make([]byte, 32)
	rand.Read(ab)
	a := new(big.Int).SetBytes(ab)
	return &srpClient{a: a, A: new(big.Int).Exp(srpG, a, srpN)}
}

func (c *srpClient) compute(user, password string, salt, Bbytes []byte) error {
	B := new(big.Int).SetBytes(Bbytes)
	if new(big.Int).Mod(B, srpN).Sign() == 0 {
		return errors.New("B mod N == 0")
	}
	c.B = B
	k := new(big.Int).SetBytes(sha(srpN.Bytes(), pad384(srpG)))
	u := new(big.Int).SetBytes(sha(pad384(c.A), pad384(B)))
	x := new(big.Int).SetBytes(sha(salt, sha([]byte(user+":"+password))))
	// S = (B - k g^x)^(a + u x)
	gx := new(big.Int).Exp(srpG, x, srpN)
	base := new(big.Int).Sub(B, new(big.Int).Mod(new(big.Int).Mul(k, gx), srpN))
	base.Mod(base, srpN)
	exp := new(big.Int).Add(c.a, new(big.Int).Mul(u, x))
	c.S = new(big.Int).Exp(base, exp, srpN)
	return nil
}

func (c *srpClient) proofs(conv srpConvention, user string, salt []byte) (m1, m2 []byte) {
	var Ab, Bb, Sb []byte
	if conv == srpStripped {
		Ab, Bb, Sb = c.A.Bytes(), c.B.Bytes(), c.S.Bytes()
	} else {
		Ab, Bb, Sb = pad384(c.A), pad384(c.B), pad384(c.S)
	}
	c.K = sha(Sb)
	hn := sha(srpN.Bytes())
	hg := sha(srpG.Bytes())
	x := make([]byte, len(hn))
	for i := range x {
		x[i] = hn[i] ^ hg[i]
	}
	m1 = sha(x, sha([]byte(user)), salt, Ab, Bb, c.K)
	m2 = sha(Ab, m1, c.K)
	c.M1 = m1
	return
}

// ---------- plain HTTP over a raw TCP connection ----------

type refController struct {
	t    testing.TB
	id   string
	pub  ed25519.PublicKey
	priv ed25519.PrivateKey

	conn net.Conn
	br   *bufio.Reader // plaintext reader (either the socket or the decrypting reader)

	// after pair-setup
	accLTPK []byte
	accID   string

	// after pair-verify
	c2a, a2c       []byte
	c2aCnt, a2cCnt uint64
	secure         bool
	dec            *frameReader
	frameSize      int // size of the frames this controller sends (<= 1024)
	knownRace      int
}

func newRefController(t testing.TB, id string) *refController {
	pub, priv, err := ed25519.GenerateKey(rand.Reader)
	if err != nil {
		t.Fatal(err)
	}
	return &refController{t: t, id: id, pub: pub, priv: priv, frameSize: 1024}
}

func (c *refController) dial(addr string) {
	if c.conn != nil {
		c.conn.Close()
	}
	conn, err := net.Dial("tcp", addr)
	if err != nil {
		c.t.Fatal(err)
	}
	c.conn = conn
	c.br = bufio.NewReader(conn)
	c.secure = false
	c.c2aCnt, c.a2cCnt = 0, 0
	c.t.Cleanup(func() { conn.Close() })
}

// frameReader decrypts accessory -> controller frames.
type frameReader struct {
	c   *refController
	r   *bufio.Reader
	buf bytes.Buffer
	// sizes of the frames received, for inspection
	sizes []int
}

func (f *frameReader) Read(p []byte) (int, error) {
	for f.buf.Len() == 0 {
		var hdr [2]byte
		if _, err := io.ReadFull(f.r, hdr[:]); err != nil {
			return 0, err
		}
		n := int(binary.LittleEndian.Uint16(hdr[:]))
		if n > 1024 {
			return 0, fmt.Errorf("frame of %d bytes (> 1024)", n)
		}
		ct := make([]byte, n+16)
		if _, err := io.ReadFull(f.r, ct); err != nil {
			return 0, err
		}
		nonce := make([]byte, 12)
		binary.LittleEndian.PutUint64(nonce[4:], f.c.a2cCnt)
		f.c.a2cCnt++
		pt, err := open(f.c.a2c, nonce, ct, hdr[:])
		if err != nil {
			return 0, fmt.Errorf("frame %d from accessory does not authenticate: %v", f.c.a2cCnt-1, err)
		}
		f.sizes = append(f.sizes, n)
		f.buf.Write(pt)
	}
	return f.buf.Read(p)
}

func (c *refController) encryptFrames(msg []byte) []byte {
	var out bytes.Buffer
	for len(msg) > 0 {
		n := len(msg)
		if n > c.frameSize {
			n = c.frameSize
		}
		var hdr [2]byte
		binary.LittleEndian.PutUint16(hdr[:], uint16(n))
		nonce := make([]byte, 12)
		binary.LittleEndian.PutUint64(nonce[4:], c.c2aCnt)
		c.c2aCnt++
		out.Write(hdr[:])
		out.Write(seal(c.c2a, nonce, msg[:n], hdr[:]))
		msg = msg[n:]
	}
	return out.Bytes()
}

func (c *refController) buildRequest(method, path, ctype string, body []byte) []byte {
	var b bytes.Buffer
	fmt.Fprintf(&b, "%s %s HTTP/1.1\r\nHost: hunt.local\r\n", method, path)
	if body != nil {
		fmt.Fprintf(&b, "Content-Type: %s\r\nContent-Length: %d\r\n", ctype, len(body))
	}
	b.WriteString("\r\n")
	b.Write(body)
	return b.Bytes()
}

func (c *refController) send(raw []byte) error {
	if c.secure {
		raw = c.encryptFrames(raw)
	}
	c.conn.SetWriteDeadline(time.Now().Add(5 * time.Second))
	_, err := c.conn.Write(raw)
	return err
}

type refResponse struct {
	status int
	header nethttp.Header
	body   []byte
}

func (c *refController) readResponse(method string) (*refResponse, error) {
	c.conn.SetReadDeadline(time.Now().Add(5 * time.Second))
	resp, err := nethttp.ReadResponse(c.br, &nethttp.Request{Method: method})
	if err != nil {
		return nil, err
	}
	body, err := io.ReadAll(resp.Body)
	resp.Body.Close()
	if err != nil {
		return nil, err
	}
	return &refResponse{status: resp.StatusCode, header: resp.Header, body: body}, nil
}

func (c *refController) do(method, path, ctype string, body []byte) (*refResponse, error) {
	if err := c.send(c.buildRequest(method, path, ctype, body)); err != nil {
		return nil, err
	}
	return c.readResponse(method)
}

func (c *refController) postTLV(path string, items ...tlvItem) (map[byte][]byte, *refResponse, error) {
	resp, err := c.do("POST", path, "application/pairing+tlv8", tlvEncode(items...))
	if err != nil {
		return nil, nil, err
	}
	if resp.status != 200 {
		return nil, resp, fmt.Errorf("%s: HTTP status %d", path, resp.status)
	}
	m, err := tlvDecode(resp.body)
	return m, resp, err
}

// ---------- pair-setup ----------

type setupOpts struct {
	conv     srpConvention
	wantA    func(A *big.Int) bool // choose a with a property of A
	afterM2  func(salt, B []byte) bool
	padA     bool // send A as 384 bytes
	srp      *srpClient
	lastSalt []byte
	lastB    []byte
}

var errAuth = errors.New("accessory answered kTLVError_Authentication")

// pairSetup runs M1..M6 with the given setup code. It verifies everything the accessory sends.
func (c *refController) pairSetup(code string, o *setupOpts) error {
	if o == nil {
		o = &setupOpts{}
	}
	// M1
	m2, _, err := c.postTLV("/pair-setup", tlvItem{tState, []byte{1}}, tlvItem{tMethod, []byte{0}})
	if err != nil {
		return fmt.Errorf("M1: %v", err)
	}
	if e, ok := m2[tError]; ok {
		return fmt.Errorf("M2: error %v", e)
	}
	if !bytes.Equal(m2[tState], []byte{2}) {
		return fmt.Errorf("M2: state %v", m2[tState])
	}
	salt, B := m2[tSalt], m2[tPublicKey]
	o.lastSalt, o.lastB = salt, B
	if len(salt) != 16 {
		return fmt.Errorf("M2: salt of %d bytes", len(salt))
	}
	if len(B) > 384 || len(B) == 0 {
		return fmt.Errorf("M2: B of %d bytes", len(B))
	}
	if o.afterM2 != nil && !o.afterM2(salt, B) {
		return errSkip
	}

	sc := newSRPClient()
	for o.wantA != nil && !o.wantA(sc.A) {
		sc = newSRPClient()
	}
	o.srp = sc
	if err := sc.compute("Pair-Setup", code, salt, B); err != nil {
		return err
	}
	m1p, m2p := sc.proofs(o.conv, "Pair-Setup", salt)

	// M3
	Abytes := sc.A.Bytes()
	if o.padA {
		Abytes = pad384(sc.A)
	}
	m4, _, err := c.postTLV("/pair-setup", tlvItem{tState, []byte{3}}, tlvItem{tPublicKey, Abytes}, tlvItem{tProof, m1p})
	if err != nil {
		return fmt.Errorf("M3: %v", err)
	}
	if !bytes.Equal(m4[tState], []byte{4}) {
		return fmt.Errorf("M4: state %v", m4[tState])
	}
	if e, ok := m4[tError]; ok {
		if len(e) == 1 && e[0] == 2 {
			return errAuth
		}
		return fmt.Errorf("M4: error %v", e)
	}
	if !bytes.Equal(m4[tProof], m2p) {
		return fmt.Errorf("M4: accessory proof M2 does not verify (A %d bytes, B %d bytes, S %d bytes)", len(sc.A.Bytes()), len(sc.B.Bytes()), len(sc.S.Bytes()))
	}

	// M5
	sessKey := hkdf32(sc.K, "Pair-Setup-Encrypt-Salt", "Pair-Setup-Encrypt-Info")
	iosX := hkdf32(sc.K, "Pair-Setup-Controller-Sign-Salt", "Pair-Setup-Controller-Sign-Info")
	info := append(append(append([]byte{}, iosX...), []byte(c.id)...), c.pub...)
	sig := ed25519.Sign(c.priv, info)
	sub := tlvEncode(tlvItem{tIdentifier, []byte(c.id)}, tlvItem{tPublicKey, c.pub}, tlvItem{tSignature, sig})
	enc := seal(sessKey, nonce12("PS-Msg05"), sub, nil)
	m6, _, err := c.postTLV("/pair-setup", tlvItem{tState, []byte{5}}, tlvItem{tEncrypted, enc})
	if err != nil {
		return fmt.Errorf("M5: %v", err)
	}
	if !bytes.Equal(m6[tState], []byte{6}) {
		return fmt.Errorf("M6: state %v", m6[tState])
	}
	if e, ok := m6[tError]; ok {
		return fmt.Errorf("M6: error %v", e)
	}
	plain, err := open(sessKey, nonce12("PS-Msg06"), m6[tEncrypted], nil)
	if err != nil {
		return fmt.Errorf("M6: encrypted data does not authenticate: %v", err)
	}
	sub6, err := tlvDecode(plain)
	if err != nil {
		return fmt.Errorf("M6: %v", err)
	}
	accID, accLTPK, accSig := sub6[tIdentifier], sub6[tPublicKey], sub6[tSignature]
	if len(accLTPK) != 32 || len(accSig) != 64 {
		return fmt.Errorf("M6: ltpk %d bytes, signature %d bytes", len(accLTPK), len(accSig))
	}
	accX := hkdf32(sc.K, "Pair-Setup-Accessory-Sign-Salt", "Pair-Setup-Accessory-Sign-Info")
	accInfo := append(append(append([]byte{}, accX...), accID...), accLTPK...)
	if !ed25519.Verify(ed25519.PublicKey(accLTPK), accInfo, accSig) {
		return errors.New("M6: accessory signature does not verify")
	}
	c.accID = string(accID)
	c.accLTPK = accLTPK
	return nil
}

var errSkip = errors.New("skipped")

// ---------- pair-verify ----------

// pairVerify runs pair-verify on the current connection. The known hand-over race of the
// accessory (M4 sent encrypted) is not what is looked for here: in that case the
// exchange is repeated on a new connection.
func (c *refController) pairVerify() error {
	var err error
	for i := 0; i < 10; i++ {
		err = c.pairVerifyOnce()
		if err == nil || !strings.Contains(err.Error(), "M3: malformed HTTP") {
			return err
		}
		c.knownRace++
		c.dial(c.conn.RemoteAddr().String())
	}
	return err
}

func (c *refController) pairVerifyOnce() error {
	var priv [32]byte
	rand.Read(priv[:])
	pub, err := curve25519.X25519(priv[:], curve25519.Basepoint)
	if err != nil {
		return err
	}
	return c.pairVerifyWithKey(priv[:], pub)
}

func (c *refController) pairVerifyWithKey(priv, pub []byte) error {
	m2, _, err := c.postTLV("/pair-verify", tlvItem{tState, []byte{1}}, tlvItem{tPublicKey, pub})
	if err != nil {
		return fmt.Errorf("M1: %v", err)
	}
	if e, ok := m2[tError]; ok {
		return fmt.Errorf("M2: error %v", e)
	}
	if !bytes.Equal(m2[tState], []byte{2}) {
		return fmt.Errorf("M2: state %v", m2[tState])
	}
	accPub := m2[tPublicKey]
	if len(accPub) != 32 {
		return fmt.Errorf("M2: public key of %d bytes", len(accPub))
	}
	shared, err := curve25519.X25519(priv, accPub)
	if err != nil {
		return err
	}
	sessKey := hkdf32(shared, "Pair-Verify-Encrypt-Salt", "Pair-Verify-Encrypt-Info")
	plain, err := open(sessKey, nonce12("PV-Msg02"), m2[tEncrypted], nil)
	if err != nil {
		return fmt.Errorf("M2: encrypted data does not authenticate: %v", err)
	}
	sub, err := tlvDecode(plain)
	if err != nil {
		return err
	}
	if string(sub[tIdentifier]) != c.accID {
		return fmt.Errorf("M2: accessory identifier %q, paired with %q", sub[tIdentifier], c.accID)
	}
	info := append(append(append([]byte{}, accPub...), sub[tIdentifier]...), pub...)
	if !ed25519.Verify(ed25519.PublicKey(c.accLTPK), info, sub[tSignature]) {
		return errors.New("M2: accessory signature does not verify under the LTPK of pair-setup")
	}

	myInfo := append(append(append([]byte{}, pub...), []byte(c.id)...), accPub...)
	sig := ed25519.Sign(c.priv, myInfo)
	sub3 := tlvEncode(tlvItem{tIdentifier, []byte(c.id)}, tlvItem{tSignature, sig})
	enc := seal(sessKey, nonce12("PV-Msg03"), sub3, nil)
	m4, _, err := c.postTLV("/pair-verify", tlvItem{tState, []byte{3}}, tlvItem{tEncrypted, enc})
	if err != nil {
		return fmt.Errorf("M3: %v", err)
	}
	if !bytes.Equal(m4[tState], []byte{4}) {
		return fmt.Errorf("M4: state %v", m4[tState])
	}
	if e, ok := m4[tError]; ok {
		return fmt.Errorf("M4: error %v", e)
	}
	c.c2a = hkdf32(shared, "Control-Salt", "Control-Write-Encryption-Key")
	c.a2c = hkdf32(shared, "Control-Salt", "Control-Read-Encryption-Key")
	c.c2aCnt, c.a2cCnt = 0, 0
	c.secure = true
	c.dec = &frameReader{c: c, r: c.br}
	c.br = bufio.NewReader(c.dec)
	// the known hand-over race of the accessory (net/http background read): give it time
	time.Sleep(30 * time.Millisecond)
	return nil
}

package hc

import (
	"bufio"
	"bytes"
	"encoding/json"
	"fmt"
	"io"
	"os"
	"strings"
	"sync/atomic"
	"testing"
	"time"

	"github.com/brutella/hc/accessory"
)

func onIIDroot(t testing.TB, body []byte) int {
	var v struct {
		Accessories []struct {
			Aid      int `json:"aid"`
			Services []struct {
				Characteristics []struct {
					Iid  int    `json:"iid"`
					Type string `json:"type"`
				} `json:"characteristics"`
			} `json:"services"`
		} `json:"accessories"`
	}
	if err := json.Unmarshal(body, &v); err != nil {
		t.Fatal(err)
	}
	for _, a := range v.Accessories {
		if a.Aid != 1 {
			continue
		}
		for _, s := range a.Services {
			for _, c := range s.Characteristics {
				if c.Type == "25" {
					return c.Iid
				}
			}
		}
	}
	t.Fatal("no On characteristic")
	return 0
}

// A controller which has subscribed to a characteristic reads /accessories while the
// characteristic changes. Events may arrive between responses, not inside one.
func TestHuntEventInsideResponse(t *testing.T) {
	dir, _ := os.MkdirTemp("", "hunt")
	sw := accessory.NewSwitch(accessory.Info{Name: "Hunt Switch", SerialNumber: "1", Manufacturer: "m", Model: "x"})
	var more []*accessory.Accessory
	for i := 0; i < 30; i++ {
		more = append(more, accessory.NewLightbulb(accessory.Info{Name: fmt.Sprintf("Bulb %d", i), SerialNumber: "1", Manufacturer: "m", Model: "x"}).Accessory)
	}
	tr, err := NewIPTransport(Config{StoragePath: dir, Pin: "00102003", Port: "0"}, sw.Accessory, more...)
	if err != nil {
		t.Skip("no transport:", err)
	}
	go tr.Start()
	defer func() { <-tr.Stop() }()
	for i := 0; i < 100 && tr.server == nil; i++ {
		time.Sleep(10 * time.Millisecond)
	}
	time.Sleep(50 * time.Millisecond)
	addr := "127.0.0.1:" + tr.server.Port()

	c := newRefController(t, "ctl")
	c.dial(addr)
	if err := c.pairSetup("001-02-003", nil); err != nil {
		t.Fatal(err)
	}
	c.dial(addr)
	if err := c.pairVerify(); err != nil {
		t.Fatal(err)
	}
	resp, err := c.do("GET", "/accessories", "", nil)
	if err != nil {
		t.Fatal(err)
	}
	iid := onIIDroot(t, resp.body)
	resp, err = c.do("PUT", "/characteristics", "application/hap+json", []byte(fmt.Sprintf(`{"characteristics":[{"aid":1,"iid":%d,"ev":true}]}`, iid)))
	if err != nil || resp.status != 204 {
		t.Fatal(resp, err)
	}

	var stop int32
	done := make(chan struct{})
	go func() {
		defer close(done)
		v := false
		for atomic.LoadInt32(&stop) == 0 {
			v = !v
			sw.Switch.On.SetValue(v)
			time.Sleep(eventInterval)
		}
	}()
	defer func() { atomic.StoreInt32(&stop, 1); <-done }()

	events := 0
	var rawlog bytes.Buffer
	c.br = bufio.NewReader(io.TeeReader(c.dec, &rawlog))
	for i := 0; i < 200; i++ {
		if err := c.send(c.buildRequest("GET", "/accessories", "", nil)); err != nil {
			t.Fatal(err)
		}
		for {
			// an event between two responses is all right
			c.conn.SetReadDeadline(time.Now().Add(5 * time.Second))
			line, err := c.br.Peek(5)
			if err != nil {
				t.Fatal(err)
			}
			if string(line) == "EVENT" {
				if err := skipEvent(c); err != nil {
					t.Fatal(err)
				}
				events++
				continue
			}
			break
		}
		resp, err := c.readResponse("GET")
		if err != nil {
			raw := rawlog.String()
			if k := strings.LastIndex(raw, "EVENT/1.0"); k >= 0 {
				from := k - 160
				if from < 0 {
					from = 0
				}
				to := k + 200
				if to > len(raw) {
					to = len(raw)
				}
				t.Logf("decrypted stream around the last event message:\n%q", raw[from:to])
			}
			t.Fatalf("request %d (%d events so far): %v", i, events, err)
		}
		if strings.Contains(string(resp.body), "EVENT/1.0") {
			t.Fatalf("request %d: an event message inside the body of the response", i)
		}
		var v interface{}
		if err := json.Unmarshal(resp.body, &v); err != nil {
			t.Fatalf("request %d: body is not JSON: %v", i, err)
		}
	}
	t.Logf("%d events between responses", events)
}

var eventInterval = 200 * time.Microsecond

func init() {
	if d, err := time.ParseDuration(os.Getenv("HUNT_EVENT_INTERVAL")); err == nil {
		eventInterval = d
	}
}

func skipEvent(c *refController) error {
	// EVENT/1.0 200 OK, headers, Content-Length body
	var cl int
	for {
		l, err := c.br.ReadString('\n')
		if err != nil {
			return err
		}
		l = strings.TrimRight(l, "\r\n")
		if l == "" {
			break
		}
		if strings.HasPrefix(strings.ToLower(l), "content-length:") {
			fmt.Sscanf(strings.TrimSpace(l[len("content-length:"):]), "%d", &cl)
		}
	}
	_, err := c.br.Discard(cl)
	return err
}

package http_test

import (
	"bytes"
	"encoding/json"
	"fmt"
	"strings"
	"testing"
)

func TestHuntBasicFlow(t *testing.T) {
	acc := startAccessory(t, "11:22:33:44:55:66", "001-02-003")
	c := newRefController(t, "7B2F6E05-2E5D-4E0B-9D0B-3C1F2A4D5E6F")
	c.dial(acc.addr)
	if err := c.pairSetup("001-02-003", nil); err != nil {
		t.Fatal("pair-setup:", err)
	}
	if c.accID != acc.id {
		t.Fatalf("accessory id %q", c.accID)
	}
	e, err := acc.database.EntityWithName(c.id)
	if err != nil || !bytes.Equal(e.PublicKey, c.pub) {
		t.Fatalf("stored entity: %v %v", e, err)
	}
	c.dial(acc.addr)
	if err := c.pairVerify(); err != nil {
		t.Fatal("pair-verify:", err)
	}
	resp, err := c.do("GET", "/accessories", "", nil)
	if err != nil {
		t.Fatal(err)
	}
	var v map[string]interface{}
	if err := json.Unmarshal(resp.body, &v); err != nil {
		t.Fatalf("status %d body %q: %v", resp.status, resp.body, err)
	}
	t.Logf("GET /accessories: %d, %d bytes, frames %v", resp.status, len(resp.body), c.dec.sizes)
	iid := onIID(t, resp.body)

	// requests of many sizes, among them exact multiples of the frame size
	for _, total := range []int{100, 1023, 1024, 1025, 2047, 2048, 2049, 3072, 4096, 4097, 8192, 20000} {
		body := fmt.Sprintf(`{"characteristics":[{"aid":1,"iid":%d,"value":true}]}`, iid)
		req := c.buildRequest("PUT", "/characteristics", "application/hap+json", []byte(body))
		if total > len(req) {
			pad := total - len(req)
			// the Content-Length may get longer by a digit; adjust
			for {
				b := body + strings.Repeat(" ", pad)
				req = c.buildRequest("PUT", "/characteristics", "application/hap+json", []byte(b))
				if len(req) == total {
					break
				}
				pad -= len(req) - total
			}
		}
		if err := c.send(req); err != nil {
			t.Fatal(err)
		}
		resp, err := c.readResponse("PUT")
		if err != nil {
			t.Fatalf("request of %d bytes: %v", len(req), err)
		}
		if resp.status != 204 {
			t.Fatalf("request of %d bytes: status %d %s", len(req), resp.status, resp.body)
		}
	}
	resp, err = c.do("GET", fmt.Sprintf("/characteristics?id=1.%d", iid), "", nil)
	if err != nil {
		t.Fatal(err)
	}
	if fmt.Sprint(string(resp.body)) == "" || !strings.Contains(string(resp.body), `"value":true`) {
		t.Fatalf("read back: %d %s", resp.status, resp.body)
	}
}

func TestHuntWrongCode(t *testing.T) {
	acc := startAccessory(t, "11:22:33:44:55:66", "001-02-003")
	c := newRefController(t, "ctl")
	c.dial(acc.addr)
	err := c.pairSetup("001-02-004", nil)
	if err != errAuth {
		t.Fatal("wrong code:", err)
	}
	es, _ := acc.database.Entities()
	for _, e := range es {
		if e.Name != acc.id {
			t.Fatalf("stored %q after a failed pair-setup", e.Name)
		}
	}
	// and the same controller on the same connection with the right code
	if err := c.pairSetup("001-02-003", nil); err != nil {
		t.Fatal("right code after wrong code:", err)
	}
}

// onIID finds the instance id of the On characteristic (type 25) of accessory 1.
func onIID(t testing.TB, body []byte) int {
	var v struct {
		Accessories []struct {
			Aid      int `json:"aid"`
			Services []struct {
				Characteristics []struct {
					Iid  int    `json:"iid"`
					Type string `json:"type"`
				} `json:"characteristics"`
			} `json:"services"`
		} `json:"accessories"`
	}
	if err := json.Unmarshal(body, &v); err != nil {
		t.Fatal(err)
	}
	for _, a := range v.Accessories {
		if a.Aid != 1 {
			continue
		}
		for _, s := range a.Services {
			for _, c := range s.Characteristics {
				if c.Type == "25" {
					return c.Iid
				}
			}
		}
	}
	t.Fatal("no On characteristic")
	return 0
}

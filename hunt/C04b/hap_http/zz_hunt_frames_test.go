package http_test

import (
	"fmt"
	"strings"
	"testing"
	"time"
)

func pairedController(t *testing.T, acc *testAccessory, id string) *refController {
	c := newRefController(t, id)
	c.dial(acc.addr)
	if err := c.pairSetup(acc.pin, nil); err != nil {
		t.Fatal("pair-setup:", err)
	}
	c.dial(acc.addr)
	if err := c.pairVerify(); err != nil {
		t.Fatal("pair-verify:", err)
	}
	return c
}

func putBody(iid int, v bool, pad int) []byte {
	return []byte(fmt.Sprintf(`{"characteristics":[{"aid":1,"iid":%d,"value":%v}]}`, iid, v) + strings.Repeat(" ", pad))
}

// Frames smaller than the maximum, of every kind of size.
func TestHuntSmallFrames(t *testing.T) {
	acc := startAccessory(t, "11:22:33:44:55:66", "001-02-003")
	c := pairedController(t, acc, "ctl")
	resp, err := c.do("GET", "/accessories", "", nil)
	if err != nil {
		t.Fatal(err)
	}
	iid := onIID(t, resp.body)
	for _, fs := range []int{1, 2, 7, 100, 511, 512, 1000, 1023, 1024} {
		c.frameSize = fs
		for _, pad := range []int{0, 900, 3000} {
			if fs < 7 && pad > 0 {
				continue
			}
			resp, err := c.do("PUT", "/characteristics", "application/hap+json", putBody(iid, true, pad))
			if err != nil {
				t.Fatalf("frames of %d bytes, pad %d: %v", fs, pad, err)
			}
			if resp.status != 204 {
				t.Fatalf("frames of %d bytes, pad %d: status %d", fs, pad, resp.status)
			}
		}
	}
}

// The bytes of a request arrive slowly and in pieces that do not respect frame boundaries.
func TestHuntDribble(t *testing.T) {
	acc := startAccessory(t, "11:22:33:44:55:66", "001-02-003")
	c := pairedController(t, acc, "ctl")
	resp, err := c.do("GET", "/accessories", "", nil)
	if err != nil {
		t.Fatal(err)
	}
	iid := onIID(t, resp.body)
	for _, piece := range []int{1, 3, 17, 1041, 1042, 1043, 2000} {
		req := c.buildRequest("PUT", "/characteristics", "application/hap+json", putBody(iid, true, 2500))
		raw := c.encryptFrames(req)
		for len(raw) > 0 {
			n := piece
			if n > len(raw) {
				n = len(raw)
			}
			if _, err := c.conn.Write(raw[:n]); err != nil {
				t.Fatal(err)
			}
			raw = raw[n:]
			if piece > 10 {
				time.Sleep(2 * time.Millisecond)
			}
		}
		resp, err := c.readResponse("PUT")
		if err != nil {
			t.Fatalf("pieces of %d bytes: %v", piece, err)
		}
		if resp.status != 204 {
			t.Fatalf("pieces of %d bytes: status %d", piece, resp.status)
		}
	}
}

// Two and more requests written at once (HTTP/1.1 pipelining on a persistent connection).
func TestHuntPipelined(t *testing.T) {
	acc := startAccessory(t, "11:22:33:44:55:66", "001-02-003")
	c := pairedController(t, acc, "ctl")
	resp, err := c.do("GET", "/accessories", "", nil)
	if err != nil {
		t.Fatal(err)
	}
	iid := onIID(t, resp.body)
	for _, pad := range []int{0, 1024 - 137, 3000} {
		var raw []byte
		n := 4
		for i := 0; i < n; i++ {
			raw = append(raw, c.encryptFrames(c.buildRequest("PUT", "/characteristics", "application/hap+json", putBody(iid, i%2 == 0, pad)))...)
		}
		raw = append(raw, c.encryptFrames(c.buildRequest("GET", fmt.Sprintf("/characteristics?id=1.%d", iid), "", nil))...)
		if _, err := c.conn.Write(raw); err != nil {
			t.Fatal(err)
		}
		for i := 0; i < n; i++ {
			resp, err := c.readResponse("PUT")
			if err != nil {
				t.Fatalf("pad %d, response %d: %v", pad, i, err)
			}
			if resp.status != 204 {
				t.Fatalf("pad %d, response %d: status %d", pad, i, resp.status)
			}
		}
		resp, err := c.readResponse("GET")
		if err != nil {
			t.Fatalf("pad %d: %v", pad, err)
		}
		if !strings.Contains(string(resp.body), `"value":false`) {
			t.Fatalf("pad %d: %s", pad, resp.body)
		}
	}
}

// Many requests on one connection; idle gaps in between.
func TestHuntManyRequests(t *testing.T) {
	acc := startAccessory(t, "11:22:33:44:55:66", "001-02-003")
	c := pairedController(t, acc, "ctl")
	for i := 0; i < 300; i++ {
		resp, err := c.do("GET", "/accessories", "", nil)
		if err != nil {
			t.Fatalf("request %d: %v", i, err)
		}
		if resp.status != 200 || len(resp.body) < 7000 {
			t.Fatalf("request %d: %d, %d bytes", i, resp.status, len(resp.body))
		}
		if i%100 == 0 {
			time.Sleep(300 * time.Millisecond)
		}
	}
}

package http_test

import (
	"math/big"
	"testing"
)

// Behaviour of the accessory when one of A, B, S has a leading zero byte.
func TestHuntSRPLeadingZeroA(t *testing.T) {
	for _, conv := range []srpConvention{srpStripped, srpPadded} {
		acc := startAccessory(t, "11:22:33:44:55:66", "001-02-003")
		c := newRefController(t, "ctl")
		c.dial(acc.addr)
		o := &setupOpts{conv: conv, padA: true, wantA: func(A *big.Int) bool { return len(A.Bytes()) < 384 }}
		err := c.pairSetup("001-02-003", o)
		t.Logf("convention %d, A of %d bytes: %v", conv, len(o.srp.A.Bytes()), err)
	}
}

func TestHuntSRPLeadingZeroB(t *testing.T) {
	for _, conv := range []srpConvention{srpStripped, srpPadded} {
		acc := startAccessory(t, "11:22:33:44:55:66", "001-02-003")
		for i := 0; i < 5000; i++ {
			c := newRefController(t, "ctl")
			c.dial(acc.addr)
			o := &setupOpts{conv: conv, padA: true, afterM2: func(salt, B []byte) bool { return len(B) < 384 || B[0] == 0 }}
			err := c.pairSetup("001-02-003", o)
			c.conn.Close()
			if err == errSkip {
				continue
			}
			t.Logf("convention %d, attempt %d, B sent as %d bytes: %v", conv, i, len(o.lastB), err)
			break
		}
	}
}

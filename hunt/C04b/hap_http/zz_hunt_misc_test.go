package http_test

import (
	"bytes"
	"crypto/ed25519"
	"net"
	"strings"
	"testing"
)

// A request body of several hundred frames.
func TestHuntHugeRequest(t *testing.T) {
	acc := startAccessory(t, "11:22:33:44:55:66", "001-02-003")
	c := pairedController(t, acc, "ctl")
	resp, err := c.do("GET", "/accessories", "", nil)
	if err != nil {
		t.Fatal(err)
	}
	iid := onIID(t, resp.body)
	for _, pad := range []int{70000, 300000} {
		resp, err = c.do("PUT", "/characteristics", "application/hap+json", putBody(iid, true, pad))
		if err != nil || resp.status != 204 {
			t.Fatal(pad, resp, err)
		}
	}
}

// The items of the pairing messages in another order than hc's own client sends them, with the
// optional items of the specification (Method in every message, Flags in M1).
func TestHuntItemOrder(t *testing.T) {
	acc := startAccessory(t, "11:22:33:44:55:66", "001-02-003")
	c := newRefController(t, "ctl")
	c.dial(acc.addr)

	m2, _, err := c.postTLV("/pair-setup", tlvItem{tMethod, []byte{0}}, tlvItem{0x13, []byte{0, 0, 0, 0}}, tlvItem{tState, []byte{1}})
	if err != nil {
		t.Fatal(err)
	}
	sc := newSRPClient()
	if err := sc.compute("Pair-Setup", "001-02-003", m2[tSalt], m2[tPublicKey]); err != nil {
		t.Fatal(err)
	}
	m1p, m2p := sc.proofs(srpStripped, "Pair-Setup", m2[tSalt])
	m4, _, err := c.postTLV("/pair-setup", tlvItem{tProof, m1p}, tlvItem{tPublicKey, sc.A.Bytes()}, tlvItem{tState, []byte{3}})
	if err != nil {
		t.Fatal(err)
	}
	if !bytes.Equal(m4[tProof], m2p) {
		t.Fatalf("M4: %v", m4)
	}
	sessKey := hkdf32(sc.K, "Pair-Setup-Encrypt-Salt", "Pair-Setup-Encrypt-Info")
	iosX := hkdf32(sc.K, "Pair-Setup-Controller-Sign-Salt", "Pair-Setup-Controller-Sign-Info")
	info := append(append(append([]byte{}, iosX...), []byte(c.id)...), c.pub...)
	sig := ed25519.Sign(c.priv, info)
	sub := tlvEncode(tlvItem{tSignature, sig}, tlvItem{tPublicKey, c.pub}, tlvItem{tIdentifier, []byte(c.id)})
	enc := seal(sessKey, nonce12("PS-Msg05"), sub, nil)
	m6, _, err := c.postTLV("/pair-setup", tlvItem{tEncrypted, enc}, tlvItem{tState, []byte{5}})
	if err != nil {
		t.Fatal(err)
	}
	if _, ok := m6[tError]; ok || !bytes.Equal(m6[tState], []byte{6}) {
		t.Fatalf("M6: %v", m6)
	}
	if _, err := open(sessKey, nonce12("PS-Msg06"), m6[tEncrypted], nil); err != nil {
		t.Fatal(err)
	}
	e, err := acc.database.EntityWithName("ctl")
	if err != nil || !bytes.Equal(e.PublicKey, c.pub) {
		t.Fatal(e, err)
	}
}

// A server which listens on all addresses (what the IP transport does), reached over IPv4 and IPv6.
func TestHuntAllAddresses(t *testing.T) {
	acc := startAccessory(t, "11:22:33:44:55:66", "001-02-003")
	_ = acc
	// the harness binds 127.0.0.1; start another one on all addresses
	acc2 := startAccessoryAny(t, "11:22:33:44:55:67", "001-02-003")
	_, port, _ := net.SplitHostPort(acc2.addr)
	for _, host := range []string{"127.0.0.1", "[::1]"} {
		conn, err := net.Dial("tcp", host+":"+port)
		if err != nil {
			t.Log("skip", host, err)
			continue
		}
		conn.Close()
		c := newRefController(t, "ctl-"+host)
		c.dial(host + ":" + port)
		if err := c.pairSetup("001-02-003", nil); err != nil {
			t.Fatal(host, err)
		}
		c.dial(host + ":" + port)
		if err := c.pairVerify(); err != nil {
			t.Fatal(host, err)
		}
		resp, err := c.do("GET", "/accessories", "", nil)
		if err != nil || resp.status != 200 {
			t.Fatal(host, resp, err)
		}
	}
}

// Header variants of a conformant HTTP/1.1 client.
func TestHuntHeaderVariants(t *testing.T) {
	acc := startAccessory(t, "11:22:33:44:55:66", "001-02-003")
	c := pairedController(t, acc, "ctl")
	reqs := []string{
		"GET /accessories HTTP/1.1\r\nHost: Hunt_Switch._hap._tcp.local\r\n\r\n",
		"GET /accessories HTTP/1.1\r\nhost: hunt.local\r\naccept: */*\r\n\r\n",
		"GET /accessories HTTP/1.1\r\nHost: 127.0.0.1:51826\r\nConnection: keep-alive\r\n\r\n",
		"GET /accessories HTTP/1.1\r\nHost: [fe80::1%25en0]:51826\r\n\r\n",
	}
	for _, r := range reqs {
		if err := c.send([]byte(r)); err != nil {
			t.Fatal(err)
		}
		resp, err := c.readResponse("GET")
		if err != nil {
			t.Fatalf("%q: %v", r, err)
		}
		if resp.status != 200 {
			t.Errorf("%q: status %d %s", strings.SplitN(r, "\r\n", 3)[1], resp.status, resp.body)
		}
	}
}

package http_test

import (
	"strings"
	"testing"
)

// Accessory identifiers of many shapes.
func TestHuntAccessoryIdentifiers(t *testing.T) {
	ids := []string{
		"A", "AA:BB:CC:DD:EE:FF", "aa:bb:cc:dd:ee:ff", "日本語", "a/b", "..", "a b", "ctl2",
		strings.Repeat("x", 64), strings.Repeat("x", 120),
	}
	for _, id := range ids {
		acc := startAccessory(t, id, "001-02-003")
		c := newRefController(t, "ctl")
		c.dial(acc.addr)
		if err := c.pairSetup("001-02-003", nil); err != nil {
			t.Errorf("accessory id %q (%d bytes): pair-setup: %v", id, len(id), err)
			continue
		}
		if c.accID != id {
			t.Errorf("accessory id %q: M6 has %q", id, c.accID)
		}
		c.dial(acc.addr)
		if err := c.pairVerify(); err != nil {
			t.Errorf("accessory id %q (%d bytes): pair-verify: %v", id, len(id), err)
			continue
		}
		if resp, err := c.do("GET", "/accessories", "", nil); err != nil || resp.status != 200 {
			t.Errorf("accessory id %q: %v %v", id, resp, err)
		}
	}
}

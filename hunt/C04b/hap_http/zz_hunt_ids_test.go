package http_test

import (
	"bytes"
	"strings"
	"testing"
)

// Controller identifiers over the range of the quantifier, each on a fresh accessory:
// pair-setup, entity stored, pair-verify on a new connection, one encrypted request.
func TestHuntControllerIdentifiers(t *testing.T) {
	ids := []string{
		"a",
		"0",
		".",
		"..",
		"/",
		"a/b",
		"../x",
		":",
		"::",
		"a:b",
		"ab", // "a:b" without the colon
		"\x00",
		"a\x00b",
		" ",
		"\n",
		"ä",
		"日本語",
		"😀",
		"uuid",
		"version",
		"configHash",
		"keypair",
		"x.entity",
		"x.tmp",
		"7B2F6E05-2E5D-4E0B-9D0B-3C1F2A4D5E6F",
		strings.Repeat("x", 64),
		strings.Repeat("ä", 32),
		strings.Repeat("😀", 16),
		"11:22:33:44:55:67",
		"11:22:33:44:55:6", // prefix of the accessory id
		"11:22:33:44:55:66 ",
		"3131",                               // hex of "11"
		"31313a32323a33333a34343a35353a3636", // hex of the accessory id
	}
	for _, id := range ids {
		id := id
		t.Run("", func(t *testing.T) {
			acc := startAccessory(t, "11:22:33:44:55:66", "001-02-003")
			accKey := append([]byte{}, acc.device.PublicKey()...)
			c := newRefController(t, id)
			c.dial(acc.addr)
			if err := c.pairSetup("001-02-003", nil); err != nil {
				t.Fatalf("id %q: pair-setup: %v", id, err)
			}
			e, err := acc.database.EntityWithName(id)
			if err != nil || !bytes.Equal(e.PublicKey, c.pub) || e.Name != id {
				t.Fatalf("id %q: stored entity: %+v %v", id, e, err)
			}
			// the accessory still has its own key
			ae, err := acc.database.EntityWithName(acc.id)
			if err != nil || !bytes.Equal(ae.PublicKey, accKey) || len(ae.PrivateKey) == 0 {
				t.Fatalf("id %q: accessory entity: %+v %v", id, ae, err)
			}
			c.dial(acc.addr)
			if err := c.pairVerify(); err != nil {
				t.Fatalf("id %q: pair-verify: %v", id, err)
			}
			resp, err := c.do("GET", "/accessories", "", nil)
			if err != nil || resp.status != 200 {
				t.Fatalf("id %q: GET /accessories: %v %v", id, resp, err)
			}
		})
	}
}

// Two controllers whose identifiers differ only in a colon (the file storage drops colons from file names).
func TestHuntTwoControllersColon(t *testing.T) {
	acc := startAccessory(t, "11:22:33:44:55:66", "001-02-003")
	c1 := newRefController(t, "a:b")
	c1.dial(acc.addr)
	if err := c1.pairSetup("001-02-003", nil); err != nil {
		t.Fatal(err)
	}
	c2 := newRefController(t, "ab")
	c2.dial(acc.addr)
	if err := c2.pairSetup("001-02-003", nil); err != nil {
		t.Fatal(err)
	}
	c1.dial(acc.addr)
	if err := c1.pairVerify(); err != nil {
		t.Fatal("first controller after the second paired:", err)
	}
}

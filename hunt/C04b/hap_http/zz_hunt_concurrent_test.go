package http_test

import (
	"fmt"
	"sync"
	"testing"
)

// Controllers pairing at the same time on their own connections, half of them with a wrong code.
func TestHuntConcurrentSetup(t *testing.T) {
	acc := startAccessory(t, "11:22:33:44:55:66", "001-02-003")
	var wg sync.WaitGroup
	errs := make([]error, 16)
	for i := range errs {
		i := i
		wg.Add(1)
		go func() {
			defer wg.Done()
			c := newRefController(t, fmt.Sprintf("ctl-%d", i))
			c.dial(acc.addr)
			code := "001-02-003"
			if i%2 == 1 {
				code = "001-02-004"
			}
			errs[i] = c.pairSetup(code, nil)
			if errs[i] == nil {
				c.dial(acc.addr)
				errs[i] = c.pairVerify()
				if errs[i] == nil {
					if resp, err := c.do("GET", "/accessories", "", nil); err != nil || resp.status != 200 {
						errs[i] = fmt.Errorf("GET: %v %v", resp, err)
					}
				}
			}
		}()
	}
	wg.Wait()
	for i, err := range errs {
		_, derr := acc.database.EntityWithName(fmt.Sprintf("ctl-%d", i))
		if i%2 == 0 && (err != nil || derr != nil) {
			t.Errorf("controller %d with the right code: %v, stored: %v", i, err, derr == nil)
		}
		if i%2 == 1 && (err != errAuth || derr == nil) {
			t.Errorf("controller %d with a wrong code: %v, stored: %v", i, err, derr == nil)
		}
	}
}

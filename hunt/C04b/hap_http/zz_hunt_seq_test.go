package http_test

import (
	"bytes"
	"crypto/ed25519"
	"crypto/rand"
	"testing"
	"time"

	"github.com/brutella/hc"
	"golang.org/x/crypto/curve25519"
)

func TestHuntSetupCodes(t *testing.T) {
	for _, pin := range []string{"00000001", "99999998", "01234567", "10000000", "00102003", "12345679", "90909090"} {
		code, err := hc.ValidatePin(pin)
		if err != nil {
			t.Fatal(err)
		}
		want := pin[:3] + "-" + pin[3:5] + "-" + pin[5:]
		if code != want {
			t.Fatalf("pin %s is formatted %q", pin, code)
		}
		acc := startAccessory(t, "11:22:33:44:55:66", code)
		c := newRefController(t, "ctl")
		c.dial(acc.addr)
		if err := c.pairSetup(want, nil); err != nil {
			t.Fatalf("pin %s: %v", pin, err)
		}
		// a code that differs in one digit
		w := []byte(want)
		w[len(w)-1] = '0' + (w[len(w)-1]-'0'+1)%10
		c2 := newRefController(t, "ctl2")
		c2.dial(acc.addr)
		if err := c2.pairSetup(string(w), nil); err != errAuth {
			t.Fatalf("pin %s, tried %s: %v", pin, w, err)
		}
		if _, err := acc.database.EntityWithName("ctl2"); err == nil {
			t.Fatal("stored after wrong code")
		}
		// the unformatted digits are a wrong code too
		c3 := newRefController(t, "ctl3")
		c3.dial(acc.addr)
		if err := c3.pairSetup(pin, nil); err != errAuth {
			t.Fatalf("pin %s without dashes: %v", pin, err)
		}
	}
}

// The accessory is stopped and started again on the same storage.
func TestHuntRestart(t *testing.T) {
	acc := startAccessory(t, "11:22:33:44:55:66", "001-02-003")
	c := newRefController(t, "ctl")
	c.dial(acc.addr)
	if err := c.pairSetup("001-02-003", nil); err != nil {
		t.Fatal(err)
	}
	acc.cancel()
	time.Sleep(50 * time.Millisecond)
	acc2 := startAccessoryIn(t, acc.dir, "11:22:33:44:55:66", "001-02-003")
	c.dial(acc2.addr)
	if err := c.pairVerify(); err != nil {
		t.Fatal("pair-verify after restart:", err)
	}
	if resp, err := c.do("GET", "/accessories", "", nil); err != nil || resp.status != 200 {
		t.Fatal(resp, err)
	}
}

// Pair-verify of an unknown controller, then of the paired one, on the same connection.
func TestHuntVerifyAfterFailedVerify(t *testing.T) {
	acc := startAccessory(t, "11:22:33:44:55:66", "001-02-003")
	c := newRefController(t, "ctl")
	c.dial(acc.addr)
	if err := c.pairSetup("001-02-003", nil); err != nil {
		t.Fatal(err)
	}
	c.dial(acc.addr)

	// a controller with the right name and another key
	imp := newRefController(t, "ctl")
	imp.accID, imp.accLTPK = c.accID, c.accLTPK
	imp.conn, imp.br = c.conn, c.br
	err := imp.pairVerifyOnce()
	t.Log("impostor:", err)
	if err == nil {
		t.Fatal("impostor verified")
	}
	// requests of the impostor connection are not served
	resp, err := c.do("GET", "/accessories", "", nil)
	if err != nil {
		t.Fatal(err)
	}
	if resp.status == 200 {
		t.Fatal("unverified connection is served")
	}
	if err := c.pairVerify(); err != nil {
		t.Fatal("pair-verify after a failed one on the same connection:", err)
	}
	if resp, err := c.do("GET", "/accessories", "", nil); err != nil || resp.status != 200 {
		t.Fatal(resp, err)
	}
}

// Pair-verify directly after pair-setup on the same connection (what iOS does not do, but the
// specification allows).
func TestHuntVerifySameConnection(t *testing.T) {
	acc := startAccessory(t, "11:22:33:44:55:66", "001-02-003")
	c := newRefController(t, "ctl")
	c.dial(acc.addr)
	if err := c.pairSetup("001-02-003", nil); err != nil {
		t.Fatal(err)
	}
	if err := c.pairVerifyOnce(); err != nil {
		t.Fatal(err)
	}
	if resp, err := c.do("GET", "/accessories", "", nil); err != nil || resp.status != 200 {
		t.Fatal(resp, err)
	}
}

// M5 with a wrong signature is answered with an error and nothing is stored; the exchange can be
// started again on the same connection.
func TestHuntM5BadSignature(t *testing.T) {
	acc := startAccessory(t, "11:22:33:44:55:66", "001-02-003")
	c := newRefController(t, "ctl")
	c.dial(acc.addr)
	good := c.priv
	_, other, _ := ed25519.GenerateKey(rand.Reader)
	c.priv = other
	err := c.pairSetup("001-02-003", nil)
	t.Log(err)
	if err == nil {
		t.Fatal("accepted")
	}
	if _, err := acc.database.EntityWithName("ctl"); err == nil {
		t.Fatal("stored")
	}
	c.priv = good
	if err := c.pairSetup("001-02-003", nil); err != nil {
		t.Fatal(err)
	}
}

// Several controllers, each on several connections at the same time.
func TestHuntManyConnections(t *testing.T) {
	acc := startAccessory(t, "11:22:33:44:55:66", "001-02-003")
	first := pairedController(t, acc, "ctl-0")
	var all []*refController
	for i := 0; i < 6; i++ {
		c := newRefController(t, "ctl-0")
		c.pub, c.priv, c.accID, c.accLTPK = first.pub, first.priv, first.accID, first.accLTPK
		c.dial(acc.addr)
		if err := c.pairVerify(); err != nil {
			t.Fatal(err)
		}
		all = append(all, c)
	}
	for round := 0; round < 3; round++ {
		for i, c := range all {
			if resp, err := c.do("GET", "/accessories", "", nil); err != nil || resp.status != 200 {
				t.Fatal(i, resp, err)
			}
		}
		// close one in every round; the others go on
		all[0].conn.Close()
		all = all[1:]
		time.Sleep(20 * time.Millisecond)
	}
	if resp, err := first.do("GET", "/accessories", "", nil); err != nil || resp.status != 200 {
		t.Fatal(resp, err)
	}
}

// X25519 keys of the controller with particular shapes.
func TestHuntCurveKeys(t *testing.T) {
	acc := startAccessory(t, "11:22:33:44:55:66", "001-02-003")
	c := newRefController(t, "ctl")
	c.dial(acc.addr)
	if err := c.pairSetup("001-02-003", nil); err != nil {
		t.Fatal(err)
	}
	privs := [][]byte{
		bytes.Repeat([]byte{0xff}, 32),
		bytes.Repeat([]byte{0x00}, 32),
		append([]byte{1}, make([]byte, 31)...),
		append(make([]byte, 31), 0x80),
	}
	for _, p := range privs {
		pub, err := curve25519.X25519(p, curve25519.Basepoint)
		if err != nil {
			t.Fatal(err)
		}
		c.dial(acc.addr)
		var verr error
		for i := 0; i < 5; i++ {
			verr = c.pairVerifyWithKey(p, pub)
			if verr == nil {
				break
			}
			c.dial(acc.addr)
		}
		if verr != nil {
			t.Fatalf("private key %x: %v", p, verr)
		}
		if resp, err := c.do("GET", "/accessories", "", nil); err != nil || resp.status != 200 {
			t.Fatal(resp, err)
		}
	}
}

package http_test

import (
	"crypto/ed25519"
	"crypto/rand"
	"fmt"
	mrand "math/rand"
	"strings"
	"testing"
)

// Random histories over the pair-verify alphabet against a model:
// the connection is verified iff a genuine finish arrives while an exchange is open.
func TestHunt3C03RandomHistories(t *testing.T) {
	r := newRig(t)
	defer r.close()
	otherPub, otherPriv, _ := ed25519.GenerateKey(rand.Reader)
	_ = otherPub

	names := []string{"start", "startShort", "startLong", "startEmpty", "finGenuine", "finWrongKey", "finStale", "finReordered",
		"finReplay", "finUnknown", "finAccessory", "finWrongSeal", "finShort", "finMalformed", "finEmptyName", "badSeq", "badMethod"}

	for seed := int64(1); seed <= 150; seed++ {
		rng := mrand.New(mrand.NewSource(seed))
		p := r.dial()
		open := false
		var earlierM3 [][]byte
		var hist []string
		verified := false
		for step := 0; step < 12 && !verified; step++ {
			act := rng.Intn(len(names))
			hist = append(hist, names[act])
			var ok bool
			var rep reply
			expectOK := false
			switch names[act] {
			case "start":
				wasOpen := open
				ok, rep = p.start()
				if wasOpen {
					// out of order: refused, exchange closed
					if ok {
						t.Fatalf("seed %d %v: second start accepted", seed, hist)
					}
					open = false
				} else {
					if !ok {
						t.Fatalf("seed %d %v: start refused %+v", seed, hist, rep)
					}
					open = true
					earlierM3 = append(earlierM3, p.genuineM3())
				}
				goto probe
			case "startShort", "startLong", "startEmpty":
				n := map[string]int{"startShort": 31, "startLong": 33, "startEmpty": 0}[names[act]]
				var priv [32]byte
				ok, rep = p.startWithKey(priv, make([]byte, n))
				if ok {
					t.Fatalf("seed %d %v: start with %d byte key accepted", seed, hist, n)
				}
				// refused either way; an open exchange is closed by the out-of-order start
				open = false
				goto probe
			case "finGenuine":
				ok, rep = p.finishData(p.genuineM3())
				expectOK = open
			case "finWrongKey":
				ok, rep = p.finishData(sealM3(p.encKey, r.ctrlName, ed25519.Sign(otherPriv, material(p.A, r.ctrlName, p.B))))
			case "finStale":
				ok, rep = p.finishData(sealM3(p.encKey, r.ctrlName, ed25519.Sign(r.ctrlPriv, material(p.prevA, r.ctrlName, p.prevB))))
			case "finReordered":
				ok, rep = p.finishData(sealM3(p.encKey, r.ctrlName, ed25519.Sign(r.ctrlPriv, material(p.B, r.ctrlName, p.A))))
			case "finReplay":
				if len(earlierM3) < 2 {
					hist = hist[:len(hist)-1]
					continue
				}
				ok, rep = p.finishData(earlierM3[rng.Intn(len(earlierM3)-1)])
			case "finUnknown":
				ok, rep = p.finishData(sealM3(p.encKey, "nobody", ed25519.Sign(r.ctrlPriv, material(p.A, "nobody", p.B))))
			case "finAccessory":
				ok, rep = p.finishData(sealM3(p.encKey, p.accName, p.accSig))
			case "finWrongSeal":
				var k [32]byte
				rand.Read(k[:])
				ok, rep = p.finishData(sealM3(k, r.ctrlName, ed25519.Sign(r.ctrlPriv, material(p.A, r.ctrlName, p.B))))
			case "finShort":
				ok, rep = p.finishData(make([]byte, rng.Intn(16)))
			case "finMalformed":
				d := sealM3(p.encKey, r.ctrlName, ed25519.Sign(r.ctrlPriv, material(p.A, r.ctrlName, p.B)))
				// valid seal around a truncated tlv8
				d = sealRaw(p.encKey, []byte{0x01, 0x40, 'a', 'b'})
				ok, rep = p.finishData(d)
			case "finEmptyName":
				ok, rep = p.finishData(sealM3(p.encKey, "", ed25519.Sign(r.ctrlPriv, material(p.A, "", p.B))))
			case "badSeq":
				rep = p.plain("POST", "/pair-verify", tlvType, []byte{0x06, 0x01, byte(4 + rng.Intn(200))})
				if rep.err == nil && rep.status == 200 {
					t.Fatalf("seed %d %v: bad sequence answered 200 %x", seed, hist, rep.body)
				}
				goto probe
			case "badMethod":
				rep = p.plain("POST", "/pair-verify", tlvType, []byte{0x00, 0x01, 0x01, 0x06, 0x01, 0x03})
				if rep.err == nil && rep.status == 200 {
					t.Fatalf("seed %d %v: bad method answered 200 %x", seed, hist, rep.body)
				}
				goto probe
			}
			// a finish was sent
			open = false
			if ok != expectOK {
				t.Fatalf("seed %d %v: finish ok=%v expected %v (%+v)", seed, hist, ok, expectOK, rep)
			}
			if ok {
				verified = true
				p.becomeEncrypted()
				rep := p.encrypted("GET", "/accessories", "", nil)
				if rep.err != nil || rep.status != 200 || !strings.Contains(string(rep.body), "accessories") {
					t.Fatalf("seed %d %v: verified connection not served: %+v", seed, hist, rep)
				}
				break
			}
		probe:
			if err := p.probeUnverified(); err != nil {
				t.Fatalf("seed %d %v: %v", seed, hist, err)
			}
		}
		p.conn.Close()
	}
	fmt.Println("histories done")
}

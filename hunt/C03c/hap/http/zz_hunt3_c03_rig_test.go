package http_test

// Harness for property C03 (hunt 3): a real hap/http server on loopback and a
// reference implementation of the pair-verify peer.

import (
	"bufio"
	"bytes"
	"context"
	"crypto/ed25519"
	"crypto/rand"
	"fmt"
	"io"
	"io/ioutil"
	"net"
	gohttp "net/http"
	"os"
	"sync"
	"testing"
	"time"

	"github.com/brutella/hc/accessory"
	"github.com/brutella/hc/crypto"
	"github.com/brutella/hc/crypto/chacha20poly1305"
	"github.com/brutella/hc/crypto/hkdf"
	"github.com/brutella/hc/db"
	"github.com/brutella/hc/event"
	"github.com/brutella/hc/hap"
	hchttp "github.com/brutella/hc/hap/http"
	"github.com/brutella/hc/hap/pair"
	"github.com/brutella/hc/util"
	"golang.org/x/crypto/curve25519"
)

type rig struct {
	t        testing.TB
	dir      string
	database db.Database
	device   hap.SecuredDevice
	ctx      hap.Context
	server   *hchttp.Server
	addr     string
	cancel   context.CancelFunc
	sw       *accessory.Switch

	ctrlName string
	ctrlPub  ed25519.PublicKey
	ctrlPriv ed25519.PrivateKey
}

func newRig(t testing.TB) *rig {
	dir, err := ioutil.TempDir("", "c03rig")
	if err != nil {
		t.Fatal(err)
	}
	storage, err := util.NewFileStorage(dir)
	if err != nil {
		t.Fatal(err)
	}
	database := db.NewDatabaseWithStorage(storage)
	device, err := hap.NewSecuredDevice("AA:BB:CC:DD:EE:FF", "00102003", database)
	if err != nil {
		t.Fatal(err)
	}
	hctx := hap.NewContextForSecuredDevice(device)
	sw := accessory.NewSwitch(accessory.Info{Name: "Switch"})
	container := accessory.NewContainer()
	container.AddAccessory(sw.Accessory)

	r := &rig{t: t, dir: dir, database: database, device: device, ctx: hctx, sw: sw}
	r.ctrlName = "11111111-2222-3333-4444-555555555555"
	r.ctrlPub, r.ctrlPriv, _ = ed25519.GenerateKey(rand.Reader)
	if err := database.SaveEntity(db.NewEntity(r.ctrlName, r.ctrlPub, nil)); err != nil {
		t.Fatal(err)
	}

	r.server = hchttp.NewServer(hchttp.Config{
		Port:      "127.0.0.1:0",
		Context:   hctx,
		Database:  database,
		Container: container,
		Device:    device,
		Mutex:     &sync.Mutex{},
		Emitter:   event.NewEmitter(),
	})
	r.addr = "127.0.0.1:" + r.server.Port()
	cctx, cancel := context.WithCancel(context.Background())
	r.cancel = cancel
	go r.server.ListenAndServe(cctx)
	return r
}

func (r *rig) close() {
	r.cancel()
	time.Sleep(10 * time.Millisecond)
	os.RemoveAll(r.dir)
}

// peer is one TCP connection of a (possibly dishonest) controller.
type peer struct {
	r    *rig
	conn net.Conn
	br   *bufio.Reader
	sec  crypto.Cryptographer // set => the peer talks encrypted

	// state of the reference pair-verify implementation
	a, A     [32]byte // controller ephemeral key of the open exchange
	B        [32]byte // accessory ephemeral key of the open exchange
	shared   [32]byte
	encKey   [32]byte
	accName  string
	accSig   []byte
	lastM3   []byte // encrypted data of the last genuine finish built
	prevA    [32]byte
	prevB    [32]byte
	havePrev bool
}

func (r *rig) dial() *peer {
	c, err := net.Dial("tcp", r.addr)
	if err != nil {
		r.t.Fatal(err)
	}
	return &peer{r: r, conn: c, br: bufio.NewReader(c)}
}

type reply struct {
	status int
	body   []byte
	err    error
}

// rawRequest builds the bytes of a HTTP request
func rawRequest(method, path, ctype string, body []byte) []byte {
	var b bytes.Buffer
	fmt.Fprintf(&b, "%s %s HTTP/1.1\r\nHost: x\r\n", method, path)
	if body != nil {
		fmt.Fprintf(&b, "Content-Type: %s\r\nContent-Length: %d\r\n", ctype, len(body))
	}
	b.WriteString("\r\n")
	b.Write(body)
	return b.Bytes()
}

// plain sends a request in plain text and reads a plain-text response.
func (p *peer) plain(method, path, ctype string, body []byte) reply {
	p.conn.SetDeadline(time.Now().Add(3 * time.Second))
	if _, err := p.conn.Write(rawRequest(method, path, ctype, body)); err != nil {
		return reply{err: err}
	}
	resp, err := gohttp.ReadResponse(p.br, nil)
	if err != nil {
		return reply{err: err}
	}
	defer resp.Body.Close()
	b, err := ioutil.ReadAll(resp.Body)
	return reply{status: resp.StatusCode, body: b, err: err}
}

// encrypted sends a request under the session keys and reads the decrypted response.
func (p *peer) encrypted(method, path, ctype string, body []byte) reply {
	p.conn.SetDeadline(time.Now().Add(3 * time.Second))
	enc, err := p.sec.Encrypt(bytes.NewReader(rawRequest(method, path, ctype, body)))
	if err != nil {
		return reply{err: err}
	}
	eb, _ := ioutil.ReadAll(enc)
	if _, err := p.conn.Write(eb); err != nil {
		return reply{err: err}
	}
	// read frames until a complete response is there
	var plainBuf bytes.Buffer
	for {
		var hdr [2]byte
		if _, err := io.ReadFull(p.br, hdr[:]); err != nil {
			return reply{err: err}
		}
		n := int(hdr[0]) | int(hdr[1])<<8
		frame := make([]byte, 2+n+16)
		copy(frame, hdr[:])
		if _, err := io.ReadFull(p.br, frame[2:]); err != nil {
			return reply{err: err}
		}
		dec, err := p.sec.Decrypt(bytes.NewReader(frame))
		if err != nil {
			return reply{err: fmt.Errorf("response does not decrypt: %v", err)}
		}
		io.Copy(&plainBuf, dec)
		resp, err := gohttp.ReadResponse(bufio.NewReader(bytes.NewReader(plainBuf.Bytes())), nil)
		if err != nil {
			continue
		}
		b, err := ioutil.ReadAll(resp.Body)
		if err != nil {
			continue
		}
		return reply{status: resp.StatusCode, body: b}
	}
}

const tlvType = "application/pairing+tlv8"

func (p *peer) pv(body []byte) (reply, util.Container) {
	rep := p.plain("POST", "/pair-verify", tlvType, body)
	if rep.err != nil || rep.status != 200 {
		return rep, nil
	}
	c, err := util.NewTLV8ContainerFromReader(bytes.NewReader(rep.body))
	if err != nil {
		rep.err = err
		return rep, nil
	}
	return rep, c
}

// startWithKey sends a start request with the given public key bytes and, when
// it is accepted, takes the answer apart like a controller does.
func (p *peer) startWithKey(priv [32]byte, pubBytes []byte) (accepted bool, rep reply) {
	in := util.NewTLV8Container()
	in.SetByte(pair.TagSequence, 1)
	in.SetBytes(pair.TagPublicKey, pubBytes)
	rep, out := p.pv(in.BytesBuffer().Bytes())
	if out == nil || out.GetByte(pair.TagSequence) != 2 || out.GetByte(pair.TagErrCode) != 0 {
		return false, rep
	}
	if p.havePrev == false || p.A != [32]byte{} {
		p.prevA, p.prevB, p.havePrev = p.A, p.B, p.A != [32]byte{}
	}
	p.a = priv
	copy(p.A[:], pubBytes)
	copy(p.B[:], out.GetBytes(pair.TagPublicKey))
	sh, _ := curve25519.X25519(priv[:], p.B[:])
	copy(p.shared[:], sh)
	p.encKey, _ = hkdf.Sha512(p.shared[:], []byte("Pair-Verify-Encrypt-Salt"), []byte("Pair-Verify-Encrypt-Info"))
	data := out.GetBytes(pair.TagEncryptedData)
	if len(data) < 16 {
		p.r.t.Fatalf("M2 without sealed data")
	}
	var mac [16]byte
	copy(mac[:], data[len(data)-16:])
	dec, err := chacha20poly1305.DecryptAndVerify(p.encKey[:], []byte("PV-Msg02"), data[:len(data)-16], mac, nil)
	if err != nil {
		p.r.t.Fatalf("M2 does not open under the derived key: %v", err)
	}
	sub, _ := util.NewTLV8ContainerFromReader(bytes.NewReader(dec))
	p.accName = sub.GetString(pair.TagUsername)
	p.accSig = sub.GetBytes(pair.TagSignature)
	return true, rep
}

func (p *peer) start() (bool, reply) {
	var priv [32]byte
	rand.Read(priv[:])
	pub, _ := curve25519.X25519(priv[:], curve25519.Basepoint)
	return p.startWithKey(priv, pub)
}

// sealM3 builds the encrypted data of a finish request.
func sealM3(key [32]byte, name string, sig []byte) []byte {
	sub := util.NewTLV8Container()
	sub.SetString(pair.TagUsername, name)
	sub.SetBytes(pair.TagSignature, sig)
	enc, mac, _ := chacha20poly1305.EncryptAndSeal(key[:], []byte("PV-Msg03"), sub.BytesBuffer().Bytes(), nil)
	return append(enc, mac[:]...)
}

func material(A [32]byte, name string, B [32]byte) []byte {
	var m []byte
	m = append(m, A[:]...)
	m = append(m, name...)
	m = append(m, B[:]...)
	return m
}

// finishData sends a finish request carrying data. ok reports state 4 without error code.
func (p *peer) finishData(data []byte) (ok bool, rep reply) {
	in := util.NewTLV8Container()
	in.SetByte(pair.TagSequence, 3)
	in.SetBytes(pair.TagEncryptedData, data)
	rep, out := p.pv(in.BytesBuffer().Bytes())
	if out == nil {
		return false, rep
	}
	return out.GetByte(pair.TagSequence) == 4 && out.GetByte(pair.TagErrCode) == 0, rep
}

func (p *peer) genuineM3() []byte {
	sig := ed25519.Sign(p.r.ctrlPriv, material(p.A, p.r.ctrlName, p.B))
	p.lastM3 = sealM3(p.encKey, p.r.ctrlName, sig)
	return p.lastM3
}

// becomeEncrypted switches the peer to the session keys of the open exchange.
func (p *peer) becomeEncrypted() {
	p.sec, _ = crypto.NewSecureClientSessionFromSharedKey(p.shared)
}

// probeUnverified checks the observable of the property on a connection that must be
// unverified: a plain-text request for a protected resource is answered, in
// plain text, with the 470 refusal.
func (p *peer) probeUnverified() error {
	rep := p.plain("GET", "/accessories", "", nil)
	if rep.err != nil {
		return fmt.Errorf("plain-text request not answered in plain text: %v", rep.err)
	}
	if rep.status != 470 {
		return fmt.Errorf("plain-text GET /accessories answered with %d %s", rep.status, rep.body)
	}
	return nil
}

func sealRaw(key [32]byte, plain []byte) []byte {
	enc, mac, _ := chacha20poly1305.EncryptAndSeal(key[:], []byte("PV-Msg03"), plain, nil)
	return append(enc, mac[:]...)
}

func newBR(c net.Conn) *bufio.Reader { return bufio.NewReader(c) }

package http_test

import (
	"crypto/ed25519"
	"crypto/rand"
	"sync"
	"testing"
)

// probe: many connections at once, honest ones verifying while dishonest ones
// try finishes signed by a wrong key; connections come and go.
func TestHunt3C03ProbeManyConnections(t *testing.T) {
	r := newRig(t)
	defer r.close()
	_, otherPriv, _ := ed25519.GenerateKey(rand.Reader)
	var wg sync.WaitGroup
	for g := 0; g < 16; g++ {
		wg.Add(1)
		go func(g int) {
			defer wg.Done()
			for i := 0; i < 30; i++ {
				p := r.dial()
				if ok, rep := p.start(); !ok {
					t.Errorf("start: %+v", rep)
					p.conn.Close()
					return
				}
				if g%2 == 0 {
					if ok, rep := p.finishData(p.genuineM3()); !ok {
						t.Logf("genuine finish refused: %v %d", rep.err, rep.status); p.conn.Close(); continue
					}
					p.becomeEncrypted()
					if rep := p.encrypted("GET", "/accessories", "", nil); rep.status != 200 {
						t.Logf("verified: %v %d", rep.err, rep.status)
					}
				} else {
					if ok, _ := p.finishData(sealM3(p.encKey, r.ctrlName, ed25519.Sign(otherPriv, material(p.A, r.ctrlName, p.B)))); ok {
						t.Errorf("wrong key accepted")
					}
					if err := p.probeUnverified(); err != nil {
						t.Errorf("%v", err)
					}
				}
				if i%3 == 0 {
					p.conn.(interface{ SetLinger(int) error }).SetLinger(0)
				}
				p.conn.Close()
			}
		}(g)
	}
	wg.Wait()
}

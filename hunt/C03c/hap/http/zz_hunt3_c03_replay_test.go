package http_test

import (
	"testing"
)

// Clause: "[a finish] replayed from an earlier exchange ... is answered with an
// error and does not verify the connection".
//
// History on one connection (all messages are inside the alphabet):
//   1. start, valid key A                       -> accepted, accessory key B
//   2. start, valid key A'  (out of order)      -> refused, exchange 1 is over
//   3. finish, genuine for exchange 1 (A, B)    -> refused (no exchange open)
//   4. start, the bytes of message 1 again      -> accepted: exchange 2
//   5. finish, the bytes of message 3 again     -> must be refused
//
// Nobody who holds the long-term key takes part in exchange 2: messages 4 and 5
// are copies of bytes that went over the wire in plain text before.
func TestHunt3C03ReplayedFinishVerifies(t *testing.T) {
	r := newRig(t)
	defer r.close()
	p := r.dial()
	defer p.conn.Close()

	ok, rep := p.start()
	if !ok {
		t.Fatalf("start refused: %+v", rep)
	}
	a1, A1, B1 := p.a, p.A, p.B
	m3 := p.genuineM3() // what the controller answers to M2 of exchange 1

	if ok, _ := p.start(); ok {
		t.Fatal("out-of-order start accepted")
	}
	if ok, rep := p.finishData(m3); ok {
		t.Fatalf("finish without open exchange accepted: %+v", rep)
	}
	if err := p.probeUnverified(); err != nil {
		t.Fatal(err)
	}

	// exchange 2: replay of the recorded bytes
	ok, rep = p.startWithKey(a1, A1[:])
	if !ok {
		t.Fatalf("start refused: %+v", rep)
	}
	if p.B == B1 {
		t.Logf("the accessory used the same ephemeral key in exchange 1 and exchange 2: %x", B1[:8])
	}
	ok, rep = p.finishData(m3)
	if ok {
		t.Errorf("finish replayed from exchange 1 was accepted in exchange 2: status %d body %x", rep.status, rep.body)
	}
	if err := p.probeUnverified(); err != nil {
		t.Errorf("after the replayed finish the connection is not an unverified plain-text connection any more: %v", err)
	}
}

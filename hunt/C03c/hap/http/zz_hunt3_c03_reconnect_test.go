package http_test

import (
	"bytes"
	"fmt"
	"io/ioutil"
	"net"
	"syscall"
	"testing"
	"time"
)

// probe: a verified connection is reset while the server is busy with one of its
// requests; a new connection comes from the same address and port.
func TestHunt3C03ProbeReconnectSamePort(t *testing.T) {
	r := newRig(t)
	defer r.close()
	gate := make(chan struct{})
	entered := make(chan struct{}, 1)
	r.sw.Switch.On.OnValueRemoteUpdate(func(bool) { entered <- struct{}{}; <-gate })

	c1 := r.dial()
	if ok, _ := c1.start(); !ok {
		t.Fatal("start")
	}
	if ok, _ := c1.finishData(c1.genuineM3()); !ok {
		t.Fatal("finish")
	}
	c1.becomeEncrypted()
	if rep := c1.encrypted("GET", "/accessories", "", nil); rep.status != 200 {
		t.Fatalf("%+v", rep)
	}
	body := []byte(fmt.Sprintf(`{"characteristics":[{"aid":%d,"iid":%d,"value":true}]}`, r.sw.Accessory.ID, r.sw.Switch.On.ID))
	enc, _ := c1.sec.Encrypt(bytes.NewReader(rawRequest("PUT", "/characteristics", "application/hap+json", body)))
	eb, _ := ioutil.ReadAll(enc)
	c1.conn.Write(eb)
	select {
	case <-entered:
	case <-time.After(2 * time.Second):
		t.Fatal("callback not entered")
	}
	local := c1.conn.LocalAddr().(*net.TCPAddr)
	c1.conn.(*net.TCPConn).SetLinger(0)
	c1.conn.Close()
	time.Sleep(50 * time.Millisecond)

	d := net.Dialer{LocalAddr: local, Timeout: 2 * time.Second, Control: func(network, address string, c syscall.RawConn) error {
		return c.Control(func(fd uintptr) {
			syscall.SetsockoptInt(int(fd), syscall.SOL_SOCKET, syscall.SO_REUSEADDR, 1)
		})
	}}
	nc, err := d.Dial("tcp", r.addr)
	if err != nil {
		t.Skip("cannot reuse port:", err)
	}
	c2 := &peer{r: r, conn: nc}
	c2.br = newBR(nc)
	if err := c2.probeUnverified(); err != nil {
		t.Errorf("new connection, old one still busy: %v", err)
	}
	close(gate)
	time.Sleep(100 * time.Millisecond)
	if err := c2.probeUnverified(); err != nil {
		t.Errorf("new connection, old one finished: %v", err)
	}
	// the new connection can verify on its own
	if ok, rep := c2.start(); !ok {
		t.Fatalf("start on new connection: %+v", rep)
	}
	if ok, rep := c2.finishData(c2.genuineM3()); !ok {
		t.Fatalf("finish on new connection: %+v", rep)
	}
	c2.becomeEncrypted()
	if rep := c2.encrypted("GET", "/accessories", "", nil); rep.status != 200 {
		t.Errorf("verified new connection: %+v", rep)
	}
}

package http_test

import (
	"testing"

	"github.com/brutella/hc/db"
)

// BORDERLINE. Quantifier: "for every stored pairing set". A stored controller key
// of small order (here the neutral element, encoding 01 00..00) has no private
// key; the signature R = neutral element, S = 0 "verifies" for every message.
// Pair-setup and /pairings store whatever 32 bytes they are given.
func TestHunt3C03SmallOrderStoredKey(t *testing.T) {
	r := newRig(t)
	defer r.close()
	weak := make([]byte, 32)
	weak[0] = 1
	if err := r.database.SaveEntity(db.NewEntity("weak", weak, nil)); err != nil {
		t.Fatal(err)
	}
	p := r.dial()
	defer p.conn.Close()
	if ok, rep := p.start(); !ok {
		t.Fatalf("%+v", rep)
	}
	sig := make([]byte, 64)
	sig[0] = 1
	ok, rep := p.finishData(sealM3(p.encKey, "weak", sig))
	if ok {
		t.Errorf("a constant 'signature' made without any key verified the connection: %x", rep.body)
	}
}

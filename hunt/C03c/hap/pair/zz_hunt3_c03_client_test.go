package pair

import (
	"testing"

	"github.com/brutella/hc/db"
	"github.com/brutella/hc/hap"
	"github.com/brutella/hc/util"
)

// SIDE FINDING, outside the statement of C03 (which is about the accessory side):
// the controller-side sibling of fix 85c5920 was not repaired. A start response
// whose encrypted data is shorter than an auth tag makes VerifyClientController panic.
func TestHunt3C03ClientShortEncryptedData(t *testing.T) {
	database, _ := db.NewTempDatabase()
	client, _ := hap.NewDevice("HomeKit Client", database)
	c := NewVerifyClientController(client, database)
	m2 := util.NewTLV8Container()
	m2.SetByte(TagSequence, VerifyStepStartResponse.Byte())
	m2.SetBytes(TagPublicKey, make([]byte, 32))
	m2.SetBytes(TagEncryptedData, []byte{1, 2, 3})
	defer func() {
		if r := recover(); r != nil {
			t.Errorf("client controller panicked on a short start response: %v", r)
		}
	}()
	if _, err := c.Handle(m2); err == nil {
		t.Error("short start response accepted")
	}
}

package characteristic

import (
	"encoding/json"
	"fmt"
	"net"
	"reflect"
	"testing"
)

type zzConn struct{ net.Conn }

func zzBase(v interface{}) *Characteristic {
	return reflect.ValueOf(v).Elem().FieldByName("Characteristic").Interface().(*Characteristic)
}

func zzFind(v interface{}) *Characteristic {
	rv := reflect.ValueOf(v)
	for i := 0; i < 5; i++ {
		if c, ok := rv.Interface().(*Characteristic); ok {
			return c
		}
		rv = rv.Elem().Field(0)
	}
	panic("no characteristic")
}

var zzCtors = map[string]func() *Characteristic{
	"NewAccessoryFlags":                        func() *Characteristic { return zzFind(NewAccessoryFlags()) },
	"NewAccessoryIdentifier":                   func() *Characteristic { return zzFind(NewAccessoryIdentifier()) },
	"NewActive":                                func() *Characteristic { return zzFind(NewActive()) },
	"NewActiveIdentifier":                      func() *Characteristic { return zzFind(NewActiveIdentifier()) },
	"NewAdministratorOnlyAccess":               func() *Characteristic { return zzFind(NewAdministratorOnlyAccess()) },
	"NewAirParticulateDensity":                 func() *Characteristic { return zzFind(NewAirParticulateDensity()) },
	"NewAirParticulateSize":                    func() *Characteristic { return zzFind(NewAirParticulateSize()) },
	"NewAirQuality":                            func() *Characteristic { return zzFind(NewAirQuality()) },
	"NewAppMatchingIdentifier":                 func() *Characteristic { return zzFind(NewAppMatchingIdentifier()) },
	"NewAudioFeedback":                         func() *Characteristic { return zzFind(NewAudioFeedback()) },
	"NewBatteryLevel":                          func() *Characteristic { return zzFind(NewBatteryLevel()) },
	"NewBrightness":                            func() *Characteristic { return zzFind(NewBrightness()) },
	"NewCarbonDioxideDetected":                 func() *Characteristic { return zzFind(NewCarbonDioxideDetected()) },
	"NewCarbonDioxideLevel":                    func() *Characteristic { return zzFind(NewCarbonDioxideLevel()) },
	"NewCarbonDioxidePeakLevel":                func() *Characteristic { return zzFind(NewCarbonDioxidePeakLevel()) },
	"NewCarbonMonoxideDetected":                func() *Characteristic { return zzFind(NewCarbonMonoxideDetected()) },
	"NewCarbonMonoxideLevel":                   func() *Characteristic { return zzFind(NewCarbonMonoxideLevel()) },
	"NewCarbonMonoxidePeakLevel":               func() *Characteristic { return zzFind(NewCarbonMonoxidePeakLevel()) },
	"NewCategory":                              func() *Characteristic { return zzFind(NewCategory()) },
	"NewChargingState":                         func() *Characteristic { return zzFind(NewChargingState()) },
	"NewClosedCaptions":                        func() *Characteristic { return zzFind(NewClosedCaptions()) },
	"NewColorTemperature":                      func() *Characteristic { return zzFind(NewColorTemperature()) },
	"NewConfigureBridgedAccessory":             func() *Characteristic { return zzFind(NewConfigureBridgedAccessory()) },
	"NewConfigureBridgedAccessoryStatus":       func() *Characteristic { return zzFind(NewConfigureBridgedAccessoryStatus()) },
	"NewConfiguredName":                        func() *Characteristic { return zzFind(NewConfiguredName()) },
	"NewContactSensorState":                    func() *Characteristic { return zzFind(NewContactSensorState()) },
	"NewCoolingThresholdTemperature":           func() *Characteristic { return zzFind(NewCoolingThresholdTemperature()) },
	"NewCurrentAirPurifierState":               func() *Characteristic { return zzFind(NewCurrentAirPurifierState()) },
	"NewCurrentAmbientLightLevel":              func() *Characteristic { return zzFind(NewCurrentAmbientLightLevel()) },
	"NewCurrentDoorState":                      func() *Characteristic { return zzFind(NewCurrentDoorState()) },
	"NewCurrentFanState":                       func() *Characteristic { return zzFind(NewCurrentFanState()) },
	"NewCurrentHeaterCoolerState":              func() *Characteristic { return zzFind(NewCurrentHeaterCoolerState()) },
	"NewCurrentHeatingCoolingState":            func() *Characteristic { return zzFind(NewCurrentHeatingCoolingState()) },
	"NewCurrentHorizontalTiltAngle":            func() *Characteristic { return zzFind(NewCurrentHorizontalTiltAngle()) },
	"NewCurrentHumidifierDehumidifierState":    func() *Characteristic { return zzFind(NewCurrentHumidifierDehumidifierState()) },
	"NewCurrentMediaState":                     func() *Characteristic { return zzFind(NewCurrentMediaState()) },
	"NewCurrentPosition":                       func() *Characteristic { return zzFind(NewCurrentPosition()) },
	"NewCurrentRelativeHumidity":               func() *Characteristic { return zzFind(NewCurrentRelativeHumidity()) },
	"NewCurrentSlatState":                      func() *Characteristic { return zzFind(NewCurrentSlatState()) },
	"NewCurrentTemperature":                    func() *Characteristic { return zzFind(NewCurrentTemperature()) },
	"NewCurrentTiltAngle":                      func() *Characteristic { return zzFind(NewCurrentTiltAngle()) },
	"NewCurrentTime":                           func() *Characteristic { return zzFind(NewCurrentTime()) },
	"NewCurrentTransport":                      func() *Characteristic { return zzFind(NewCurrentTransport()) },
	"NewCurrentVerticalTiltAngle":              func() *Characteristic { return zzFind(NewCurrentVerticalTiltAngle()) },
	"NewCurrentVisibilityState":                func() *Characteristic { return zzFind(NewCurrentVisibilityState()) },
	"NewDayOfTheWeek":                          func() *Characteristic { return zzFind(NewDayOfTheWeek()) },
	"NewDigitalZoom":                           func() *Characteristic { return zzFind(NewDigitalZoom()) },
	"NewDiscoverBridgedAccessories":            func() *Characteristic { return zzFind(NewDiscoverBridgedAccessories()) },
	"NewDiscoveredBridgedAccessories":          func() *Characteristic { return zzFind(NewDiscoveredBridgedAccessories()) },
	"NewDisplayOrder":                          func() *Characteristic { return zzFind(NewDisplayOrder()) },
	"NewFilterChangeIndication":                func() *Characteristic { return zzFind(NewFilterChangeIndication()) },
	"NewFilterLifeLevel":                       func() *Characteristic { return zzFind(NewFilterLifeLevel()) },
	"NewFirmwareRevision":                      func() *Characteristic { return zzFind(NewFirmwareRevision()) },
	"NewHardwareRevision":                      func() *Characteristic { return zzFind(NewHardwareRevision()) },
	"NewHeatingThresholdTemperature":           func() *Characteristic { return zzFind(NewHeatingThresholdTemperature()) },
	"NewHoldPosition":                          func() *Characteristic { return zzFind(NewHoldPosition()) },
	"NewHue":                                   func() *Characteristic { return zzFind(NewHue()) },
	"NewIdentifier":                            func() *Characteristic { return zzFind(NewIdentifier()) },
	"NewIdentify":                              func() *Characteristic { return zzFind(NewIdentify()) },
	"NewImageMirroring":                        func() *Characteristic { return zzFind(NewImageMirroring()) },
	"NewImageRotation":                         func() *Characteristic { return zzFind(NewImageRotation()) },
	"NewInUse":                                 func() *Characteristic { return zzFind(NewInUse()) },
	"NewInputDeviceType":                       func() *Characteristic { return zzFind(NewInputDeviceType()) },
	"NewInputSourceType":                       func() *Characteristic { return zzFind(NewInputSourceType()) },
	"NewIsConfigured":                          func() *Characteristic { return zzFind(NewIsConfigured()) },
	"NewLeakDetected":                          func() *Characteristic { return zzFind(NewLeakDetected()) },
	"NewLinkQuality":                           func() *Characteristic { return zzFind(NewLinkQuality()) },
	"NewLockControlPoint":                      func() *Characteristic { return zzFind(NewLockControlPoint()) },
	"NewLockCurrentState":                      func() *Characteristic { return zzFind(NewLockCurrentState()) },
	"NewLockLastKnownAction":                   func() *Characteristic { return zzFind(NewLockLastKnownAction()) },
	"NewLockManagementAutoSecurityTimeout":     func() *Characteristic { return zzFind(NewLockManagementAutoSecurityTimeout()) },
	"NewLockPhysicalControls":                  func() *Characteristic { return zzFind(NewLockPhysicalControls()) },
	"NewLockTargetState":                       func() *Characteristic { return zzFind(NewLockTargetState()) },
	"NewLogs":                                  func() *Characteristic { return zzFind(NewLogs()) },
	"NewManufacturer":                          func() *Characteristic { return zzFind(NewManufacturer()) },
	"NewModel":                                 func() *Characteristic { return zzFind(NewModel()) },
	"NewMotionDetected":                        func() *Characteristic { return zzFind(NewMotionDetected()) },
	"NewMute":                                  func() *Characteristic { return zzFind(NewMute()) },
	"NewName":                                  func() *Characteristic { return zzFind(NewName()) },
	"NewNightVision":                           func() *Characteristic { return zzFind(NewNightVision()) },
	"NewNitrogenDioxideDensity":                func() *Characteristic { return zzFind(NewNitrogenDioxideDensity()) },
	"NewObstructionDetected":                   func() *Characteristic { return zzFind(NewObstructionDetected()) },
	"NewOccupancyDetected":                     func() *Characteristic { return zzFind(NewOccupancyDetected()) },
	"NewOn":                                    func() *Characteristic { return zzFind(NewOn()) },
	"NewOpticalZoom":                           func() *Characteristic { return zzFind(NewOpticalZoom()) },
	"NewOutletInUse":                           func() *Characteristic { return zzFind(NewOutletInUse()) },
	"NewOzoneDensity":                          func() *Characteristic { return zzFind(NewOzoneDensity()) },
	"NewPM10Density":                           func() *Characteristic { return zzFind(NewPM10Density()) },
	"NewPairSetup":                             func() *Characteristic { return zzFind(NewPairSetup()) },
	"NewPairVerify":                            func() *Characteristic { return zzFind(NewPairVerify()) },
	"NewPairingFeatures":                       func() *Characteristic { return zzFind(NewPairingFeatures()) },
	"NewPairingPairings":                       func() *Characteristic { return zzFind(NewPairingPairings()) },
	"NewPictureMode":                           func() *Characteristic { return zzFind(NewPictureMode()) },
	"NewPositionState":                         func() *Characteristic { return zzFind(NewPositionState()) },
	"NewPowerModeSelection":                    func() *Characteristic { return zzFind(NewPowerModeSelection()) },
	"NewProgramMode":                           func() *Characteristic { return zzFind(NewProgramMode()) },
	"NewProgrammableSwitchEvent":               func() *Characteristic { return zzFind(NewProgrammableSwitchEvent()) },
	"NewProgrammableSwitchOutputState":         func() *Characteristic { return zzFind(NewProgrammableSwitchOutputState()) },
	"NewReachable":                             func() *Characteristic { return zzFind(NewReachable()) },
	"NewRelativeHumidityDehumidifierThreshold": func() *Characteristic { return zzFind(NewRelativeHumidityDehumidifierThreshold()) },
	"NewRelativeHumidityHumidifierThreshold":   func() *Characteristic { return zzFind(NewRelativeHumidityHumidifierThreshold()) },
	"NewRemainingDuration":                     func() *Characteristic { return zzFind(NewRemainingDuration()) },
	"NewRemoteKey":                             func() *Characteristic { return zzFind(NewRemoteKey()) },
	"NewResetFilterIndication":                 func() *Characteristic { return zzFind(NewResetFilterIndication()) },
	"NewRotationDirection":                     func() *Characteristic { return zzFind(NewRotationDirection()) },
	"NewRotationSpeed":                         func() *Characteristic { return zzFind(NewRotationSpeed()) },
	"NewSaturation":                            func() *Characteristic { return zzFind(NewSaturation()) },
	"NewSecuritySystemAlarmType":               func() *Characteristic { return zzFind(NewSecuritySystemAlarmType()) },
	"NewSecuritySystemCurrentState":            func() *Characteristic { return zzFind(NewSecuritySystemCurrentState()) },
	"NewSecuritySystemTargetState":             func() *Characteristic { return zzFind(NewSecuritySystemTargetState()) },
	"NewSelectedCameraRecordingConfiguration":  func() *Characteristic { return zzFind(NewSelectedCameraRecordingConfiguration()) },
	"NewSelectedRTPStreamConfiguration":        func() *Characteristic { return zzFind(NewSelectedRTPStreamConfiguration()) },
	"NewSelectedStreamConfiguration":           func() *Characteristic { return zzFind(NewSelectedStreamConfiguration()) },
	"NewSerialNumber":                          func() *Characteristic { return zzFind(NewSerialNumber()) },
	"NewServiceLabelIndex":                     func() *Characteristic { return zzFind(NewServiceLabelIndex()) },
	"NewServiceLabelNamespace":                 func() *Characteristic { return zzFind(NewServiceLabelNamespace()) },
	"NewSetDuration":                           func() *Characteristic { return zzFind(NewSetDuration()) },
	"NewSetupEndpoints":                        func() *Characteristic { return zzFind(NewSetupEndpoints()) },
	"NewSlatType":                              func() *Characteristic { return zzFind(NewSlatType()) },
	"NewSleepDiscoveryMode":                    func() *Characteristic { return zzFind(NewSleepDiscoveryMode()) },
	"NewSmokeDetected":                         func() *Characteristic { return zzFind(NewSmokeDetected()) },
	"NewSoftwareRevision":                      func() *Characteristic { return zzFind(NewSoftwareRevision()) },
	"NewStatusActive":                          func() *Characteristic { return zzFind(NewStatusActive()) },
	"NewStatusFault":                           func() *Characteristic { return zzFind(NewStatusFault()) },
	"NewStatusJammed":                          func() *Characteristic { return zzFind(NewStatusJammed()) },
	"NewStatusLowBattery":                      func() *Characteristic { return zzFind(NewStatusLowBattery()) },
	"NewStatusTampered":                        func() *Characteristic { return zzFind(NewStatusTampered()) },
	"NewStreamingStatus":                       func() *Characteristic { return zzFind(NewStreamingStatus()) },
	"NewSulphurDioxideDensity":                 func() *Characteristic { return zzFind(NewSulphurDioxideDensity()) },
	"NewSupportedAudioRecordingConfiguration":  func() *Characteristic { return zzFind(NewSupportedAudioRecordingConfiguration()) },
	"NewSupportedAudioStreamConfiguration":     func() *Characteristic { return zzFind(NewSupportedAudioStreamConfiguration()) },
	"NewSupportedCameraRecordingConfiguration": func() *Characteristic { return zzFind(NewSupportedCameraRecordingConfiguration()) },
	"NewSupportedRTPConfiguration":             func() *Characteristic { return zzFind(NewSupportedRTPConfiguration()) },
	"NewSupportedVideoRecordingConfiguration":  func() *Characteristic { return zzFind(NewSupportedVideoRecordingConfiguration()) },
	"NewSupportedVideoStreamConfiguration":     func() *Characteristic { return zzFind(NewSupportedVideoStreamConfiguration()) },
	"NewSwingMode":                             func() *Characteristic { return zzFind(NewSwingMode()) },
	"NewTargetAirPurifierState":                func() *Characteristic { return zzFind(NewTargetAirPurifierState()) },
	"NewTargetAirQuality":                      func() *Characteristic { return zzFind(NewTargetAirQuality()) },
	"NewTargetDoorState":                       func() *Characteristic { return zzFind(NewTargetDoorState()) },
	"NewTargetFanState":                        func() *Characteristic { return zzFind(NewTargetFanState()) },
	"NewTargetHeaterCoolerState":               func() *Characteristic { return zzFind(NewTargetHeaterCoolerState()) },
	"NewTargetHeatingCoolingState":             func() *Characteristic { return zzFind(NewTargetHeatingCoolingState()) },
	"NewTargetHorizontalTiltAngle":             func() *Characteristic { return zzFind(NewTargetHorizontalTiltAngle()) },
	"NewTargetHumidifierDehumidifierState":     func() *Characteristic { return zzFind(NewTargetHumidifierDehumidifierState()) },
	"NewTargetMediaState":                      func() *Characteristic { return zzFind(NewTargetMediaState()) },
	"NewTargetPosition":                        func() *Characteristic { return zzFind(NewTargetPosition()) },
	"NewTargetRelativeHumidity":                func() *Characteristic { return zzFind(NewTargetRelativeHumidity()) },
	"NewTargetSlatState":                       func() *Characteristic { return zzFind(NewTargetSlatState()) },
	"NewTargetTemperature":                     func() *Characteristic { return zzFind(NewTargetTemperature()) },
	"NewTargetTiltAngle":                       func() *Characteristic { return zzFind(NewTargetTiltAngle()) },
	"NewTargetVerticalTiltAngle":               func() *Characteristic { return zzFind(NewTargetVerticalTiltAngle()) },
	"NewTargetVisibilityState":                 func() *Characteristic { return zzFind(NewTargetVisibilityState()) },
	"NewTemperatureDisplayUnits":               func() *Characteristic { return zzFind(NewTemperatureDisplayUnits()) },
	"NewTimeUpdate":                            func() *Characteristic { return zzFind(NewTimeUpdate()) },
	"NewTunnelConnectionTimeout":               func() *Characteristic { return zzFind(NewTunnelConnectionTimeout()) },
	"NewTunneledAccessoryAdvertising":          func() *Characteristic { return zzFind(NewTunneledAccessoryAdvertising()) },
	"NewTunneledAccessoryConnected":            func() *Characteristic { return zzFind(NewTunneledAccessoryConnected()) },
	"NewTunneledAccessoryStateNumber":          func() *Characteristic { return zzFind(NewTunneledAccessoryStateNumber()) },
	"NewVOCDensity":                            func() *Characteristic { return zzFind(NewVOCDensity()) },
	"NewValveType":                             func() *Characteristic { return zzFind(NewValveType()) },
	"NewVersion":                               func() *Characteristic { return zzFind(NewVersion()) },
	"NewVolume":                                func() *Characteristic { return zzFind(NewVolume()) },
	"NewVolumeControlType":                     func() *Characteristic { return zzFind(NewVolumeControlType()) },
	"NewVolumeSelector":                        func() *Characteristic { return zzFind(NewVolumeSelector()) },
	"NewWaterLevel":                            func() *Characteristic { return zzFind(NewWaterLevel()) },
	"NewWifiCapabilities":                      func() *Characteristic { return zzFind(NewWifiCapabilities()) },
	"NewWifiConfigurationControl":              func() *Characteristic { return zzFind(NewWifiConfigurationControl()) },
}

var zzValues = []interface{}{
	true, false, float64(0), float64(1), float64(-1), float64(2), float64(50), float64(1e30), float64(-1e30), float64(0.5), float64(1e-320),
	"", "0", "1", "true", "abc", "AQID", "-1", "1e3", " 1", "0x10", "NaN", "Inf",
	[]interface{}{}, []interface{}{float64(1)}, map[string]interface{}{}, map[string]interface{}{"a": float64(1)},
	json.Number("1"), int(3), int64(-4), uint8(200), []byte{1, 2},
}

var zzPermSets = [][]string{
	nil, {}, {PermRead}, {PermWrite}, {PermEvents}, {PermRead, PermEvents}, {PermWrite, PermEvents}, {PermRead, PermWrite},
	{PermHidden}, {PermWriteResponse}, {"PW"}, {"pw "}, {"pr,pw"}, {PermHidden, PermWrite}, {PermWrite, PermWrite},
}

func zzTry(f func()) (p interface{}) {
	defer func() { p = recover() }()
	f()
	return nil
}

func TestZZHunt4AllCtors(t *testing.T) {
	conn := &zzConn{}
	for name, mk := range zzCtors {
		// default perms
		for pi := -1; pi < len(zzPermSets); pi++ {
			for _, v := range zzValues {
				c := mk()
				if pi >= 0 {
					c = mk()
					// custom permission set: set before any value by building a fresh one of the same format
					c2 := NewCharacteristic(c.Type)
					c2.Format = c.Format
					c2.MinValue, c2.MaxValue, c2.StepValue, c2.Unit, c2.MaxLen = c.MinValue, c.MaxValue, c.StepValue, c.Unit, c.MaxLen
					c2.Perms = zzPermSets[pi]
					c2.updateOnSameValue = c.updateOnSameValue
					if c2.IsReadable() {
						c2.UpdateValue(c.Value)
					}
					c = c2
				}
				calls := 0
				c.OnValueUpdate(func(*Characteristic, interface{}, interface{}) { calls++ })
				c.OnValueUpdateFromConn(func(net.Conn, *Characteristic, interface{}, interface{}) { calls++ })
				before := c.Value
				if !c.IsReadable() && before != nil {
					t.Errorf("%s perms %v: constructor stored %v", name, c.Perms, before)
				}
				p := zzTry(func() { c.UpdateValueFromConnection(v, conn) })
				if !c.IsWritable() {
					if !reflect.DeepEqual(before, c.Value) {
						t.Errorf("%s perms %v: remote write %#v changed %v -> %v", name, c.Perms, v, before, c.Value)
					}
					if calls != 0 {
						t.Errorf("%s perms %v: remote write %#v invoked callbacks", name, c.Perms, v)
					}
				}
				if !c.IsReadable() {
					if c.Value != nil {
						t.Errorf("%s perms %v: stores %v", name, c.Perms, c.Value)
					}
					zzTry(func() { c.UpdateValue(v) })
					if c.Value != nil {
						t.Errorf("%s perms %v: stores local %v", name, c.Perms, c.Value)
					}
					b, _ := json.Marshal(c)
					var m map[string]interface{}
					json.Unmarshal(b, &m)
					if _, ok := m["value"]; ok {
						t.Errorf("%s perms %v: JSON reveals %s", name, c.Perms, b)
					}
				}
				if p != nil && testing.Verbose() {
					fmt.Printf("panic %s perms %v value %#v: %v\n", name, c.Perms, v, p)
				}
			}
		}
	}
}

package characteristic

import (
	"encoding/json"
	"testing"
)

// CLAUSE: "a characteristic without read permission never stores or reveals a value" over all constructors
// of the package with the custom permission set {pw}, applied the way the package's own tests apply custom
// permissions (assignment to Perms after the constructor, cf. TestReadOnlyValue).
func TestZZHunt4CustomWriteOnlyOnEveryConstructor(t *testing.T) {
	bad := 0
	for name, mk := range zzCtors {
		c := mk()
		c.Perms = PermsWriteOnly()
		b, _ := json.Marshal(c) // what /accessories serves
		c.UpdateValue(1)        // any update: nothing may be kept afterwards
		var m map[string]interface{}
		json.Unmarshal(b, &m)
		if v, ok := m["value"]; ok || c.Value != nil {
			bad++
			if bad <= 5 {
				t.Errorf("%s with perms %v stores %#v and its JSON reveals %v", name, c.Perms, c.Value, v)
			}
		}
	}
	if bad > 0 {
		t.Errorf("%d of %d constructors", bad, len(zzCtors))
	}
}

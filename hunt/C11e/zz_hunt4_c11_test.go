package hc

import (
	"bufio"
	"bytes"
	"encoding/binary"
	"encoding/json"
	"fmt"
	"io"
	"io/ioutil"
	"net"
	"net/http/httputil"
	"net/textproto"
	"reflect"
	"strconv"
	"strings"
	"sync"
	"testing"
	"time"

	"github.com/brutella/hc/accessory"
	"github.com/brutella/hc/characteristic"
	"github.com/brutella/hc/crypto"
	"github.com/brutella/hc/hap"
	haphttp "github.com/brutella/hc/hap/http"
	"github.com/brutella/hc/service"
)

// ---------- harness ----------

type zzMsg struct {
	Proto  string
	Code   int
	Header textproto.MIMEHeader
	Body   []byte
}

type zzClient struct {
	t      *testing.T
	conn   net.Conn
	sec    crypto.Cryptographer
	resps  chan zzMsg
	events chan zzMsg
	wmu    sync.Mutex
}

func zzFind(v interface{}) *characteristic.Characteristic {
	rv := reflect.ValueOf(v)
	for i := 0; i < 6; i++ {
		if c, ok := rv.Interface().(*characteristic.Characteristic); ok {
			return c
		}
		rv = rv.Elem().Field(0)
	}
	panic("no characteristic")
}

func zzTransport(t *testing.T, accs ...*accessory.Accessory) *ipTransport {
	dir, err := ioutil.TempDir("", "zzc11")
	if err != nil {
		t.Fatal(err)
	}
	tr, err := NewIPTransport(Config{StoragePath: dir, Pin: "00102003"}, accs[0], accs[1:]...)
	if err != nil {
		t.Fatal(err)
	}
	s := haphttp.NewServer(haphttp.Config{
		Port: "127.0.0.1:0", Context: tr.context, Database: tr.database, Container: tr.container,
		Device: tr.device, Mutex: tr.mutex, Emitter: tr.emitter,
	})
	tr.server = s
	go s.ListenAndServe(tr.ctx)
	t.Cleanup(func() { tr.cancel() })
	return tr
}

// zzDial opens a connection and makes it a verified (encrypted) session with a known shared key.
func zzDial(t *testing.T, tr *ipTransport) *zzClient {
	before := map[net.Conn]bool{}
	for _, c := range tr.context.ActiveConnections() {
		before[c] = true
	}
	conn, err := net.Dial("tcp", "127.0.0.1:"+tr.server.Port())
	if err != nil {
		t.Fatal(err)
	}
	var sess hap.Session
	deadline := time.Now().Add(2 * time.Second)
	for sess == nil && time.Now().Before(deadline) {
		for _, c := range tr.context.ActiveConnections() {
			if !before[c] && c.RemoteAddr().String() == conn.LocalAddr().String() {
				sess = tr.context.GetSessionForConnection(c)
			}
		}
		time.Sleep(time.Millisecond)
	}
	if sess == nil {
		t.Fatal("no session")
	}
	var key [32]byte
	copy(key[:], []byte(conn.LocalAddr().String()))
	srv, _ := crypto.NewSecureSessionFromSharedKey(key)
	cli, _ := crypto.NewSecureClientSessionFromSharedKey(key)
	sess.SetCryptographer(srv)
	sess.Decrypter()
	c := &zzClient{t: t, conn: conn, sec: cli, resps: make(chan zzMsg, 100), events: make(chan zzMsg, 1000)}
	pr, pw := io.Pipe()
	go func() { // frame reader
		defer pw.Close()
		br := bufio.NewReader(conn)
		for {
			var hdr [2]byte
			if _, err := io.ReadFull(br, hdr[:]); err != nil {
				return
			}
			n := int(binary.LittleEndian.Uint16(hdr[:]))
			frame := make([]byte, 2+n+16)
			copy(frame, hdr[:])
			if _, err := io.ReadFull(br, frame[2:]); err != nil {
				return
			}
			r, err := cli.Decrypt(bytes.NewReader(frame))
			if err != nil {
				pw.CloseWithError(fmt.Errorf("decrypt: %v", err))
				return
			}
			b, _ := ioutil.ReadAll(r)
			pw.Write(b)
		}
	}()
	go func() { // message parser
		br := bufio.NewReader(pr)
		for {
			line, err := br.ReadString('\n')
			if err != nil {
				close(c.resps)
				return
			}
			parts := strings.SplitN(strings.TrimSpace(line), " ", 3)
			m := zzMsg{Proto: parts[0]}
			if len(parts) > 1 {
				m.Code, _ = strconv.Atoi(parts[1])
			}
			m.Header, _ = textproto.NewReader(br).ReadMIMEHeader()
			switch {
			case m.Code == 204 || m.Code == 304 || m.Code/100 == 1:
			case strings.Contains(strings.ToLower(m.Header.Get("Transfer-Encoding")), "chunked"):
				m.Body, _ = ioutil.ReadAll(httputil.NewChunkedReader(br))
				if p, _ := br.Peek(2); string(p) == "\r\n" {
					br.Discard(2)
				}
			case m.Header.Get("Content-Length") != "":
				n, _ := strconv.Atoi(m.Header.Get("Content-Length"))
				m.Body = make([]byte, n)
				io.ReadFull(br, m.Body)
			default:
				m.Body, _ = ioutil.ReadAll(br)
			}
			if strings.HasPrefix(m.Proto, "EVENT") {
				c.events <- m
			} else {
				c.resps <- m
			}
		}
	}()
	t.Cleanup(func() { conn.Close() })
	return c
}

func (c *zzClient) send(raw string) {
	c.wmu.Lock()
	defer c.wmu.Unlock()
	r, err := c.sec.Encrypt(strings.NewReader(raw))
	if err != nil {
		c.t.Fatal(err)
	}
	b, _ := ioutil.ReadAll(r)
	c.conn.Write(b)
}

func (c *zzClient) recv() (zzMsg, bool) {
	select {
	case m, ok := <-c.resps:
		return m, ok
	case <-time.After(3 * time.Second):
		return zzMsg{}, false
	}
}

func (c *zzClient) put(body string) zzMsg {
	c.send(fmt.Sprintf("PUT /characteristics HTTP/1.1\r\nHost: x\r\nContent-Type: application/hap+json\r\nContent-Length: %d\r\n\r\n%s", len(body), body))
	m, ok := c.recv()
	if !ok {
		c.t.Fatalf("no response to PUT %s", body)
	}
	return m
}

func (c *zzClient) get(path string) zzMsg {
	c.send("GET " + path + " HTTP/1.1\r\nHost: x\r\n\r\n")
	m, ok := c.recv()
	if !ok {
		c.t.Fatalf("no response to GET %s", path)
	}
	return m
}

func (c *zzClient) drainEvents(wait time.Duration) []zzMsg {
	var out []zzMsg
	for {
		select {
		case m := <-c.events:
			out = append(out, m)
		case <-time.After(wait):
			return out
		}
	}
}

var zzCtors = map[string]func() *characteristic.Characteristic{
	"NewAccessoryFlags":            func() *characteristic.Characteristic { return zzFind(characteristic.NewAccessoryFlags()) },
	"NewAccessoryIdentifier":       func() *characteristic.Characteristic { return zzFind(characteristic.NewAccessoryIdentifier()) },
	"NewActive":                    func() *characteristic.Characteristic { return zzFind(characteristic.NewActive()) },
	"NewActiveIdentifier":          func() *characteristic.Characteristic { return zzFind(characteristic.NewActiveIdentifier()) },
	"NewAdministratorOnlyAccess":   func() *characteristic.Characteristic { return zzFind(characteristic.NewAdministratorOnlyAccess()) },
	"NewAirParticulateDensity":     func() *characteristic.Characteristic { return zzFind(characteristic.NewAirParticulateDensity()) },
	"NewAirParticulateSize":        func() *characteristic.Characteristic { return zzFind(characteristic.NewAirParticulateSize()) },
	"NewAirQuality":                func() *characteristic.Characteristic { return zzFind(characteristic.NewAirQuality()) },
	"NewAppMatchingIdentifier":     func() *characteristic.Characteristic { return zzFind(characteristic.NewAppMatchingIdentifier()) },
	"NewAudioFeedback":             func() *characteristic.Characteristic { return zzFind(characteristic.NewAudioFeedback()) },
	"NewBatteryLevel":              func() *characteristic.Characteristic { return zzFind(characteristic.NewBatteryLevel()) },
	"NewBrightness":                func() *characteristic.Characteristic { return zzFind(characteristic.NewBrightness()) },
	"NewCarbonDioxideDetected":     func() *characteristic.Characteristic { return zzFind(characteristic.NewCarbonDioxideDetected()) },
	"NewCarbonDioxideLevel":        func() *characteristic.Characteristic { return zzFind(characteristic.NewCarbonDioxideLevel()) },
	"NewCarbonDioxidePeakLevel":    func() *characteristic.Characteristic { return zzFind(characteristic.NewCarbonDioxidePeakLevel()) },
	"NewCarbonMonoxideDetected":    func() *characteristic.Characteristic { return zzFind(characteristic.NewCarbonMonoxideDetected()) },
	"NewCarbonMonoxideLevel":       func() *characteristic.Characteristic { return zzFind(characteristic.NewCarbonMonoxideLevel()) },
	"NewCarbonMonoxidePeakLevel":   func() *characteristic.Characteristic { return zzFind(characteristic.NewCarbonMonoxidePeakLevel()) },
	"NewCategory":                  func() *characteristic.Characteristic { return zzFind(characteristic.NewCategory()) },
	"NewChargingState":             func() *characteristic.Characteristic { return zzFind(characteristic.NewChargingState()) },
	"NewClosedCaptions":            func() *characteristic.Characteristic { return zzFind(characteristic.NewClosedCaptions()) },
	"NewColorTemperature":          func() *characteristic.Characteristic { return zzFind(characteristic.NewColorTemperature()) },
	"NewConfigureBridgedAccessory": func() *characteristic.Characteristic { return zzFind(characteristic.NewConfigureBridgedAccessory()) },
	"NewConfigureBridgedAccessoryStatus": func() *characteristic.Characteristic {
		return zzFind(characteristic.NewConfigureBridgedAccessoryStatus())
	},
	"NewConfiguredName":              func() *characteristic.Characteristic { return zzFind(characteristic.NewConfiguredName()) },
	"NewContactSensorState":          func() *characteristic.Characteristic { return zzFind(characteristic.NewContactSensorState()) },
	"NewCoolingThresholdTemperature": func() *characteristic.Characteristic { return zzFind(characteristic.NewCoolingThresholdTemperature()) },
	"NewCurrentAirPurifierState":     func() *characteristic.Characteristic { return zzFind(characteristic.NewCurrentAirPurifierState()) },
	"NewCurrentAmbientLightLevel":    func() *characteristic.Characteristic { return zzFind(characteristic.NewCurrentAmbientLightLevel()) },
	"NewCurrentDoorState":            func() *characteristic.Characteristic { return zzFind(characteristic.NewCurrentDoorState()) },
	"NewCurrentFanState":             func() *characteristic.Characteristic { return zzFind(characteristic.NewCurrentFanState()) },
	"NewCurrentHeaterCoolerState":    func() *characteristic.Characteristic { return zzFind(characteristic.NewCurrentHeaterCoolerState()) },
	"NewCurrentHeatingCoolingState":  func() *characteristic.Characteristic { return zzFind(characteristic.NewCurrentHeatingCoolingState()) },
	"NewCurrentHorizontalTiltAngle":  func() *characteristic.Characteristic { return zzFind(characteristic.NewCurrentHorizontalTiltAngle()) },
	"NewCurrentHumidifierDehumidifierState": func() *characteristic.Characteristic {
		return zzFind(characteristic.NewCurrentHumidifierDehumidifierState())
	},
	"NewCurrentMediaState":            func() *characteristic.Characteristic { return zzFind(characteristic.NewCurrentMediaState()) },
	"NewCurrentPosition":              func() *characteristic.Characteristic { return zzFind(characteristic.NewCurrentPosition()) },
	"NewCurrentRelativeHumidity":      func() *characteristic.Characteristic { return zzFind(characteristic.NewCurrentRelativeHumidity()) },
	"NewCurrentSlatState":             func() *characteristic.Characteristic { return zzFind(characteristic.NewCurrentSlatState()) },
	"NewCurrentTemperature":           func() *characteristic.Characteristic { return zzFind(characteristic.NewCurrentTemperature()) },
	"NewCurrentTiltAngle":             func() *characteristic.Characteristic { return zzFind(characteristic.NewCurrentTiltAngle()) },
	"NewCurrentTime":                  func() *characteristic.Characteristic { return zzFind(characteristic.NewCurrentTime()) },
	"NewCurrentTransport":             func() *characteristic.Characteristic { return zzFind(characteristic.NewCurrentTransport()) },
	"NewCurrentVerticalTiltAngle":     func() *characteristic.Characteristic { return zzFind(characteristic.NewCurrentVerticalTiltAngle()) },
	"NewCurrentVisibilityState":       func() *characteristic.Characteristic { return zzFind(characteristic.NewCurrentVisibilityState()) },
	"NewDayOfTheWeek":                 func() *characteristic.Characteristic { return zzFind(characteristic.NewDayOfTheWeek()) },
	"NewDigitalZoom":                  func() *characteristic.Characteristic { return zzFind(characteristic.NewDigitalZoom()) },
	"NewDiscoverBridgedAccessories":   func() *characteristic.Characteristic { return zzFind(characteristic.NewDiscoverBridgedAccessories()) },
	"NewDiscoveredBridgedAccessories": func() *characteristic.Characteristic { return zzFind(characteristic.NewDiscoveredBridgedAccessories()) },
	"NewDisplayOrder":                 func() *characteristic.Characteristic { return zzFind(characteristic.NewDisplayOrder()) },
	"NewFilterChangeIndication":       func() *characteristic.Characteristic { return zzFind(characteristic.NewFilterChangeIndication()) },
	"NewFilterLifeLevel":              func() *characteristic.Characteristic { return zzFind(characteristic.NewFilterLifeLevel()) },
	"NewFirmwareRevision":             func() *characteristic.Characteristic { return zzFind(characteristic.NewFirmwareRevision()) },
	"NewHardwareRevision":             func() *characteristic.Characteristic { return zzFind(characteristic.NewHardwareRevision()) },
	"NewHeatingThresholdTemperature":  func() *characteristic.Characteristic { return zzFind(characteristic.NewHeatingThresholdTemperature()) },
	"NewHoldPosition":                 func() *characteristic.Characteristic { return zzFind(characteristic.NewHoldPosition()) },
	"NewHue":                          func() *characteristic.Characteristic { return zzFind(characteristic.NewHue()) },
	"NewIdentifier":                   func() *characteristic.Characteristic { return zzFind(characteristic.NewIdentifier()) },
	"NewIdentify":                     func() *characteristic.Characteristic { return zzFind(characteristic.NewIdentify()) },
	"NewImageMirroring":               func() *characteristic.Characteristic { return zzFind(characteristic.NewImageMirroring()) },
	"NewImageRotation":                func() *characteristic.Characteristic { return zzFind(characteristic.NewImageRotation()) },
	"NewInUse":                        func() *characteristic.Characteristic { return zzFind(characteristic.NewInUse()) },
	"NewInputDeviceType":              func() *characteristic.Characteristic { return zzFind(characteristic.NewInputDeviceType()) },
	"NewInputSourceType":              func() *characteristic.Characteristic { return zzFind(characteristic.NewInputSourceType()) },
	"NewIsConfigured":                 func() *characteristic.Characteristic { return zzFind(characteristic.NewIsConfigured()) },
	"NewLeakDetected":                 func() *characteristic.Characteristic { return zzFind(characteristic.NewLeakDetected()) },
	"NewLinkQuality":                  func() *characteristic.Characteristic { return zzFind(characteristic.NewLinkQuality()) },
	"NewLockControlPoint":             func() *characteristic.Characteristic { return zzFind(characteristic.NewLockControlPoint()) },
	"NewLockCurrentState":             func() *characteristic.Characteristic { return zzFind(characteristic.NewLockCurrentState()) },
	"NewLockLastKnownAction":          func() *characteristic.Characteristic { return zzFind(characteristic.NewLockLastKnownAction()) },
	"NewLockManagementAutoSecurityTimeout": func() *characteristic.Characteristic {
		return zzFind(characteristic.NewLockManagementAutoSecurityTimeout())
	},
	"NewLockPhysicalControls":    func() *characteristic.Characteristic { return zzFind(characteristic.NewLockPhysicalControls()) },
	"NewLockTargetState":         func() *characteristic.Characteristic { return zzFind(characteristic.NewLockTargetState()) },
	"NewLogs":                    func() *characteristic.Characteristic { return zzFind(characteristic.NewLogs()) },
	"NewManufacturer":            func() *characteristic.Characteristic { return zzFind(characteristic.NewManufacturer()) },
	"NewModel":                   func() *characteristic.Characteristic { return zzFind(characteristic.NewModel()) },
	"NewMotionDetected":          func() *characteristic.Characteristic { return zzFind(characteristic.NewMotionDetected()) },
	"NewMute":                    func() *characteristic.Characteristic { return zzFind(characteristic.NewMute()) },
	"NewName":                    func() *characteristic.Characteristic { return zzFind(characteristic.NewName()) },
	"NewNightVision":             func() *characteristic.Characteristic { return zzFind(characteristic.NewNightVision()) },
	"NewNitrogenDioxideDensity":  func() *characteristic.Characteristic { return zzFind(characteristic.NewNitrogenDioxideDensity()) },
	"NewObstructionDetected":     func() *characteristic.Characteristic { return zzFind(characteristic.NewObstructionDetected()) },
	"NewOccupancyDetected":       func() *characteristic.Characteristic { return zzFind(characteristic.NewOccupancyDetected()) },
	"NewOn":                      func() *characteristic.Characteristic { return zzFind(characteristic.NewOn()) },
	"NewOpticalZoom":             func() *characteristic.Characteristic { return zzFind(characteristic.NewOpticalZoom()) },
	"NewOutletInUse":             func() *characteristic.Characteristic { return zzFind(characteristic.NewOutletInUse()) },
	"NewOzoneDensity":            func() *characteristic.Characteristic { return zzFind(characteristic.NewOzoneDensity()) },
	"NewPM10Density":             func() *characteristic.Characteristic { return zzFind(characteristic.NewPM10Density()) },
	"NewPairSetup":               func() *characteristic.Characteristic { return zzFind(characteristic.NewPairSetup()) },
	"NewPairVerify":              func() *characteristic.Characteristic { return zzFind(characteristic.NewPairVerify()) },
	"NewPairingFeatures":         func() *characteristic.Characteristic { return zzFind(characteristic.NewPairingFeatures()) },
	"NewPairingPairings":         func() *characteristic.Characteristic { return zzFind(characteristic.NewPairingPairings()) },
	"NewPictureMode":             func() *characteristic.Characteristic { return zzFind(characteristic.NewPictureMode()) },
	"NewPositionState":           func() *characteristic.Characteristic { return zzFind(characteristic.NewPositionState()) },
	"NewPowerModeSelection":      func() *characteristic.Characteristic { return zzFind(characteristic.NewPowerModeSelection()) },
	"NewProgramMode":             func() *characteristic.Characteristic { return zzFind(characteristic.NewProgramMode()) },
	"NewProgrammableSwitchEvent": func() *characteristic.Characteristic { return zzFind(characteristic.NewProgrammableSwitchEvent()) },
	"NewProgrammableSwitchOutputState": func() *characteristic.Characteristic {
		return zzFind(characteristic.NewProgrammableSwitchOutputState())
	},
	"NewReachable": func() *characteristic.Characteristic { return zzFind(characteristic.NewReachable()) },
	"NewRelativeHumidityDehumidifierThreshold": func() *characteristic.Characteristic {
		return zzFind(characteristic.NewRelativeHumidityDehumidifierThreshold())
	},
	"NewRelativeHumidityHumidifierThreshold": func() *characteristic.Characteristic {
		return zzFind(characteristic.NewRelativeHumidityHumidifierThreshold())
	},
	"NewRemainingDuration":          func() *characteristic.Characteristic { return zzFind(characteristic.NewRemainingDuration()) },
	"NewRemoteKey":                  func() *characteristic.Characteristic { return zzFind(characteristic.NewRemoteKey()) },
	"NewResetFilterIndication":      func() *characteristic.Characteristic { return zzFind(characteristic.NewResetFilterIndication()) },
	"NewRotationDirection":          func() *characteristic.Characteristic { return zzFind(characteristic.NewRotationDirection()) },
	"NewRotationSpeed":              func() *characteristic.Characteristic { return zzFind(characteristic.NewRotationSpeed()) },
	"NewSaturation":                 func() *characteristic.Characteristic { return zzFind(characteristic.NewSaturation()) },
	"NewSecuritySystemAlarmType":    func() *characteristic.Characteristic { return zzFind(characteristic.NewSecuritySystemAlarmType()) },
	"NewSecuritySystemCurrentState": func() *characteristic.Characteristic { return zzFind(characteristic.NewSecuritySystemCurrentState()) },
	"NewSecuritySystemTargetState":  func() *characteristic.Characteristic { return zzFind(characteristic.NewSecuritySystemTargetState()) },
	"NewSelectedCameraRecordingConfiguration": func() *characteristic.Characteristic {
		return zzFind(characteristic.NewSelectedCameraRecordingConfiguration())
	},
	"NewSelectedRTPStreamConfiguration": func() *characteristic.Characteristic {
		return zzFind(characteristic.NewSelectedRTPStreamConfiguration())
	},
	"NewSelectedStreamConfiguration": func() *characteristic.Characteristic { return zzFind(characteristic.NewSelectedStreamConfiguration()) },
	"NewSerialNumber":                func() *characteristic.Characteristic { return zzFind(characteristic.NewSerialNumber()) },
	"NewServiceLabelIndex":           func() *characteristic.Characteristic { return zzFind(characteristic.NewServiceLabelIndex()) },
	"NewServiceLabelNamespace":       func() *characteristic.Characteristic { return zzFind(characteristic.NewServiceLabelNamespace()) },
	"NewSetDuration":                 func() *characteristic.Characteristic { return zzFind(characteristic.NewSetDuration()) },
	"NewSetupEndpoints":              func() *characteristic.Characteristic { return zzFind(characteristic.NewSetupEndpoints()) },
	"NewSlatType":                    func() *characteristic.Characteristic { return zzFind(characteristic.NewSlatType()) },
	"NewSleepDiscoveryMode":          func() *characteristic.Characteristic { return zzFind(characteristic.NewSleepDiscoveryMode()) },
	"NewSmokeDetected":               func() *characteristic.Characteristic { return zzFind(characteristic.NewSmokeDetected()) },
	"NewSoftwareRevision":            func() *characteristic.Characteristic { return zzFind(characteristic.NewSoftwareRevision()) },
	"NewStatusActive":                func() *characteristic.Characteristic { return zzFind(characteristic.NewStatusActive()) },
	"NewStatusFault":                 func() *characteristic.Characteristic { return zzFind(characteristic.NewStatusFault()) },
	"NewStatusJammed":                func() *characteristic.Characteristic { return zzFind(characteristic.NewStatusJammed()) },
	"NewStatusLowBattery":            func() *characteristic.Characteristic { return zzFind(characteristic.NewStatusLowBattery()) },
	"NewStatusTampered":              func() *characteristic.Characteristic { return zzFind(characteristic.NewStatusTampered()) },
	"NewStreamingStatus":             func() *characteristic.Characteristic { return zzFind(characteristic.NewStreamingStatus()) },
	"NewSulphurDioxideDensity":       func() *characteristic.Characteristic { return zzFind(characteristic.NewSulphurDioxideDensity()) },
	"NewSupportedAudioRecordingConfiguration": func() *characteristic.Characteristic {
		return zzFind(characteristic.NewSupportedAudioRecordingConfiguration())
	},
	"NewSupportedAudioStreamConfiguration": func() *characteristic.Characteristic {
		return zzFind(characteristic.NewSupportedAudioStreamConfiguration())
	},
	"NewSupportedCameraRecordingConfiguration": func() *characteristic.Characteristic {
		return zzFind(characteristic.NewSupportedCameraRecordingConfiguration())
	},
	"NewSupportedRTPConfiguration": func() *characteristic.Characteristic { return zzFind(characteristic.NewSupportedRTPConfiguration()) },
	"NewSupportedVideoRecordingConfiguration": func() *characteristic.Characteristic {
		return zzFind(characteristic.NewSupportedVideoRecordingConfiguration())
	},
	"NewSupportedVideoStreamConfiguration": func() *characteristic.Characteristic {
		return zzFind(characteristic.NewSupportedVideoStreamConfiguration())
	},
	"NewSwingMode":                 func() *characteristic.Characteristic { return zzFind(characteristic.NewSwingMode()) },
	"NewTargetAirPurifierState":    func() *characteristic.Characteristic { return zzFind(characteristic.NewTargetAirPurifierState()) },
	"NewTargetAirQuality":          func() *characteristic.Characteristic { return zzFind(characteristic.NewTargetAirQuality()) },
	"NewTargetDoorState":           func() *characteristic.Characteristic { return zzFind(characteristic.NewTargetDoorState()) },
	"NewTargetFanState":            func() *characteristic.Characteristic { return zzFind(characteristic.NewTargetFanState()) },
	"NewTargetHeaterCoolerState":   func() *characteristic.Characteristic { return zzFind(characteristic.NewTargetHeaterCoolerState()) },
	"NewTargetHeatingCoolingState": func() *characteristic.Characteristic { return zzFind(characteristic.NewTargetHeatingCoolingState()) },
	"NewTargetHorizontalTiltAngle": func() *characteristic.Characteristic { return zzFind(characteristic.NewTargetHorizontalTiltAngle()) },
	"NewTargetHumidifierDehumidifierState": func() *characteristic.Characteristic {
		return zzFind(characteristic.NewTargetHumidifierDehumidifierState())
	},
	"NewTargetMediaState":             func() *characteristic.Characteristic { return zzFind(characteristic.NewTargetMediaState()) },
	"NewTargetPosition":               func() *characteristic.Characteristic { return zzFind(characteristic.NewTargetPosition()) },
	"NewTargetRelativeHumidity":       func() *characteristic.Characteristic { return zzFind(characteristic.NewTargetRelativeHumidity()) },
	"NewTargetSlatState":              func() *characteristic.Characteristic { return zzFind(characteristic.NewTargetSlatState()) },
	"NewTargetTemperature":            func() *characteristic.Characteristic { return zzFind(characteristic.NewTargetTemperature()) },
	"NewTargetTiltAngle":              func() *characteristic.Characteristic { return zzFind(characteristic.NewTargetTiltAngle()) },
	"NewTargetVerticalTiltAngle":      func() *characteristic.Characteristic { return zzFind(characteristic.NewTargetVerticalTiltAngle()) },
	"NewTargetVisibilityState":        func() *characteristic.Characteristic { return zzFind(characteristic.NewTargetVisibilityState()) },
	"NewTemperatureDisplayUnits":      func() *characteristic.Characteristic { return zzFind(characteristic.NewTemperatureDisplayUnits()) },
	"NewTimeUpdate":                   func() *characteristic.Characteristic { return zzFind(characteristic.NewTimeUpdate()) },
	"NewTunnelConnectionTimeout":      func() *characteristic.Characteristic { return zzFind(characteristic.NewTunnelConnectionTimeout()) },
	"NewTunneledAccessoryAdvertising": func() *characteristic.Characteristic { return zzFind(characteristic.NewTunneledAccessoryAdvertising()) },
	"NewTunneledAccessoryConnected":   func() *characteristic.Characteristic { return zzFind(characteristic.NewTunneledAccessoryConnected()) },
	"NewTunneledAccessoryStateNumber": func() *characteristic.Characteristic { return zzFind(characteristic.NewTunneledAccessoryStateNumber()) },
	"NewVOCDensity":                   func() *characteristic.Characteristic { return zzFind(characteristic.NewVOCDensity()) },
	"NewValveType":                    func() *characteristic.Characteristic { return zzFind(characteristic.NewValveType()) },
	"NewVersion":                      func() *characteristic.Characteristic { return zzFind(characteristic.NewVersion()) },
	"NewVolume":                       func() *characteristic.Characteristic { return zzFind(characteristic.NewVolume()) },
	"NewVolumeControlType":            func() *characteristic.Characteristic { return zzFind(characteristic.NewVolumeControlType()) },
	"NewVolumeSelector":               func() *characteristic.Characteristic { return zzFind(characteristic.NewVolumeSelector()) },
	"NewWaterLevel":                   func() *characteristic.Characteristic { return zzFind(characteristic.NewWaterLevel()) },
	"NewWifiCapabilities":             func() *characteristic.Characteristic { return zzFind(characteristic.NewWifiCapabilities()) },
	"NewWifiConfigurationControl":     func() *characteristic.Characteristic { return zzFind(characteristic.NewWifiConfigurationControl()) },
}

var zzJSONValues = []string{
	`true`, `false`, `0`, `1`, `-1`, `-0`, `2`, `50`, `1e30`, `-1e30`, `0.5`, `1e-320`, `1E2`, `255`, `256`, `65536`, `4294967296`,
	`""`, `"0"`, `"1"`, `"true"`, `"abc"`, `"AQID"`, `"-1"`, `"1e3"`, `" 1"`, `"NaN"`, `"\u0000"`,
	`[]`, `[1]`, `{}`, `{"a":1}`, `[[1]]`,
}

// ---------- probes ----------

// Every constructor of the package, in one accessory, over the HTTP path.
func TestZZHunt4C11HTTPAllCtors(t *testing.T) {
	acc := accessory.New(accessory.Info{Name: "zz"}, accessory.TypeOther)
	svc := service.New("FFFF")
	names := []string{}
	chars := map[string]*characteristic.Characteristic{}
	for name, mk := range zzCtors {
		c := mk()
		chars[name] = c
		names = append(names, name)
		svc.AddCharacteristic(c)
	}
	acc.AddService(svc)
	calls := map[string]int{}
	var mu sync.Mutex
	for name, c := range chars {
		name := name
		c.OnValueUpdate(func(*characteristic.Characteristic, interface{}, interface{}) { mu.Lock(); calls[name]++; mu.Unlock() })
		c.OnValueUpdateFromConn(func(net.Conn, *characteristic.Characteristic, interface{}, interface{}) {
			mu.Lock()
			calls[name]++
			mu.Unlock()
		})
	}
	tr := zzTransport(t, acc)
	a := zzDial(t, tr)
	b := zzDial(t, tr)

	// b subscribes to everything; the refusals must be exactly the characteristics without ev
	for name, c := range chars {
		m := b.put(fmt.Sprintf(`{"characteristics":[{"aid":%d,"iid":%d,"ev":true}]}`, acc.ID, c.ID))
		if c.IsObservable() {
			if m.Code != 204 {
				t.Errorf("%s: subscription answered %d %s", name, m.Code, m.Body)
			}
		} else {
			if !bytes.Contains(m.Body, []byte(`"status":-70406`)) {
				t.Errorf("%s perms %v: subscription not rejected with a status: %d %s", name, c.Perms, m.Code, m.Body)
			}
		}
	}

	for name, c := range chars {
		for _, v := range zzJSONValues {
			mu.Lock()
			calls[name] = 0
			mu.Unlock()
			before := c.Value
			m := a.put(fmt.Sprintf(`{"characteristics":[{"aid":%d,"iid":%d,"value":%s}]}`, acc.ID, c.ID, v))
			_ = m
			if !c.IsWritable() {
				if !reflect.DeepEqual(before, c.Value) {
					t.Errorf("%s perms %v: PUT %s changed %v -> %v", name, c.Perms, v, before, c.Value)
				}
				mu.Lock()
				if calls[name] != 0 {
					t.Errorf("%s perms %v: PUT %s invoked callbacks", name, c.Perms, v)
				}
				mu.Unlock()
			}
			if !c.IsReadable() && c.Value != nil {
				t.Errorf("%s perms %v: stores %v after PUT %s", name, c.Perms, c.Value, v)
			}
		}
	}
	// local updates: events only for ev characteristics
	time.Sleep(50 * time.Millisecond)
	evs := b.drainEvents(100 * time.Millisecond)
	byIID := map[uint64]string{}
	for name, c := range chars {
		byIID[c.ID] = name
	}
	check := func(evs []zzMsg) {
		for _, e := range evs {
			var d struct {
				Characteristics []struct {
					IID   uint64      `json:"iid"`
					Value interface{} `json:"value"`
				} `json:"characteristics"`
			}
			json.Unmarshal(e.Body, &d)
			for _, x := range d.Characteristics {
				c := chars[byIID[x.IID]]
				if c == nil {
					continue
				}
				if !c.IsObservable() {
					t.Errorf("%s perms %v: EVENT %s", byIID[x.IID], c.Perms, e.Body)
				}
				if !c.IsReadable() && x.Value != nil {
					t.Errorf("%s perms %v: EVENT reveals %s", byIID[x.IID], c.Perms, e.Body)
				}
			}
		}
	}
	check(evs)
	for _, c := range chars {
		switch c.Format {
		case characteristic.FormatBool:
			c.UpdateValue(true)
			c.UpdateValue(false)
		case characteristic.FormatString, characteristic.FormatTLV8, characteristic.FormatData:
			c.UpdateValue("AQEB")
			c.UpdateValue("AQEC")
		default:
			c.UpdateValue(1)
			c.UpdateValue(0)
			c.UpdateValue(2)
		}
	}
	check(b.drainEvents(200 * time.Millisecond))

	// reads
	for name, c := range chars {
		m := a.get(fmt.Sprintf("/characteristics?id=%d.%d", acc.ID, c.ID))
		if !c.IsReadable() {
			if bytes.Contains(m.Body, []byte(`"value"`)) || !bytes.Contains(m.Body, []byte(`"status":-70405`)) {
				t.Errorf("%s perms %v: GET answered %d %s", name, c.Perms, m.Code, m.Body)
			}
		}
	}
	m := a.get("/accessories")
	var db struct {
		Accessories []struct {
			Services []struct {
				Characteristics []map[string]interface{} `json:"characteristics"`
			} `json:"services"`
		} `json:"accessories"`
	}
	if err := json.Unmarshal(m.Body, &db); err != nil {
		t.Fatalf("%v: %d bytes", err, len(m.Body))
	}
	n := 0
	for _, ac := range db.Accessories {
		for _, s := range ac.Services {
			for _, ch := range s.Characteristics {
				n++
				perms := fmt.Sprint(ch["perms"])
				if _, has := ch["value"]; has && !strings.Contains(perms, "pr") {
					t.Errorf("/accessories reveals %v", ch)
				}
			}
		}
	}
	t.Logf("%d characteristics in /accessories", n)
}

// Unusual but legal requests against a read-only, a write-only and a not observable characteristic.
func TestZZHunt4C11HTTPOddRequests(t *testing.T) {
	acc := accessory.New(accessory.Info{Name: "zz"}, accessory.TypeOther)
	svc := service.New("FFFF")
	ro := characteristic.NewCurrentTemperature() // pr ev
	wo := characteristic.NewRemoteKey()          // pw
	noev := characteristic.NewCurrentTime()      // pr pw
	cust := characteristic.NewCharacteristic("F001")
	cust.Format = characteristic.FormatInt32
	cust.Perms = []string{characteristic.PermEvents}
	rw := characteristic.NewBrightness()
	svc.AddCharacteristic(ro.Characteristic)
	svc.AddCharacteristic(wo.Characteristic)
	svc.AddCharacteristic(noev.Characteristic)
	svc.AddCharacteristic(cust)
	svc.AddCharacteristic(rw.Characteristic)
	acc.AddService(svc)
	ro.SetValue(21)
	var mu sync.Mutex
	calls := map[*characteristic.Characteristic]int{}
	for _, c := range svc.Characteristics {
		c := c
		c.OnValueUpdate(func(*characteristic.Characteristic, interface{}, interface{}) { mu.Lock(); calls[c]++; mu.Unlock() })
		c.OnValueUpdateFromConn(func(net.Conn, *characteristic.Characteristic, interface{}, interface{}) {
			mu.Lock()
			calls[c]++
			mu.Unlock()
		})
	}
	tr := zzTransport(t, acc)
	a := zzDial(t, tr)
	b := zzDial(t, tr)
	id := func(c *characteristic.Characteristic) string { return fmt.Sprintf(`"aid":%d,"iid":%d`, acc.ID, c.ID) }
	R, W, N, C := id(ro.Characteristic), id(wo.Characteristic), id(noev.Characteristic), id(cust)
	// b tries to subscribe in every way
	for _, ev := range []string{`"ev":true`, `"EV":true`, `"Ev":true`, `"ev":1`, `"ev":"true"`, `"ev":"1"`, `"ev":[true]`, `"ev":true,"ev":true`, `"ev":false,"ev":true`, `"value":null,"ev":true`} {
		for _, x := range []string{W, N} {
			m := b.put(`{"characteristics":[{` + x + `,` + ev + `}]}`)
			if !bytes.Contains(m.Body, []byte("-70406")) {
				t.Errorf("subscription %s on %s: %d %s", ev, x, m.Code, m.Body)
			}
		}
		b.put(`{"characteristics":[{` + R + `,` + ev + `},{` + C + `,` + ev + `}]}`)
	}
	bodies := []string{
		`{"characteristics":[{` + R + `,"value":5}]}`,
		`{"characteristics":[{` + R + `,"value":5,"value":6}]}`,
		`{"characteristics":[{` + R + `,"VALUE":5}]}`,
		`{"characteristics":[{` + R + `,"value":5},{` + R + `,"value":7}]}`,
		`{"CHARACTERISTICS":[{` + R + `,"value":"5"}]}`,
		`{"characteristics":[{` + R + `,"value":[5]}]}`,
		`{"characteristics":[{` + R + `,"value":{"value":5}}]}`,
		`{"characteristics":[{` + R + `,"value":-0}]}`,
		`{"characteristics":[{` + R + `,"value":true}]}`,
		`{"characteristics":[{` + R + `,"value":5,"ev":true,"extra":[1,2,{"a":null}]}]}`,
		`{"characteristics":[{` + C + `,"value":5}]}`,
		`{"characteristics":[{` + W + `,"value":5},{` + N + `,"value":"2020"},{` + R + `,"value":9}]}`,
		`{"characteristics":[{` + R + `,"value":1e2}],"characteristics":[{` + R + `,"value":33}]}`,
		` {"characteristics":[{` + R + `,"value":5}]} {"characteristics":[{` + R + `,"value":6}]}`,
	}
	reqs := []string{}
	for _, body := range bodies {
		reqs = append(reqs,
			fmt.Sprintf("PUT /characteristics HTTP/1.1\r\nHost: x\r\nContent-Length: %d\r\n\r\n%s", len(body), body),
			fmt.Sprintf("PUT /characteristics HTTP/1.0\r\nContent-Length: %d\r\nConnection: keep-alive\r\n\r\n%s", len(body), body),
			fmt.Sprintf("PUT /characteristics?id=1.2 HTTP/1.1\r\nHost: x\r\nTransfer-Encoding: chunked\r\n\r\n%x\r\n%s\r\n0\r\n\r\n", len(body), body),
			fmt.Sprintf("PUT /characteristics HTTP/1.1\r\nHost: x\r\nExpect: 100-continue\r\nContent-Length: %d\r\n\r\n%s", len(body), body),
			fmt.Sprintf("POST /characteristics HTTP/1.1\r\nHost: x\r\nContent-Length: %d\r\n\r\n%s", len(body), body),
			fmt.Sprintf("PATCH /characteristics HTTP/1.1\r\nHost: x\r\nX-HTTP-Method-Override: PUT\r\nContent-Length: %d\r\n\r\n%s", len(body), body),
			fmt.Sprintf("PUT /characteristics/ HTTP/1.1\r\nHost: x\r\nContent-Length: %d\r\n\r\n%s", len(body), body),
			fmt.Sprintf("PUT http://x/characteristics HTTP/1.1\r\nHost: x\r\nContent-Length: %d\r\n\r\n%s", len(body), body),
			fmt.Sprintf("GET /characteristics?id=%d.%d HTTP/1.1\r\nHost: x\r\nContent-Length: %d\r\n\r\n%s", acc.ID, wo.ID, len(body), body),
		)
	}
	// a pipelined pair in one frame
	reqs = append(reqs, reqs[0]+reqs[1])
	for _, rq := range reqs {
		n := strings.Count(rq, " HTTP/1.")
		a.send(rq)
		for i := 0; i < n; i++ {
			m, ok := a.recv()
			if !ok {
				t.Fatalf("no answer to %q", rq)
			}
			if m.Code == 100 {
				i--
				continue
			}
			if bytes.Contains(m.Body, []byte(`"value"`)) {
				t.Errorf("%q reveals %s", rq, m.Body)
			}
		}
		if ro.Value != float64(21) {
			t.Fatalf("%q changed the read-only value to %v", rq, ro.Value)
		}
		if wo.Value != nil || cust.Value != nil {
			t.Fatalf("%q stored %v %v", rq, wo.Value, cust.Value)
		}
		mu.Lock()
		if calls[ro.Characteristic] != 0 || calls[cust] != 0 {
			t.Fatalf("%q invoked callbacks %v", rq, calls)
		}
		mu.Unlock()
	}
	b.drainEvents(100 * time.Millisecond)
	// local updates of all five
	wo.SetValue(3)
	noev.SetValue("2021")
	cust.UpdateValue(4)
	time.Sleep(50 * time.Millisecond)
	for _, e := range b.drainEvents(100 * time.Millisecond) {
		if !bytes.Contains(e.Body, []byte(fmt.Sprintf(`"iid":%d,"value":null`, cust.ID))) {
			t.Errorf("EVENT %s", e.Body)
		}
	}
	ro.SetValue(22)
	if evs := b.drainEvents(200 * time.Millisecond); len(evs) != 1 {
		t.Errorf("harness: %d events for the observable characteristic", len(evs))
	}
}

// CLAUSE: "a characteristic without read permission never stores or reveals a value", for a custom permission
// set on a characteristic of a library constructor. The only way the library offers to give a constructed
// characteristic a custom permission set is the exported field (the library's own TestReadOnlyValue does
// `c := NewBrightness(); c.Perms = PermsRead()`). The constructor has stored its default value by then; the
// permission is looked at only when a value is stored, never when it is served: /accessories and EVENT
// messages go on carrying the value, and the stale value makes the same-value short cut swallow a remote write.
func TestZZHunt4C11CustomPermsOnConstructedCharacteristic(t *testing.T) {
	acc := accessory.New(accessory.Info{Name: "zz"}, accessory.TypeOther)
	svc := service.New("FFFF")
	br := characteristic.NewBrightness()
	br.Perms = []string{characteristic.PermWrite, characteristic.PermEvents} // custom: no "pr"
	svc.AddCharacteristic(br.Characteristic)
	acc.AddService(svc)
	tr := zzTransport(t, acc)
	a := zzDial(t, tr)
	b := zzDial(t, tr)

	m := a.get("/accessories")
	re := fmt.Sprintf(`"iid":%d,"type":"%s","perms":["pw","ev"],"value":`, br.ID, br.Type)
	if bytes.Contains(m.Body, []byte(re)) {
		i := bytes.Index(m.Body, []byte(re))
		t.Errorf("/accessories reveals a value of a characteristic without read permission: ...%s...", m.Body[i:i+len(re)+12])
	}
	if m := b.put(fmt.Sprintf(`{"characteristics":[{"aid":%d,"iid":%d,"ev":true}]}`, acc.ID, br.ID)); m.Code != 204 {
		t.Fatalf("%d %s", m.Code, m.Body)
	}
	got := 0
	br.OnValueRemoteUpdate(func(int) { got++ })
	a.put(fmt.Sprintf(`{"characteristics":[{"aid":%d,"iid":%d,"value":40}]}`, acc.ID, br.ID))
	for _, e := range b.drainEvents(200 * time.Millisecond) {
		if !bytes.Contains(e.Body, []byte(`"value":null`)) {
			t.Errorf("EVENT reveals a value of a characteristic without read permission: %s", e.Body)
		}
	}
	if br.Value != nil {
		t.Errorf("a characteristic with perms %v still stores the value %v after a write", br.Perms, br.Value)
	}
	// not promised by the property, but the same root cause: the write of the stale value is lost
	a.put(fmt.Sprintf(`{"characteristics":[{"aid":%d,"iid":%d,"value":0}]}`, acc.ID, br.ID))
	if got != 2 {
		t.Logf("(consequence) %d of 2 remote writes reached the application: the write of 0 equals the stale stored value", got)
	}
}

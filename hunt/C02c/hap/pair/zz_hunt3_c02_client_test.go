package pair

// hunt3 / C02, mirror image on hc's own controller side (SetupClientController,
// used by _example/client.go): BORDERLINE, the statement of C02 names the
// accessory side. The clause shown broken, read for the peer role:
// "stores a peer's name and long-term public key only when [...] the peer
// proved knowledge of the setup code [...] and then delivered exactly that name
// and key in a correctly authenticated and signed key-exchange message. Every
// other message sequence ([...] reordered [...] or messages encrypted under keys
// that do not come from a completed proof) leaves the set of stored pairings
// exactly as it was."

import (
	"bytes"
	"testing"

	"github.com/brutella/hc/crypto"
	"github.com/brutella/hc/crypto/chacha20poly1305"
	"github.com/brutella/hc/crypto/hkdf"
	"github.com/brutella/hc/db"
	"github.com/brutella/hc/hap"
	"github.com/brutella/hc/util"
)

func h3names(t *testing.T, d db.Database) []string {
	es, err := d.Entities()
	if err != nil {
		t.Fatal(err)
	}
	var l []string
	for _, e := range es {
		l = append(l, e.Name)
	}
	return l
}

// History: the controller sends M1 (start); an impostor that does not know the
// setup code answers at once with a key-exchange response (M6) sealed under the
// all-zero key. The client has no step check and its encryption key is still
// zero-valued: it stores the impostor's name and key as the accessory.
func TestHunt3C02ClientStoresKeyFromZeroKeyM6(t *testing.T) {
	clientDatabase, _ := db.NewTempDatabase()
	client, _ := hap.NewDevice("Client", clientDatabase)
	cc := NewSetupClientController("001-02-003", client, clientDatabase)
	_ = cc.InitialPairingRequest() // M1 goes out

	before := h3names(t, clientDatabase)

	sub := util.NewTLV8Container()
	sub.SetString(TagUsername, "impostor")
	sub.SetBytes(TagPublicKey, bytes.Repeat([]byte{0x42}, 32))
	sub.SetBytes(TagSignature, make([]byte, 64)) // not a signature of anything
	var zero [32]byte
	enc, tag, _ := chacha20poly1305.EncryptAndSeal(zero[:], []byte("PS-Msg06"), sub.BytesBuffer().Bytes(), nil)
	m6 := util.NewTLV8Container()
	m6.SetByte(TagSequence, PairStepKeyExchangeResponse.Byte())
	m6.SetBytes(TagEncryptedData, append(enc, tag[:]...))

	_, err := HandleReaderForHandler(m6.BytesBuffer(), cc)
	t.Logf("Handle: %v", err)

	after := h3names(t, clientDatabase)
	if len(after) != len(before) {
		e, _ := clientDatabase.EntityWithName("impostor")
		t.Fatalf("stored pairings changed from %q to %q by an M6 sealed under the all-zero key, no setup-code proof in either direction (key %x)", before, after, e.PublicKey)
	}
}

// History: honest M1..M5 against the real accessory code, but the M6 that
// reaches the client carries another name and key and a signature that does not
// verify (sealed under the session key: the peer knows the code, e.g. a second
// holder of the code in the path). The client never checks the signature.
func TestHunt3C02ClientStoresUnsignedM6(t *testing.T) {
	storage, _ := util.NewTempFileStorage()
	database := db.NewDatabaseWithStorage(storage)
	bridge, _ := hap.NewSecuredDevice("Bridge", "001-02-003", database)
	controller, _ := NewSetupServerController(bridge, database)

	clientDatabase, _ := db.NewTempDatabase()
	client, _ := hap.NewDevice("Client", clientDatabase)
	cc := NewSetupClientController("001-02-003", client, clientDatabase)

	r, err := HandleReaderForHandler(cc.InitialPairingRequest(), controller)
	if err != nil {
		t.Fatal(err)
	}
	r, err = HandleReaderForHandler(r, cc)
	if err != nil {
		t.Skip("known SRP padding flake: ", err)
	}
	r, err = HandleReaderForHandler(r, controller)
	if err != nil {
		t.Fatal(err)
	}
	if _, err = HandleReaderForHandler(r, cc); err != nil {
		t.Skip("known SRP padding flake: ", err)
	}

	// M6 built with the session key, without the accessory's long-term secret key
	K := cc.session.EncryptionKey
	_, otherPriv, _ := crypto.ED25519GenerateKey(util.RandomHexString())
	hash, _ := hkdf.Sha512(cc.session.PrivateKey, []byte("Pair-Setup-Accessory-Sign-Salt"), []byte("Pair-Setup-Accessory-Sign-Info"))
	claimed := bytes.Repeat([]byte{0x17}, 32) // a key whose secret half nobody showed
	material := append(append(hash[:], []byte("Bridge")...), claimed...)
	sig, _ := crypto.ED25519Signature(otherPriv, material) // signed with an unrelated key
	if crypto.ValidateED25519Signature(claimed, material, sig) {
		t.Fatal("harness: signature must not verify")
	}
	sub := util.NewTLV8Container()
	sub.SetString(TagUsername, "Bridge")
	sub.SetBytes(TagPublicKey, claimed)
	sub.SetBytes(TagSignature, sig)
	enc, tag, _ := chacha20poly1305.EncryptAndSeal(K[:], []byte("PS-Msg06"), sub.BytesBuffer().Bytes(), nil)
	m6 := util.NewTLV8Container()
	m6.SetByte(TagSequence, PairStepKeyExchangeResponse.Byte())
	m6.SetBytes(TagEncryptedData, append(enc, tag[:]...))

	if _, err = HandleReaderForHandler(m6.BytesBuffer(), cc); err != nil {
		t.Logf("Handle: %v", err)
	}
	if e, err := clientDatabase.EntityWithName("Bridge"); err == nil {
		t.Fatalf("client stored key %x for %q although the signature in M6 does not verify", e.PublicKey, e.Name)
	}
}

// Sibling of fix 85c5920 (server side only): a key-exchange response with fewer
// than 16 bytes of encrypted data panics the client.
func TestHunt3C02ClientShortM6(t *testing.T) {
	clientDatabase, _ := db.NewTempDatabase()
	client, _ := hap.NewDevice("Client", clientDatabase)
	cc := NewSetupClientController("001-02-003", client, clientDatabase)
	m6 := util.NewTLV8Container()
	m6.SetByte(TagSequence, PairStepKeyExchangeResponse.Byte())
	m6.SetBytes(TagEncryptedData, []byte{1, 2, 3})
	defer func() {
		if r := recover(); r != nil {
			t.Fatalf("panic: %v", r)
		}
	}()
	_, err := HandleReaderForHandler(m6.BytesBuffer(), cc)
	t.Logf("Handle: %v", err)
}

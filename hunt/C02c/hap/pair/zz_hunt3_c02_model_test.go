package pair

// hunt3 / C02: randomised histories over the pair-setup alphabet on one or two
// connections (= two controllers over one database), checked against the
// oracle of the property: the set of stored entities may change only when the
// message is a genuine key exchange of an exchange whose proof was accepted.

import (
	"bytes"
	"crypto/rand"
	"crypto/sha512"
	"fmt"
	mrand "math/rand"
	"os"
	"sort"
	"strconv"
	"strings"
	"testing"

	"github.com/brutella/hc/crypto"
	"github.com/brutella/hc/crypto/chacha20poly1305"
	"github.com/brutella/hc/crypto/hkdf"
	"github.com/brutella/hc/db"
	"github.com/brutella/hc/hap"
	"github.com/brutella/hc/util"
	"github.com/tadglines/go-pkgs/crypto/srp"
)

type h3conn struct {
	ctrl *SetupServerController

	// what the peer knows
	salt, B []byte
	cs      *srp.ClientSession
	S       []byte   // of the last verify sent (whatever pin)
	K       [32]byte // hkdf of S
	haveS   bool

	// oracle
	proven bool // the latest start was followed by an accepted right proof, nothing stored since
}

type h3world struct {
	t      *testing.T
	dbase  db.Database
	device hap.SecuredDevice
	pin    string
	conns  []*h3conn
	saved  [][]byte // genuine M5 bodies of earlier exchanges
	log    []string
	idn    int
}

func h3snapshot(d db.Database) string {
	es, err := d.Entities()
	if err != nil {
		return "ERR " + err.Error()
	}
	var l []string
	for _, e := range es {
		l = append(l, fmt.Sprintf("%q=%x/%d", e.Name, e.PublicKey, len(e.PrivateKey)))
	}
	sort.Strings(l)
	return strings.Join(l, ";")
}

func h3srp() *srp.SRP {
	s, _ := srp.NewSRP(SRPGroup, sha512.New, KeyDerivativeFuncRFC2945(sha512.New, []byte("Pair-Setup")))
	return s
}

func (w *h3world) send(c *h3conn, in util.Container) (util.Container, error) {
	// through the bytes, like the endpoint
	r, err := util.NewTLV8ContainerFromReader(bytes.NewReader(in.BytesBuffer().Bytes()))
	if err != nil {
		return nil, err
	}
	return c.ctrl.Handle(r)
}

func h3m5(K []byte, S []byte, name string, pub, priv []byte, breakSig bool) []byte {
	hash, _ := hkdf.Sha512(S, []byte("Pair-Setup-Controller-Sign-Salt"), []byte("Pair-Setup-Controller-Sign-Info"))
	var material []byte
	material = append(material, hash[:]...)
	material = append(material, name...)
	material = append(material, pub...)
	sig, _ := crypto.ED25519Signature(priv, material)
	if breakSig {
		sig[5] ^= 1
	}
	sub := util.NewTLV8Container()
	sub.SetString(TagUsername, name)
	sub.SetBytes(TagPublicKey, pub)
	sub.SetBytes(TagSignature, sig)
	enc, tag, _ := chacha20poly1305.EncryptAndSeal(K, []byte("PS-Msg05"), sub.BytesBuffer().Bytes(), nil)
	return append(enc, tag[:]...)
}

func (w *h3world) step(rnd *mrand.Rand) {
	c := w.conns[rnd.Intn(len(w.conns))]
	ci := 0
	for i := range w.conns {
		if w.conns[i] == c {
			ci = i
		}
	}
	before := h3snapshot(w.dbase)
	allowed := false
	var wantName string
	var wantKey []byte
	out := util.NewTLV8Container()
	letter := ""
	if rnd.Intn(4) != 0 {
		out.SetByte(TagPairingMethod, 0)
	}

	newID := func() (string, []byte, []byte) {
		w.idn++
		name := "ctl-" + strconv.Itoa(w.idn)
		switch rnd.Intn(8) {
		case 0:
			name = ""
		case 1:
			name = "\xff\xfe" + name
		case 2:
			name = strings.Repeat("n", 100+rnd.Intn(60))
		}
		pub, priv, _ := crypto.ED25519GenerateKey(util.RandomHexString())
		return name, pub, priv
	}

	k := rnd.Intn(22)
	if rnd.Intn(2) == 0 {
		// the next letter of the honest path, as far as the peer can tell
		switch {
		case c.proven:
			k = 11
		case c.B != nil && !c.haveS:
			k = 4
		default:
			k = 0
		}
	}
	switch {
	case k < 4:
		letter = "start"
		out.SetByte(TagSequence, 1)
		c.proven = false // a new exchange (if accepted) or a reset
	case k < 7:
		letter = "verify-right"
		out.SetByte(TagSequence, 3)
		if c.B == nil {
			letter = "verify-right(no B: zero A)"
			out.SetBytes(TagPublicKey, []byte{1})
			out.SetBytes(TagProof, make([]byte, 64))
			break
		}
		cs := h3srp().NewClientSession([]byte("Pair-Setup"), []byte(w.pin))
		S, err := cs.ComputeKey(c.salt, c.B)
		if err != nil {
			w.t.Fatal(err)
		}
		c.cs, c.S, c.haveS = cs, S, true
		c.K, _ = hkdf.Sha512(S, []byte("Pair-Setup-Encrypt-Salt"), []byte("Pair-Setup-Encrypt-Info"))
		out.SetBytes(TagPublicKey, cs.GetA())
		out.SetBytes(TagProof, cs.ComputeAuthenticator())
	case k < 9:
		letter = "verify-wrong-pin"
		out.SetByte(TagSequence, 3)
		if c.B == nil {
			break
		}
		cs := h3srp().NewClientSession([]byte("Pair-Setup"), []byte("111-11-111"))
		S, _ := cs.ComputeKey(c.salt, c.B)
		c.cs, c.S, c.haveS = cs, S, true
		c.K, _ = hkdf.Sha512(S, []byte("Pair-Setup-Encrypt-Salt"), []byte("Pair-Setup-Encrypt-Info"))
		out.SetBytes(TagPublicKey, cs.GetA())
		out.SetBytes(TagProof, cs.ComputeAuthenticator())
	case k < 11:
		out.SetByte(TagSequence, 3)
		N := h3srp().Group.Prime
		switch rnd.Intn(6) {
		case 0:
			letter = "verify-A=0"
			out.SetBytes(TagPublicKey, []byte{0})
		case 1:
			letter = "verify-A=N"
			out.SetBytes(TagPublicKey, N.Bytes())
		case 2:
			letter = "verify-A-missing"
		case 3:
			letter = "verify-A=1"
			out.SetBytes(TagPublicKey, []byte{1})
		case 4:
			letter = "verify-A=N-1"
			b := N.Bytes()
			b[len(b)-1]--
			out.SetBytes(TagPublicKey, b)
		case 5:
			letter = "verify-A=2N"
			out.SetBytes(TagPublicKey, append(N.Bytes(), 0)[0:len(N.Bytes())]) // =N
		}
		if rnd.Intn(2) == 0 {
			out.SetBytes(TagProof, make([]byte, 64))
		}
		// guesses of the peer for what the keys may be now
		c.S, c.haveS = nil, true
		c.K, _ = hkdf.Sha512(nil, []byte("Pair-Setup-Encrypt-Salt"), []byte("Pair-Setup-Encrypt-Info"))
	case k < 14:
		letter = "keyex-with-what-the-peer-has"
		out.SetByte(TagSequence, 5)
		name, pub, priv := newID()
		if !c.haveS {
			c.K = [32]byte{}
		}
		body := h3m5(c.K[:], c.S, name, pub, priv, false)
		out.SetBytes(TagEncryptedData, body)
		if c.proven {
			allowed = true
			wantName, wantKey = name, pub
			w.saved = append(w.saved, body)
		}
		c.proven = false
	case k < 15:
		letter = "keyex-bad-signature"
		out.SetByte(TagSequence, 5)
		name, pub, priv := newID()
		out.SetBytes(TagEncryptedData, h3m5(c.K[:], c.S, name, pub, priv, true))
		c.proven = false
	case k < 16:
		letter = "keyex-accessory-name"
		out.SetByte(TagSequence, 5)
		_, pub, priv := newID()
		out.SetBytes(TagEncryptedData, h3m5(c.K[:], c.S, w.device.Name(), pub, priv, false))
		c.proven = false
	case k < 17:
		letter = "keyex-tampered"
		out.SetByte(TagSequence, 5)
		name, pub, priv := newID()
		body := h3m5(c.K[:], c.S, name, pub, priv, false)
		body[rnd.Intn(len(body))] ^= 0x40
		out.SetBytes(TagEncryptedData, body)
		c.proven = false
	case k < 18:
		letter = "keyex-short"
		out.SetByte(TagSequence, 5)
		name, pub, priv := newID()
		body := h3m5(c.K[:], c.S, name, pub, priv, false)
		out.SetBytes(TagEncryptedData, body[:rnd.Intn(40)])
		c.proven = false
	case k < 19:
		letter = "keyex-replayed"
		out.SetByte(TagSequence, 5)
		if len(w.saved) > 0 {
			out.SetBytes(TagEncryptedData, w.saved[rnd.Intn(len(w.saved))])
		}
		c.proven = false
	case k < 20:
		out.SetByte(TagSequence, 5)
		name, pub, priv := newID()
		var K [32]byte
		var S []byte
		switch rnd.Intn(4) {
		case 0:
			letter = "keyex-zero-key"
		case 1:
			letter = "keyex-hkdf-of-nothing"
			K, _ = hkdf.Sha512(nil, []byte("Pair-Setup-Encrypt-Salt"), []byte("Pair-Setup-Encrypt-Info"))
		case 2:
			letter = "keyex-random-key"
			rand.Read(K[:])
		case 3:
			letter = "keyex-key-of-other-connection"
			o := w.conns[(ci+1)%len(w.conns)]
			K, S = o.K, o.S
		}
		out.SetBytes(TagEncryptedData, h3m5(K[:], S, name, pub, priv, false))
		// with two connections which both proved, the key of the other
		// one is not the key of this exchange: still not allowed
		if letter == "keyex-key-of-other-connection" && len(w.conns) == 1 && c.proven {
			allowed, wantName, wantKey = true, name, pub
		}
		c.proven = false
	case k < 21:
		letter = "unknown-step"
		out.SetByte(TagSequence, byte(7+rnd.Intn(200)))
		if rnd.Intn(2) == 0 {
			out.SetByte(TagSequence, []byte{0, 2, 4, 6}[rnd.Intn(4)])
		}
	default:
		letter = "unknown-method"
		out = util.NewTLV8Container()
		out.SetByte(TagPairingMethod, byte(1+rnd.Intn(5)))
		out.SetByte(TagSequence, byte(1+2*rnd.Intn(3)))
	}

	resp, err := w.send(c, out)
	desc := fmt.Sprintf("c%d %s", ci, letter)

	// what the peer learns from the answer
	if err == nil && resp != nil {
		switch resp.GetByte(TagSequence) {
		case 2:
			if strings.HasPrefix(letter, "start") {
				c.salt, c.B = resp.GetBytes(TagSalt), resp.GetBytes(TagPublicKey)
				c.haveS = false
			}
		case 4:
			if letter == "verify-right" && resp.GetByte(TagErrCode) == 0 && len(resp.GetBytes(TagProof)) > 0 {
				if !c.cs.VerifyServerAuthenticator(resp.GetBytes(TagProof)) {
					w.t.Fatalf("M2 wrong")
				}
				c.proven = true
				desc += " (accepted)"
			} else if len(resp.GetBytes(TagProof)) > 0 {
				w.t.Fatalf("%v | %s: server proof handed out without a right client proof", w.log, desc)
			}
		case 6:
			if len(resp.GetBytes(TagEncryptedData)) > 0 {
				desc += " (M6 with data)"
				if !allowed {
					w.t.Fatalf("%v | %s: M6 success for a message that must not be accepted", w.log, desc)
				}
			}
		}
		desc += fmt.Sprintf(" ->seq%d/err%d", resp.GetByte(TagSequence), resp.GetByte(TagErrCode))
	} else {
		desc += " ->error"
		if strings.HasPrefix(letter, "start") {
			// rejected start: the old B is still the last one the peer saw; no exchange
		}
	}
	if !strings.HasPrefix(letter, "verify-right") || !strings.Contains(desc, "accepted") {
		if strings.HasPrefix(letter, "verify") {
			c.proven = false
		}
	}
	w.log = append(w.log, desc)

	after := h3snapshot(w.dbase)
	if after != before {
		if !allowed {
			w.t.Fatalf("history %v\nstored set changed by a message that is not a genuine key exchange of a proven exchange:\n before %s\n after  %s", w.log, before, after)
		}
		e, err := w.dbase.EntityWithName(wantName)
		if err != nil || e.Name != wantName || !bytes.Equal(e.PublicKey, wantKey) || len(e.PrivateKey) != 0 {
			w.t.Fatalf("history %v\nstored something else than delivered: %q %x (%v)", w.log, e.Name, e.PublicKey, err)
		}
		// and nothing else changed
		exp := strings.Split(before, ";")
		if before == "" {
			exp = nil
		}
		// a proven controller that uses a name again replaces that entry
		for i := range exp {
			if strings.HasPrefix(exp[i], fmt.Sprintf("%q=", wantName)) {
				exp = append(exp[:i], exp[i+1:]...)
				break
			}
		}
		exp = append(exp, fmt.Sprintf("%q=%x/%d", wantName, wantKey, 0))
		sort.Strings(exp)
		if strings.Join(exp, ";") != after {
			w.t.Fatalf("history %v\nmore than one entity changed:\n before %s\n after  %s", w.log, before, after)
		}
	}
}

func TestHunt3C02RandomHistories(t *testing.T) {
	seeds := 60
	if s := os.Getenv("H3_SEEDS"); s != "" {
		seeds, _ = strconv.Atoi(s)
	}
	base := int64(1)
	if s := os.Getenv("H3_BASE"); s != "" {
		base, _ = strconv.ParseInt(s, 10, 64)
	}
	stored := 0
	for seed := base; seed < base+int64(seeds); seed++ {
		rnd := mrand.New(mrand.NewSource(seed))
		storage, err := util.NewTempFileStorage()
		if err != nil {
			t.Fatal(err)
		}
		database := db.NewDatabaseWithStorage(storage)
		pin := []string{"001-02-003", "00102003", "123-45-678"}[rnd.Intn(3)]
		device, err := hap.NewSecuredDevice("Acc:"+strconv.Itoa(int(seed)), pin, database)
		if err != nil {
			t.Fatal(err)
		}
		w := &h3world{t: t, dbase: database, device: device, pin: pin}
		for i := 0; i < 1+rnd.Intn(2); i++ {
			ctrl, err := NewSetupServerController(device, database)
			if err != nil {
				t.Fatal(err)
			}
			w.conns = append(w.conns, &h3conn{ctrl: ctrl})
		}
		for i := 0; i < 40; i++ {
			w.step(rnd)
		}
		es, _ := database.Entities()
		stored += len(es) - 1
	}
	t.Logf("%d seeds, %d legitimate pairings stored", seeds, stored)
}

package hap

// hunt3 / C02 side finding (NOT a violation of C02: nothing is stored): fix
// 3a64b84 "closing a connection removes its own session only" checks and
// deletes in two steps. A connection from the same address and port that is
// accepted between the two steps loses its session; its /pair-setup request
// then panics in the endpoint (nil session) and the connection is dropped.
// Seen over real TCP about once in 300 reconnects
// (hap/http TestHunt3C02ReconnectSamePort: "no response: unexpected EOF").
// This test forces the schedule with a context that runs a hook between the
// look-up and the removal.

import (
	"net"
	"testing"
	"time"
)

type h3addr string

func (a h3addr) Network() string { return "tcp" }
func (a h3addr) String() string  { return string(a) }

type h3fakeConn struct{ name string }

func (c *h3fakeConn) Read(b []byte) (int, error)         { return 0, nil }
func (c *h3fakeConn) Write(b []byte) (int, error)        { return len(b), nil }
func (c *h3fakeConn) Close() error                       { return nil }
func (c *h3fakeConn) LocalAddr() net.Addr                { return h3addr("10.0.0.1:5000") }
func (c *h3fakeConn) RemoteAddr() net.Addr               { return h3addr("10.0.0.2:40000") }
func (c *h3fakeConn) SetDeadline(t time.Time) error      { return nil }
func (c *h3fakeConn) SetReadDeadline(t time.Time) error  { return nil }
func (c *h3fakeConn) SetWriteDeadline(t time.Time) error { return nil }

type h3hookContext struct {
	Context
	afterLookup func()
}

func (c *h3hookContext) GetSessionForConnection(conn net.Conn) Session {
	s := c.Context.GetSessionForConnection(conn)
	if f := c.afterLookup; f != nil {
		c.afterLookup = nil
		f()
	}
	return s
}

func TestHunt3C02CloseRemovesSessionOfNewConnection(t *testing.T) {
	ctx := &h3hookContext{Context: NewContextForSecuredDevice(nil)}
	oldRaw, newRaw := &h3fakeConn{"old"}, &h3fakeConn{"new"}
	old := NewConnection(oldRaw, ctx)

	var newer *Connection
	accepted := make(chan struct{})
	ctx.afterLookup = func() {
		// the listener accepts the reconnect from the same address and port
		// (own goroutine, like the accept loop; it gets 200ms to run here,
		// between the look-up and the removal)
		go func() {
			newer = NewConnection(newRaw, ctx)
			close(accepted)
		}()
		select {
		case <-accepted:
		case <-time.After(200 * time.Millisecond):
		}
	}
	old.Close()
	<-accepted

	s := ctx.Context.GetSessionForConnection(newRaw)
	if s == nil {
		t.Fatal("closing the old connection removed the session of the new connection")
	}
	if s.Connection() != net.Conn(newer) {
		t.Fatal("session of another connection")
	}
}

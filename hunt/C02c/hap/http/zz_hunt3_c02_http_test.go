package http_test

// hunt3 / C02 probes over real TCP connections: is the proof of one connection
// usable on another one (interleaved, or a reconnect from the same address and port)?

import (
	"bufio"
	"bytes"
	"context"
	"crypto/sha512"
	"fmt"
	"net"
	nethttp "net/http"
	"sync"
	"syscall"
	"testing"
	"time"

	"github.com/brutella/hc/accessory"
	"github.com/brutella/hc/crypto"
	"github.com/brutella/hc/crypto/chacha20poly1305"
	"github.com/brutella/hc/crypto/hkdf"
	"github.com/brutella/hc/db"
	"github.com/brutella/hc/event"
	"github.com/brutella/hc/hap"
	haphttp "github.com/brutella/hc/hap/http"
	"github.com/brutella/hc/hap/pair"
	"github.com/brutella/hc/util"
	"github.com/tadglines/go-pkgs/crypto/srp"
)

const h3pin = "001-02-003"

type h3srv struct {
	addr string
	db   db.Database
	stop func()
}

func h3start(t *testing.T) *h3srv {
	storage, err := util.NewTempFileStorage()
	if err != nil {
		t.Fatal(err)
	}
	database := db.NewDatabaseWithStorage(storage)
	device, err := hap.NewSecuredDevice("Acc", h3pin, database)
	if err != nil {
		t.Fatal(err)
	}
	a := accessory.NewSwitch(accessory.Info{Name: "sw"})
	cont := accessory.NewContainer()
	cont.AddAccessory(a.Accessory)
	s := haphttp.NewServer(haphttp.Config{
		Port:      "127.0.0.1:0",
		Context:   hap.NewContextForSecuredDevice(device),
		Database:  database,
		Container: cont,
		Device:    device,
		Mutex:     &sync.Mutex{},
		Emitter:   event.NewEmitter(),
	})
	ctx, cancel := context.WithCancel(context.Background())
	go s.ListenAndServe(ctx)
	return &h3srv{addr: "127.0.0.1:" + s.Port(), db: database, stop: cancel}
}

type h3cli struct {
	c net.Conn
	r *bufio.Reader
}

func h3dial(t *testing.T, addr string, localPort int) *h3cli {
	d := net.Dialer{Timeout: 2 * time.Second}
	{
		d.LocalAddr = &net.TCPAddr{IP: net.ParseIP("127.0.0.1"), Port: localPort}
		d.Control = func(network, address string, c syscall.RawConn) error {
			return c.Control(func(fd uintptr) {
				syscall.SetsockoptInt(int(fd), syscall.SOL_SOCKET, syscall.SO_REUSEADDR, 1)
			})
		}
	}
	c, err := d.Dial("tcp", addr)
	if err != nil {
		t.Fatal(err)
	}
	return &h3cli{c: c, r: bufio.NewReader(c)}
}

func (c *h3cli) post(t *testing.T, body util.Container) (int, util.Container) {
	b := body.BytesBuffer().Bytes()
	fmt.Fprintf(c.c, "POST /pair-setup HTTP/1.1\r\nHost: x\r\nContent-Type: application/pairing+tlv8\r\nContent-Length: %d\r\n\r\n", len(b))
	c.c.Write(b)
	c.c.SetReadDeadline(time.Now().Add(5 * time.Second))
	resp, err := nethttp.ReadResponse(c.r, nil)
	if err != nil {
		t.Fatalf("no response: %v", err)
	}
	defer resp.Body.Close()
	out, err := util.NewTLV8ContainerFromReader(resp.Body)
	if err != nil {
		t.Fatal(err)
	}
	return resp.StatusCode, out
}

type h3keys struct {
	S []byte
	K [32]byte
}

// proves the setup code on the connection (M1..M4)
func (c *h3cli) prove(t *testing.T) h3keys {
	m1 := util.NewTLV8Container()
	m1.SetByte(pair.TagPairingMethod, 0)
	m1.SetByte(pair.TagSequence, 1)
	_, m2 := c.post(t, m1)
	if m2.GetByte(pair.TagSequence) != 2 {
		t.Fatalf("M2: %v", m2)
	}
	sp, _ := srp.NewSRP(pair.SRPGroup, sha512.New, pair.KeyDerivativeFuncRFC2945(sha512.New, []byte("Pair-Setup")))
	cs := sp.NewClientSession([]byte("Pair-Setup"), []byte(h3pin))
	S, err := cs.ComputeKey(m2.GetBytes(pair.TagSalt), m2.GetBytes(pair.TagPublicKey))
	if err != nil {
		t.Fatal(err)
	}
	m3 := util.NewTLV8Container()
	m3.SetByte(pair.TagSequence, 3)
	m3.SetBytes(pair.TagPublicKey, cs.GetA())
	m3.SetBytes(pair.TagProof, cs.ComputeAuthenticator())
	_, m4 := c.post(t, m3)
	if m4.GetByte(pair.TagErrCode) != 0 || !cs.VerifyServerAuthenticator(m4.GetBytes(pair.TagProof)) {
		t.Skip("M4 not accepted (known: SRP values with a leading zero byte)")
	}
	k := h3keys{S: S}
	k.K, _ = hkdf.Sha512(S, []byte("Pair-Setup-Encrypt-Salt"), []byte("Pair-Setup-Encrypt-Info"))
	return k
}

func h3m5(k h3keys, name string) util.Container {
	pub, priv, _ := crypto.ED25519GenerateKey(util.RandomHexString())
	hash, _ := hkdf.Sha512(k.S, []byte("Pair-Setup-Controller-Sign-Salt"), []byte("Pair-Setup-Controller-Sign-Info"))
	var material []byte
	material = append(material, hash[:]...)
	material = append(material, name...)
	material = append(material, pub...)
	sig, _ := crypto.ED25519Signature(priv, material)
	sub := util.NewTLV8Container()
	sub.SetString(pair.TagUsername, name)
	sub.SetBytes(pair.TagPublicKey, pub)
	sub.SetBytes(pair.TagSignature, sig)
	enc, tag, _ := chacha20poly1305.EncryptAndSeal(k.K[:], []byte("PS-Msg05"), sub.BytesBuffer().Bytes(), nil)
	out := util.NewTLV8Container()
	out.SetByte(pair.TagSequence, 5)
	out.SetBytes(pair.TagEncryptedData, append(enc, tag[:]...))
	return out
}

func h3names(t *testing.T, d db.Database) string {
	es, err := d.Entities()
	if err != nil {
		t.Fatal(err)
	}
	var b bytes.Buffer
	for _, e := range es {
		if len(e.PrivateKey) == 0 {
			fmt.Fprintf(&b, "%q ", e.Name)
		}
	}
	return b.String()
}

// The key exchange of connection A sent on connection B (which proved nothing,
// or proved in its own exchange) must not store anything.
func TestHunt3C02ProofOfOtherConnection(t *testing.T) {
	s := h3start(t)
	defer s.stop()
	a := h3dial(t, s.addr, 0)
	b := h3dial(t, s.addr, 0)
	ka := a.prove(t)

	// B: nothing proven
	_, r := b.post(t, h3m5(ka, "via-b-1"))
	t.Logf("B unproven: seq %d err %d", r.GetByte(pair.TagSequence), r.GetByte(pair.TagErrCode))
	if n := h3names(t, s.db); n != "" {
		t.Fatalf("stored %s", n)
	}
	// B: proven in its own exchange, key exchange under A's keys
	b.prove(t)
	_, r = b.post(t, h3m5(ka, "via-b-2"))
	t.Logf("B proven, A's keys: seq %d err %d", r.GetByte(pair.TagSequence), r.GetByte(pair.TagErrCode))
	if n := h3names(t, s.db); n != "" {
		t.Fatalf("stored %s", n)
	}
	// A is still usable
	_, r = a.post(t, h3m5(ka, "via-a"))
	if n := h3names(t, s.db); n != `"via-a" ` {
		t.Fatalf("stored %q, seq %d err %d", n, r.GetByte(pair.TagSequence), r.GetByte(pair.TagErrCode))
	}
}

// Reconnect from the same address and port: the exchange of the connection
// that went away must not be continued by the new connection.
func TestHunt3C02ReconnectSamePort(t *testing.T) {
	s := h3start(t)
	defer s.stop()
	for i := 0; i < 150; i++ {
		a := h3dial(t, s.addr, 0)
		port := a.c.LocalAddr().(*net.TCPAddr).Port
		ka := a.prove(t)
		a.c.(*net.TCPConn).SetLinger(0)
		a.c.Close() // RST
		var b *h3cli
		for try := 0; ; try++ {
			d := net.Dialer{Timeout: time.Second, LocalAddr: &net.TCPAddr{IP: net.ParseIP("127.0.0.1"), Port: port}}
			d.Control = func(network, address string, c syscall.RawConn) error {
				return c.Control(func(fd uintptr) {
					syscall.SetsockoptInt(int(fd), syscall.SOL_SOCKET, syscall.SO_REUSEADDR, 1)
				})
			}
			c, err := d.Dial("tcp", s.addr)
			if err == nil {
				b = &h3cli{c: c, r: bufio.NewReader(c)}
				break
			}
			if try > 200 {
				t.Fatal(err)
			}
		}
		code, r := b.post(t, h3m5(ka, fmt.Sprintf("reconnect-%d", i)))
		if n := h3names(t, s.db); n != "" {
			t.Fatalf("round %d: the new connection continued the exchange of the old one: stored %s (status %d seq %d err %d)", i, n, code, r.GetByte(pair.TagSequence), r.GetByte(pair.TagErrCode))
		}
		b.c.Close()
	}
}

package hc_test

import (
	"encoding/json"
	"reflect"
	"testing"

	"github.com/brutella/hc/accessory"
)

func accs(info accessory.Info) map[string]interface{} {
	return map[string]interface{}{
		"New":        accessory.New(info, accessory.TypeOther),
		"Bridge":     accessory.NewBridge(info),
		"Camera":     accessory.NewCamera(info),
		"ColoredLB":  accessory.NewColoredLightbulb(info),
		"Lightbulb":  accessory.NewLightbulb(info),
		"Outlet":     accessory.NewOutlet(info),
		"Switch":     accessory.NewSwitch(info),
		"Television": accessory.NewTelevision(info),
		"TempSensor": accessory.NewTemperatureSensor(info, 20, -10, 40, 0.5),
		"Thermostat": accessory.NewThermostat(info, 20, 10, 30, 0.5),
		"Window":     accessory.NewWindow(info, 50),
	}
}

func getAcc(o interface{}) *accessory.Accessory {
	if a, ok := o.(*accessory.Accessory); ok {
		return a
	}
	return reflect.ValueOf(o).Elem().Field(0).Interface().(*accessory.Accessory)
}

func TestHunt4Accs(t *testing.T) {
	for _, info := range []accessory.Info{{}, {Name: "x", SerialNumber: "1", Manufacturer: "m", Model: "mo", FirmwareRevision: "1.0", ID: 7}} {
		for name, o := range accs(info) {
			a := getAcc(o)
			ids := map[uint64]bool{}
			for _, s := range a.Services {
				if s.ID == 0 || ids[s.ID] {
					t.Errorf("%s: service id %d", name, s.ID)
				}
				ids[s.ID] = true
				types := map[string]bool{}
				for _, c := range s.Characteristics {
					if c.ID == 0 || ids[c.ID] {
						t.Errorf("%s: char id %d", name, c.ID)
					}
					ids[c.ID] = true
					if types[c.Type] {
						t.Errorf("%s: dup type %s", name, c.Type)
					}
					types[c.Type] = true
					if readable(c) {
						if f, ok := num(c.Value); ok {
							if mn, ok := num(c.MinValue); ok && f < mn {
								t.Errorf("%s: %s value %v < min %v", name, c.Type, f, mn)
							}
							if mx, ok := num(c.MaxValue); ok && f > mx {
								t.Errorf("%s: %s value %v > max %v", name, c.Type, f, mx)
							}
						}
					}
				}
			}
			// every pointer field of the typed struct non-nil, and services are in a.Services
			v := reflect.ValueOf(o).Elem()
			if _, ok := o.(*accessory.Accessory); !ok {
				for i := 1; i < v.NumField(); i++ {
					f := v.Field(i)
					if f.IsNil() {
						t.Errorf("%s: field %s nil", name, v.Type().Field(i).Name)
						continue
					}
					svc := f.Elem().FieldByName("Service")
					found := false
					for _, s := range a.Services {
						if svc.Interface() == interface{}(s) {
							found = true
						}
					}
					if !found {
						t.Logf("%s: field %s not among the services of the accessory", name, v.Type().Field(i).Name)
					}
				}
			}
			b, err := json.Marshal(a)
			if err != nil {
				t.Errorf("%s: %v", name, err)
			}
			if name == "Thermostat" || name == "TempSensor" || name == "Television" {
				t.Logf("%s type=%d: %s", name, a.Type, b)
			}
		}
	}
}

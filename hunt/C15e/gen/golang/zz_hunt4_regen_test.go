package golang

import (
	"encoding/json"
	"go/format"
	"io/ioutil"
	"testing"

	"github.com/brutella/hc/gen"
)

func TestHunt4Regen(t *testing.T) {
	b, err := ioutil.ReadFile("../metadata.json")
	if err != nil {
		t.Fatal(err)
	}
	m := gen.Metadata{}
	if err := json.Unmarshal(b, &m); err != nil {
		t.Fatal(err)
	}
	for _, c := range m.Characteristics {
		src, err := CharacteristicGoCode(c)
		if err != nil {
			t.Errorf("%s: %v", c.Name, err)
			continue
		}
		f, err := format.Source(src)
		if err != nil {
			t.Errorf("%s: fmt %v\n%s", c.Name, err, src)
			continue
		}
		have, err := ioutil.ReadFile("../../characteristic/" + CharacteristicFileName(c))
		if err != nil {
			t.Errorf("%s: %v", c.Name, err)
			continue
		}
		if string(have) != string(f) {
			t.Errorf("%s differs:\n--- generated\n%s\n--- checked in\n%s", c.Name, f, have)
		}
	}
	for _, s := range m.Services {
		src, err := ServiceGoCode(s, m.Characteristics)
		if err != nil {
			t.Errorf("%s: %v", s.Name, err)
			continue
		}
		f, err := format.Source(src)
		if err != nil {
			t.Errorf("%s: fmt %v\n%s", s.Name, err, src)
			continue
		}
		have, err := ioutil.ReadFile("../../service/" + ServiceFileName(s))
		if err != nil {
			t.Errorf("%s: %v", s.Name, err)
			continue
		}
		if string(have) != string(f) {
			t.Errorf("%s differs:\n--- generated\n%s\n--- checked in\n%s", s.Name, f, have)
		}
	}
}

package characteristic

import (
	"encoding/json"
	"strings"
	"testing"
)

func noPanic(t *testing.T, what string, fn func()) {
	defer func() {
		if r := recover(); r != nil {
			t.Errorf("%s panics: %v", what, r)
		}
	}()
	fn()
}

// BORDERLINE. Clause: "Every constructor the library exports for a
// characteristic ... returns a usable object". The objects of the seven
// write-only catalog constructors (and of ConfigureBridgedAccessory) cannot be
// asked for their value through their own typed accessor: the accessor asserts
// the type of a value which is nil by design.
func TestHunt4WriteOnlyTypedGetValue(t *testing.T) {
	noPanic(t, "NewIdentify().GetValue()", func() { NewIdentify().GetValue() })
	noPanic(t, "NewHoldPosition().GetValue()", func() { NewHoldPosition().GetValue() })
	noPanic(t, "NewRemoteKey().GetValue()", func() { NewRemoteKey().GetValue() })
	noPanic(t, "NewPowerModeSelection().GetValue()", func() { NewPowerModeSelection().GetValue() })
	noPanic(t, "NewResetFilterIndication().GetValue()", func() { NewResetFilterIndication().GetValue() })
	noPanic(t, "NewVolumeSelector().GetValue()", func() { NewVolumeSelector().GetValue() })
	noPanic(t, "NewLockControlPoint().GetValue()", func() { NewLockControlPoint().GetValue() })
	noPanic(t, "NewConfigureBridgedAccessory().GetValue()", func() { NewConfigureBridgedAccessory().GetValue() })
	noPanic(t, "NewIdentify(): SetValue(true); GetValue()", func() { c := NewIdentify(); c.SetValue(true); c.GetValue() })
}

// BORDERLINE (completeness of efa5ae7). The exported generic constructors
// return a readable characteristic (PermsAll since efa5ae7) without a value:
// the typed accessor panics until a value was set.
func TestHunt4GenericConstructorsHaveAValue(t *testing.T) {
	noPanic(t, "NewInt(t).GetValue()", func() { NewInt("F0").GetValue() })
	noPanic(t, "NewFloat(t).GetValue()", func() { NewFloat("F1").GetValue() })
	noPanic(t, "NewBool(t).GetValue()", func() { NewBool("F2").GetValue() })
	noPanic(t, "NewString(t).GetValue()", func() { NewString("F3").GetValue() })
	noPanic(t, "NewBytes(t).GetValue()", func() { NewBytes("F4").GetValue() })
}

// BORDERLINE, same objects: serialised as they come from the constructor they
// lack the "value" member of a readable characteristic. (Not covered by the
// suggested repair; an application is expected to set a value.)
func TestHunt4GenericConstructorsSerialiseAValue(t *testing.T) {
	for name, c := range map[string]*Characteristic{
		"NewInt":    NewInt("F0").Characteristic,
		"NewFloat":  NewFloat("F1").Characteristic,
		"NewBool":   NewBool("F2").Characteristic,
		"NewString": NewString("F3").Characteristic,
		"NewBytes":  NewBytes("F4").Characteristic,
	} {
		b, _ := json.Marshal(c)
		if c.IsReadable() && !strings.Contains(string(b), `"value"`) {
			t.Errorf("%s: readable but serialised without a value: %s", name, b)
		}
	}
}

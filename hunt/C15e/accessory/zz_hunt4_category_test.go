package accessory

import "testing"

// BORDERLINE. Clause: "Every constructor's type identifier is the one declared
// for it" read for accessories: the identifier of an accessory is its category
// (accessory/constant.go, generated from the "Categories" of gen/metadata.json;
// it is what the transport announces as "ci" in mDNS via
// Container.AccessoryType). NewTemperatureSensor, whose only service is a
// temperature sensor (8A), is constructed with the category of a thermostat (9)
// instead of the category the metadata declares for sensors (10).
func TestHunt4TemperatureSensorCategory(t *testing.T) {
	acc := NewTemperatureSensor(Info{Name: "t"}, 20, 0, 100, 0.1)
	if acc.Type != TypeSensor {
		t.Errorf("NewTemperatureSensor: category %d, want %d (Sensor); %d is Thermostat", acc.Type, TypeSensor, TypeThermostat)
	}
	c := NewContainer()
	if err := c.AddAccessory(acc.Accessory); err != nil {
		t.Fatal(err)
	}
	if c.AccessoryType() != TypeSensor {
		t.Errorf("a transport with this accessory announces category %d, want %d", c.AccessoryType(), TypeSensor)
	}
	// the other accessory constructors have the category of their name
	for name, p := range map[string][2]AccessoryType{
		"Bridge":     {NewBridge(Info{}).Type, TypeBridge},
		"Camera":     {NewCamera(Info{}).Type, TypeIPCamera},
		"ColoredLB":  {NewColoredLightbulb(Info{}).Type, TypeLightbulb},
		"Lightbulb":  {NewLightbulb(Info{}).Type, TypeLightbulb},
		"Outlet":     {NewOutlet(Info{}).Type, TypeOutlet},
		"Switch":     {NewSwitch(Info{}).Type, TypeSwitch},
		"Television": {NewTelevision(Info{}).Type, TypeTelevision},
		"Thermostat": {NewThermostat(Info{}, 20, 10, 30, 1).Type, TypeThermostat},
		"Window":     {NewWindow(Info{}, 0).Type, TypeWindow},
	} {
		if p[0] != p[1] {
			t.Errorf("%s: category %d want %d", name, p[0], p[1])
		}
	}
}

package hc_test

import (
	"github.com/brutella/hc/characteristic"
	"github.com/brutella/hc/service"
)

type charCtor struct {
	name string
	typ  string
	fn   func() *characteristic.Characteristic
}

var charCtors = []charCtor{
	{"AccessoryFlags", characteristic.TypeAccessoryFlags, func() *characteristic.Characteristic { return characteristic.NewAccessoryFlags().Characteristic }},
	{"AccessoryIdentifier", characteristic.TypeAccessoryIdentifier, func() *characteristic.Characteristic { return characteristic.NewAccessoryIdentifier().Characteristic }},
	{"Active", characteristic.TypeActive, func() *characteristic.Characteristic { return characteristic.NewActive().Characteristic }},
	{"ActiveIdentifier", characteristic.TypeActiveIdentifier, func() *characteristic.Characteristic { return characteristic.NewActiveIdentifier().Characteristic }},
	{"AdministratorOnlyAccess", characteristic.TypeAdministratorOnlyAccess, func() *characteristic.Characteristic {
		return characteristic.NewAdministratorOnlyAccess().Characteristic
	}},
	{"AirParticulateDensity", characteristic.TypeAirParticulateDensity, func() *characteristic.Characteristic { return characteristic.NewAirParticulateDensity().Characteristic }},
	{"AirParticulateSize", characteristic.TypeAirParticulateSize, func() *characteristic.Characteristic { return characteristic.NewAirParticulateSize().Characteristic }},
	{"AirQuality", characteristic.TypeAirQuality, func() *characteristic.Characteristic { return characteristic.NewAirQuality().Characteristic }},
	{"AppMatchingIdentifier", characteristic.TypeAppMatchingIdentifier, func() *characteristic.Characteristic { return characteristic.NewAppMatchingIdentifier().Characteristic }},
	{"AudioFeedback", characteristic.TypeAudioFeedback, func() *characteristic.Characteristic { return characteristic.NewAudioFeedback().Characteristic }},
	{"BatteryLevel", characteristic.TypeBatteryLevel, func() *characteristic.Characteristic { return characteristic.NewBatteryLevel().Characteristic }},
	{"Brightness", characteristic.TypeBrightness, func() *characteristic.Characteristic { return characteristic.NewBrightness().Characteristic }},
	{"CarbonDioxideDetected", characteristic.TypeCarbonDioxideDetected, func() *characteristic.Characteristic { return characteristic.NewCarbonDioxideDetected().Characteristic }},
	{"CarbonDioxideLevel", characteristic.TypeCarbonDioxideLevel, func() *characteristic.Characteristic { return characteristic.NewCarbonDioxideLevel().Characteristic }},
	{"CarbonDioxidePeakLevel", characteristic.TypeCarbonDioxidePeakLevel, func() *characteristic.Characteristic {
		return characteristic.NewCarbonDioxidePeakLevel().Characteristic
	}},
	{"CarbonMonoxideDetected", characteristic.TypeCarbonMonoxideDetected, func() *characteristic.Characteristic {
		return characteristic.NewCarbonMonoxideDetected().Characteristic
	}},
	{"CarbonMonoxideLevel", characteristic.TypeCarbonMonoxideLevel, func() *characteristic.Characteristic { return characteristic.NewCarbonMonoxideLevel().Characteristic }},
	{"CarbonMonoxidePeakLevel", characteristic.TypeCarbonMonoxidePeakLevel, func() *characteristic.Characteristic {
		return characteristic.NewCarbonMonoxidePeakLevel().Characteristic
	}},
	{"Category", characteristic.TypeCategory, func() *characteristic.Characteristic { return characteristic.NewCategory().Characteristic }},
	{"ChargingState", characteristic.TypeChargingState, func() *characteristic.Characteristic { return characteristic.NewChargingState().Characteristic }},
	{"ClosedCaptions", characteristic.TypeClosedCaptions, func() *characteristic.Characteristic { return characteristic.NewClosedCaptions().Characteristic }},
	{"ColorTemperature", characteristic.TypeColorTemperature, func() *characteristic.Characteristic { return characteristic.NewColorTemperature().Characteristic }},
	{"ConfigureBridgedAccessory", characteristic.TypeConfigureBridgedAccessory, func() *characteristic.Characteristic {
		return characteristic.NewConfigureBridgedAccessory().Characteristic
	}},
	{"ConfigureBridgedAccessoryStatus", characteristic.TypeConfigureBridgedAccessoryStatus, func() *characteristic.Characteristic {
		return characteristic.NewConfigureBridgedAccessoryStatus().Characteristic
	}},
	{"ConfiguredName", characteristic.TypeConfiguredName, func() *characteristic.Characteristic { return characteristic.NewConfiguredName().Characteristic }},
	{"ContactSensorState", characteristic.TypeContactSensorState, func() *characteristic.Characteristic { return characteristic.NewContactSensorState().Characteristic }},
	{"CoolingThresholdTemperature", characteristic.TypeCoolingThresholdTemperature, func() *characteristic.Characteristic {
		return characteristic.NewCoolingThresholdTemperature().Characteristic
	}},
	{"CurrentAirPurifierState", characteristic.TypeCurrentAirPurifierState, func() *characteristic.Characteristic {
		return characteristic.NewCurrentAirPurifierState().Characteristic
	}},
	{"CurrentAmbientLightLevel", characteristic.TypeCurrentAmbientLightLevel, func() *characteristic.Characteristic {
		return characteristic.NewCurrentAmbientLightLevel().Characteristic
	}},
	{"CurrentDoorState", characteristic.TypeCurrentDoorState, func() *characteristic.Characteristic { return characteristic.NewCurrentDoorState().Characteristic }},
	{"CurrentFanState", characteristic.TypeCurrentFanState, func() *characteristic.Characteristic { return characteristic.NewCurrentFanState().Characteristic }},
	{"CurrentHeaterCoolerState", characteristic.TypeCurrentHeaterCoolerState, func() *characteristic.Characteristic {
		return characteristic.NewCurrentHeaterCoolerState().Characteristic
	}},
	{"CurrentHeatingCoolingState", characteristic.TypeCurrentHeatingCoolingState, func() *characteristic.Characteristic {
		return characteristic.NewCurrentHeatingCoolingState().Characteristic
	}},
	{"CurrentHorizontalTiltAngle", characteristic.TypeCurrentHorizontalTiltAngle, func() *characteristic.Characteristic {
		return characteristic.NewCurrentHorizontalTiltAngle().Characteristic
	}},
	{"CurrentHumidifierDehumidifierState", characteristic.TypeCurrentHumidifierDehumidifierState, func() *characteristic.Characteristic {
		return characteristic.NewCurrentHumidifierDehumidifierState().Characteristic
	}},
	{"CurrentMediaState", characteristic.TypeCurrentMediaState, func() *characteristic.Characteristic { return characteristic.NewCurrentMediaState().Characteristic }},
	{"CurrentPosition", characteristic.TypeCurrentPosition, func() *characteristic.Characteristic { return characteristic.NewCurrentPosition().Characteristic }},
	{"CurrentRelativeHumidity", characteristic.TypeCurrentRelativeHumidity, func() *characteristic.Characteristic {
		return characteristic.NewCurrentRelativeHumidity().Characteristic
	}},
	{"CurrentSlatState", characteristic.TypeCurrentSlatState, func() *characteristic.Characteristic { return characteristic.NewCurrentSlatState().Characteristic }},
	{"CurrentTemperature", characteristic.TypeCurrentTemperature, func() *characteristic.Characteristic { return characteristic.NewCurrentTemperature().Characteristic }},
	{"CurrentTiltAngle", characteristic.TypeCurrentTiltAngle, func() *characteristic.Characteristic { return characteristic.NewCurrentTiltAngle().Characteristic }},
	{"CurrentTime", characteristic.TypeCurrentTime, func() *characteristic.Characteristic { return characteristic.NewCurrentTime().Characteristic }},
	{"CurrentTransport", characteristic.TypeCurrentTransport, func() *characteristic.Characteristic { return characteristic.NewCurrentTransport().Characteristic }},
	{"CurrentVerticalTiltAngle", characteristic.TypeCurrentVerticalTiltAngle, func() *characteristic.Characteristic {
		return characteristic.NewCurrentVerticalTiltAngle().Characteristic
	}},
	{"CurrentVisibilityState", characteristic.TypeCurrentVisibilityState, func() *characteristic.Characteristic {
		return characteristic.NewCurrentVisibilityState().Characteristic
	}},
	{"DayOfTheWeek", characteristic.TypeDayOfTheWeek, func() *characteristic.Characteristic { return characteristic.NewDayOfTheWeek().Characteristic }},
	{"DigitalZoom", characteristic.TypeDigitalZoom, func() *characteristic.Characteristic { return characteristic.NewDigitalZoom().Characteristic }},
	{"DiscoverBridgedAccessories", characteristic.TypeDiscoverBridgedAccessories, func() *characteristic.Characteristic {
		return characteristic.NewDiscoverBridgedAccessories().Characteristic
	}},
	{"DiscoveredBridgedAccessories", characteristic.TypeDiscoveredBridgedAccessories, func() *characteristic.Characteristic {
		return characteristic.NewDiscoveredBridgedAccessories().Characteristic
	}},
	{"DisplayOrder", characteristic.TypeDisplayOrder, func() *characteristic.Characteristic { return characteristic.NewDisplayOrder().Characteristic }},
	{"FilterChangeIndication", characteristic.TypeFilterChangeIndication, func() *characteristic.Characteristic {
		return characteristic.NewFilterChangeIndication().Characteristic
	}},
	{"FilterLifeLevel", characteristic.TypeFilterLifeLevel, func() *characteristic.Characteristic { return characteristic.NewFilterLifeLevel().Characteristic }},
	{"FirmwareRevision", characteristic.TypeFirmwareRevision, func() *characteristic.Characteristic { return characteristic.NewFirmwareRevision().Characteristic }},
	{"HardwareRevision", characteristic.TypeHardwareRevision, func() *characteristic.Characteristic { return characteristic.NewHardwareRevision().Characteristic }},
	{"HeatingThresholdTemperature", characteristic.TypeHeatingThresholdTemperature, func() *characteristic.Characteristic {
		return characteristic.NewHeatingThresholdTemperature().Characteristic
	}},
	{"HoldPosition", characteristic.TypeHoldPosition, func() *characteristic.Characteristic { return characteristic.NewHoldPosition().Characteristic }},
	{"Hue", characteristic.TypeHue, func() *characteristic.Characteristic { return characteristic.NewHue().Characteristic }},
	{"Identifier", characteristic.TypeIdentifier, func() *characteristic.Characteristic { return characteristic.NewIdentifier().Characteristic }},
	{"Identify", characteristic.TypeIdentify, func() *characteristic.Characteristic { return characteristic.NewIdentify().Characteristic }},
	{"ImageMirroring", characteristic.TypeImageMirroring, func() *characteristic.Characteristic { return characteristic.NewImageMirroring().Characteristic }},
	{"ImageRotation", characteristic.TypeImageRotation, func() *characteristic.Characteristic { return characteristic.NewImageRotation().Characteristic }},
	{"InUse", characteristic.TypeInUse, func() *characteristic.Characteristic { return characteristic.NewInUse().Characteristic }},
	{"InputDeviceType", characteristic.TypeInputDeviceType, func() *characteristic.Characteristic { return characteristic.NewInputDeviceType().Characteristic }},
	{"InputSourceType", characteristic.TypeInputSourceType, func() *characteristic.Characteristic { return characteristic.NewInputSourceType().Characteristic }},
	{"IsConfigured", characteristic.TypeIsConfigured, func() *characteristic.Characteristic { return characteristic.NewIsConfigured().Characteristic }},
	{"LeakDetected", characteristic.TypeLeakDetected, func() *characteristic.Characteristic { return characteristic.NewLeakDetected().Characteristic }},
	{"LinkQuality", characteristic.TypeLinkQuality, func() *characteristic.Characteristic { return characteristic.NewLinkQuality().Characteristic }},
	{"LockControlPoint", characteristic.TypeLockControlPoint, func() *characteristic.Characteristic { return characteristic.NewLockControlPoint().Characteristic }},
	{"LockCurrentState", characteristic.TypeLockCurrentState, func() *characteristic.Characteristic { return characteristic.NewLockCurrentState().Characteristic }},
	{"LockLastKnownAction", characteristic.TypeLockLastKnownAction, func() *characteristic.Characteristic { return characteristic.NewLockLastKnownAction().Characteristic }},
	{"LockManagementAutoSecurityTimeout", characteristic.TypeLockManagementAutoSecurityTimeout, func() *characteristic.Characteristic {
		return characteristic.NewLockManagementAutoSecurityTimeout().Characteristic
	}},
	{"LockPhysicalControls", characteristic.TypeLockPhysicalControls, func() *characteristic.Characteristic { return characteristic.NewLockPhysicalControls().Characteristic }},
	{"LockTargetState", characteristic.TypeLockTargetState, func() *characteristic.Characteristic { return characteristic.NewLockTargetState().Characteristic }},
	{"Logs", characteristic.TypeLogs, func() *characteristic.Characteristic { return characteristic.NewLogs().Characteristic }},
	{"Manufacturer", characteristic.TypeManufacturer, func() *characteristic.Characteristic { return characteristic.NewManufacturer().Characteristic }},
	{"Model", characteristic.TypeModel, func() *characteristic.Characteristic { return characteristic.NewModel().Characteristic }},
	{"MotionDetected", characteristic.TypeMotionDetected, func() *characteristic.Characteristic { return characteristic.NewMotionDetected().Characteristic }},
	{"Mute", characteristic.TypeMute, func() *characteristic.Characteristic { return characteristic.NewMute().Characteristic }},
	{"Name", characteristic.TypeName, func() *characteristic.Characteristic { return characteristic.NewName().Characteristic }},
	{"NightVision", characteristic.TypeNightVision, func() *characteristic.Characteristic { return characteristic.NewNightVision().Characteristic }},
	{"NitrogenDioxideDensity", characteristic.TypeNitrogenDioxideDensity, func() *characteristic.Characteristic {
		return characteristic.NewNitrogenDioxideDensity().Characteristic
	}},
	{"ObstructionDetected", characteristic.TypeObstructionDetected, func() *characteristic.Characteristic { return characteristic.NewObstructionDetected().Characteristic }},
	{"OccupancyDetected", characteristic.TypeOccupancyDetected, func() *characteristic.Characteristic { return characteristic.NewOccupancyDetected().Characteristic }},
	{"On", characteristic.TypeOn, func() *characteristic.Characteristic { return characteristic.NewOn().Characteristic }},
	{"OpticalZoom", characteristic.TypeOpticalZoom, func() *characteristic.Characteristic { return characteristic.NewOpticalZoom().Characteristic }},
	{"OutletInUse", characteristic.TypeOutletInUse, func() *characteristic.Characteristic { return characteristic.NewOutletInUse().Characteristic }},
	{"OzoneDensity", characteristic.TypeOzoneDensity, func() *characteristic.Characteristic { return characteristic.NewOzoneDensity().Characteristic }},
	{"PairSetup", characteristic.TypePairSetup, func() *characteristic.Characteristic { return characteristic.NewPairSetup().Characteristic }},
	{"PairVerify", characteristic.TypePairVerify, func() *characteristic.Characteristic { return characteristic.NewPairVerify().Characteristic }},
	{"PairingFeatures", characteristic.TypePairingFeatures, func() *characteristic.Characteristic { return characteristic.NewPairingFeatures().Characteristic }},
	{"PairingPairings", characteristic.TypePairingPairings, func() *characteristic.Characteristic { return characteristic.NewPairingPairings().Characteristic }},
	{"PictureMode", characteristic.TypePictureMode, func() *characteristic.Characteristic { return characteristic.NewPictureMode().Characteristic }},
	{"PM10Density", characteristic.TypePM10Density, func() *characteristic.Characteristic { return characteristic.NewPM10Density().Characteristic }},
	{"PM2_5Density", characteristic.TypePM2_5Density, func() *characteristic.Characteristic { return characteristic.NewPM2_5Density().Characteristic }},
	{"PositionState", characteristic.TypePositionState, func() *characteristic.Characteristic { return characteristic.NewPositionState().Characteristic }},
	{"PowerModeSelection", characteristic.TypePowerModeSelection, func() *characteristic.Characteristic { return characteristic.NewPowerModeSelection().Characteristic }},
	{"ProgramMode", characteristic.TypeProgramMode, func() *characteristic.Characteristic { return characteristic.NewProgramMode().Characteristic }},
	{"ProgrammableSwitchEvent", characteristic.TypeProgrammableSwitchEvent, func() *characteristic.Characteristic {
		return characteristic.NewProgrammableSwitchEvent().Characteristic
	}},
	{"ProgrammableSwitchOutputState", characteristic.TypeProgrammableSwitchOutputState, func() *characteristic.Characteristic {
		return characteristic.NewProgrammableSwitchOutputState().Characteristic
	}},
	{"Reachable", characteristic.TypeReachable, func() *characteristic.Characteristic { return characteristic.NewReachable().Characteristic }},
	{"RelativeHumidityDehumidifierThreshold", characteristic.TypeRelativeHumidityDehumidifierThreshold, func() *characteristic.Characteristic {
		return characteristic.NewRelativeHumidityDehumidifierThreshold().Characteristic
	}},
	{"RelativeHumidityHumidifierThreshold", characteristic.TypeRelativeHumidityHumidifierThreshold, func() *characteristic.Characteristic {
		return characteristic.NewRelativeHumidityHumidifierThreshold().Characteristic
	}},
	{"RemainingDuration", characteristic.TypeRemainingDuration, func() *characteristic.Characteristic { return characteristic.NewRemainingDuration().Characteristic }},
	{"RemoteKey", characteristic.TypeRemoteKey, func() *characteristic.Characteristic { return characteristic.NewRemoteKey().Characteristic }},
	{"ResetFilterIndication", characteristic.TypeResetFilterIndication, func() *characteristic.Characteristic { return characteristic.NewResetFilterIndication().Characteristic }},
	{"RotationDirection", characteristic.TypeRotationDirection, func() *characteristic.Characteristic { return characteristic.NewRotationDirection().Characteristic }},
	{"RotationSpeed", characteristic.TypeRotationSpeed, func() *characteristic.Characteristic { return characteristic.NewRotationSpeed().Characteristic }},
	{"Saturation", characteristic.TypeSaturation, func() *characteristic.Characteristic { return characteristic.NewSaturation().Characteristic }},
	{"SecuritySystemAlarmType", characteristic.TypeSecuritySystemAlarmType, func() *characteristic.Characteristic {
		return characteristic.NewSecuritySystemAlarmType().Characteristic
	}},
	{"SecuritySystemCurrentState", characteristic.TypeSecuritySystemCurrentState, func() *characteristic.Characteristic {
		return characteristic.NewSecuritySystemCurrentState().Characteristic
	}},
	{"SecuritySystemTargetState", characteristic.TypeSecuritySystemTargetState, func() *characteristic.Characteristic {
		return characteristic.NewSecuritySystemTargetState().Characteristic
	}},
	{"SelectedCameraRecordingConfiguration", characteristic.TypeSelectedCameraRecordingConfiguration, func() *characteristic.Characteristic {
		return characteristic.NewSelectedCameraRecordingConfiguration().Characteristic
	}},
	{"SelectedRTPStreamConfiguration", characteristic.TypeSelectedRTPStreamConfiguration, func() *characteristic.Characteristic {
		return characteristic.NewSelectedRTPStreamConfiguration().Characteristic
	}},
	{"SelectedStreamConfiguration", characteristic.TypeSelectedStreamConfiguration, func() *characteristic.Characteristic {
		return characteristic.NewSelectedStreamConfiguration().Characteristic
	}},
	{"SerialNumber", characteristic.TypeSerialNumber, func() *characteristic.Characteristic { return characteristic.NewSerialNumber().Characteristic }},
	{"ServiceLabelIndex", characteristic.TypeServiceLabelIndex, func() *characteristic.Characteristic { return characteristic.NewServiceLabelIndex().Characteristic }},
	{"ServiceLabelNamespace", characteristic.TypeServiceLabelNamespace, func() *characteristic.Characteristic { return characteristic.NewServiceLabelNamespace().Characteristic }},
	{"SetDuration", characteristic.TypeSetDuration, func() *characteristic.Characteristic { return characteristic.NewSetDuration().Characteristic }},
	{"SetupEndpoints", characteristic.TypeSetupEndpoints, func() *characteristic.Characteristic { return characteristic.NewSetupEndpoints().Characteristic }},
	{"SlatType", characteristic.TypeSlatType, func() *characteristic.Characteristic { return characteristic.NewSlatType().Characteristic }},
	{"SleepDiscoveryMode", characteristic.TypeSleepDiscoveryMode, func() *characteristic.Characteristic { return characteristic.NewSleepDiscoveryMode().Characteristic }},
	{"SmokeDetected", characteristic.TypeSmokeDetected, func() *characteristic.Characteristic { return characteristic.NewSmokeDetected().Characteristic }},
	{"SoftwareRevision", characteristic.TypeSoftwareRevision, func() *characteristic.Characteristic { return characteristic.NewSoftwareRevision().Characteristic }},
	{"StatusActive", characteristic.TypeStatusActive, func() *characteristic.Characteristic { return characteristic.NewStatusActive().Characteristic }},
	{"StatusFault", characteristic.TypeStatusFault, func() *characteristic.Characteristic { return characteristic.NewStatusFault().Characteristic }},
	{"StatusJammed", characteristic.TypeStatusJammed, func() *characteristic.Characteristic { return characteristic.NewStatusJammed().Characteristic }},
	{"StatusLowBattery", characteristic.TypeStatusLowBattery, func() *characteristic.Characteristic { return characteristic.NewStatusLowBattery().Characteristic }},
	{"StatusTampered", characteristic.TypeStatusTampered, func() *characteristic.Characteristic { return characteristic.NewStatusTampered().Characteristic }},
	{"StreamingStatus", characteristic.TypeStreamingStatus, func() *characteristic.Characteristic { return characteristic.NewStreamingStatus().Characteristic }},
	{"SulphurDioxideDensity", characteristic.TypeSulphurDioxideDensity, func() *characteristic.Characteristic { return characteristic.NewSulphurDioxideDensity().Characteristic }},
	{"SupportedAudioRecordingConfiguration", characteristic.TypeSupportedAudioRecordingConfiguration, func() *characteristic.Characteristic {
		return characteristic.NewSupportedAudioRecordingConfiguration().Characteristic
	}},
	{"SupportedAudioStreamConfiguration", characteristic.TypeSupportedAudioStreamConfiguration, func() *characteristic.Characteristic {
		return characteristic.NewSupportedAudioStreamConfiguration().Characteristic
	}},
	{"SupportedCameraRecordingConfiguration", characteristic.TypeSupportedCameraRecordingConfiguration, func() *characteristic.Characteristic {
		return characteristic.NewSupportedCameraRecordingConfiguration().Characteristic
	}},
	{"SupportedRTPConfiguration", characteristic.TypeSupportedRTPConfiguration, func() *characteristic.Characteristic {
		return characteristic.NewSupportedRTPConfiguration().Characteristic
	}},
	{"SupportedVideoRecordingConfiguration", characteristic.TypeSupportedVideoRecordingConfiguration, func() *characteristic.Characteristic {
		return characteristic.NewSupportedVideoRecordingConfiguration().Characteristic
	}},
	{"SupportedVideoStreamConfiguration", characteristic.TypeSupportedVideoStreamConfiguration, func() *characteristic.Characteristic {
		return characteristic.NewSupportedVideoStreamConfiguration().Characteristic
	}},
	{"SwingMode", characteristic.TypeSwingMode, func() *characteristic.Characteristic { return characteristic.NewSwingMode().Characteristic }},
	{"TargetAirPurifierState", characteristic.TypeTargetAirPurifierState, func() *characteristic.Characteristic {
		return characteristic.NewTargetAirPurifierState().Characteristic
	}},
	{"TargetAirQuality", characteristic.TypeTargetAirQuality, func() *characteristic.Characteristic { return characteristic.NewTargetAirQuality().Characteristic }},
	{"TargetDoorState", characteristic.TypeTargetDoorState, func() *characteristic.Characteristic { return characteristic.NewTargetDoorState().Characteristic }},
	{"TargetFanState", characteristic.TypeTargetFanState, func() *characteristic.Characteristic { return characteristic.NewTargetFanState().Characteristic }},
	{"TargetHeaterCoolerState", characteristic.TypeTargetHeaterCoolerState, func() *characteristic.Characteristic {
		return characteristic.NewTargetHeaterCoolerState().Characteristic
	}},
	{"TargetHeatingCoolingState", characteristic.TypeTargetHeatingCoolingState, func() *characteristic.Characteristic {
		return characteristic.NewTargetHeatingCoolingState().Characteristic
	}},
	{"TargetHorizontalTiltAngle", characteristic.TypeTargetHorizontalTiltAngle, func() *characteristic.Characteristic {
		return characteristic.NewTargetHorizontalTiltAngle().Characteristic
	}},
	{"TargetHumidifierDehumidifierState", characteristic.TypeTargetHumidifierDehumidifierState, func() *characteristic.Characteristic {
		return characteristic.NewTargetHumidifierDehumidifierState().Characteristic
	}},
	{"TargetMediaState", characteristic.TypeTargetMediaState, func() *characteristic.Characteristic { return characteristic.NewTargetMediaState().Characteristic }},
	{"TargetPosition", characteristic.TypeTargetPosition, func() *characteristic.Characteristic { return characteristic.NewTargetPosition().Characteristic }},
	{"TargetRelativeHumidity", characteristic.TypeTargetRelativeHumidity, func() *characteristic.Characteristic {
		return characteristic.NewTargetRelativeHumidity().Characteristic
	}},
	{"TargetSlatState", characteristic.TypeTargetSlatState, func() *characteristic.Characteristic { return characteristic.NewTargetSlatState().Characteristic }},
	{"TargetTemperature", characteristic.TypeTargetTemperature, func() *characteristic.Characteristic { return characteristic.NewTargetTemperature().Characteristic }},
	{"TargetTiltAngle", characteristic.TypeTargetTiltAngle, func() *characteristic.Characteristic { return characteristic.NewTargetTiltAngle().Characteristic }},
	{"TargetVerticalTiltAngle", characteristic.TypeTargetVerticalTiltAngle, func() *characteristic.Characteristic {
		return characteristic.NewTargetVerticalTiltAngle().Characteristic
	}},
	{"TargetVisibilityState", characteristic.TypeTargetVisibilityState, func() *characteristic.Characteristic { return characteristic.NewTargetVisibilityState().Characteristic }},
	{"TemperatureDisplayUnits", characteristic.TypeTemperatureDisplayUnits, func() *characteristic.Characteristic {
		return characteristic.NewTemperatureDisplayUnits().Characteristic
	}},
	{"TimeUpdate", characteristic.TypeTimeUpdate, func() *characteristic.Characteristic { return characteristic.NewTimeUpdate().Characteristic }},
	{"TunnelConnectionTimeout", characteristic.TypeTunnelConnectionTimeout, func() *characteristic.Characteristic {
		return characteristic.NewTunnelConnectionTimeout().Characteristic
	}},
	{"TunneledAccessoryAdvertising", characteristic.TypeTunneledAccessoryAdvertising, func() *characteristic.Characteristic {
		return characteristic.NewTunneledAccessoryAdvertising().Characteristic
	}},
	{"TunneledAccessoryConnected", characteristic.TypeTunneledAccessoryConnected, func() *characteristic.Characteristic {
		return characteristic.NewTunneledAccessoryConnected().Characteristic
	}},
	{"TunneledAccessoryStateNumber", characteristic.TypeTunneledAccessoryStateNumber, func() *characteristic.Characteristic {
		return characteristic.NewTunneledAccessoryStateNumber().Characteristic
	}},
	{"ValveType", characteristic.TypeValveType, func() *characteristic.Characteristic { return characteristic.NewValveType().Characteristic }},
	{"Version", characteristic.TypeVersion, func() *characteristic.Characteristic { return characteristic.NewVersion().Characteristic }},
	{"VOCDensity", characteristic.TypeVOCDensity, func() *characteristic.Characteristic { return characteristic.NewVOCDensity().Characteristic }},
	{"Volume", characteristic.TypeVolume, func() *characteristic.Characteristic { return characteristic.NewVolume().Characteristic }},
	{"VolumeControlType", characteristic.TypeVolumeControlType, func() *characteristic.Characteristic { return characteristic.NewVolumeControlType().Characteristic }},
	{"VolumeSelector", characteristic.TypeVolumeSelector, func() *characteristic.Characteristic { return characteristic.NewVolumeSelector().Characteristic }},
	{"WaterLevel", characteristic.TypeWaterLevel, func() *characteristic.Characteristic { return characteristic.NewWaterLevel().Characteristic }},
	{"WifiCapabilities", characteristic.TypeWifiCapabilities, func() *characteristic.Characteristic { return characteristic.NewWifiCapabilities().Characteristic }},
	{"WifiConfigurationControl", characteristic.TypeWifiConfigurationControl, func() *characteristic.Characteristic {
		return characteristic.NewWifiConfigurationControl().Characteristic
	}},
}

type svcCtor struct {
	name string
	fn   func() *service.Service
}

var svcCtors = []svcCtor{
	{"AccessoryInformation", func() *service.Service { return service.NewAccessoryInformation().Service }},
	{"AirPurifier", func() *service.Service { return service.NewAirPurifier().Service }},
	{"AirQualitySensor", func() *service.Service { return service.NewAirQualitySensor().Service }},
	{"BatteryService", func() *service.Service { return service.NewBatteryService().Service }},
	{"BridgeConfiguration", func() *service.Service { return service.NewBridgeConfiguration().Service }},
	{"BridgingState", func() *service.Service { return service.NewBridgingState().Service }},
	{"CameraControl", func() *service.Service { return service.NewCameraControl().Service }},
	{"CameraRecordingManagement", func() *service.Service { return service.NewCameraRecordingManagement().Service }},
	{"CameraRTPStreamManagement", func() *service.Service { return service.NewCameraRTPStreamManagement().Service }},
	{"CarbonDioxideSensor", func() *service.Service { return service.NewCarbonDioxideSensor().Service }},
	{"CarbonMonoxideSensor", func() *service.Service { return service.NewCarbonMonoxideSensor().Service }},
	{"ColoredLightbulb", func() *service.Service { return service.NewColoredLightbulb().Service }},
	{"ContactSensor", func() *service.Service { return service.NewContactSensor().Service }},
	{"Cooler", func() *service.Service { return service.NewCooler().Service }},
	{"Door", func() *service.Service { return service.NewDoor().Service }},
	{"Doorbell", func() *service.Service { return service.NewDoorbell().Service }},
	{"Fan", func() *service.Service { return service.NewFan().Service }},
	{"FanV2", func() *service.Service { return service.NewFanV2().Service }},
	{"Faucet", func() *service.Service { return service.NewFaucet().Service }},
	{"FilterMaintenance", func() *service.Service { return service.NewFilterMaintenance().Service }},
	{"GarageDoorOpener", func() *service.Service { return service.NewGarageDoorOpener().Service }},
	{"Heater", func() *service.Service { return service.NewHeater().Service }},
	{"HeaterCooler", func() *service.Service { return service.NewHeaterCooler().Service }},
	{"HumidifierDehumidifier", func() *service.Service { return service.NewHumidifierDehumidifier().Service }},
	{"HumiditySensor", func() *service.Service { return service.NewHumiditySensor().Service }},
	{"InputSource", func() *service.Service { return service.NewInputSource().Service }},
	{"IrrigationSystem", func() *service.Service { return service.NewIrrigationSystem().Service }},
	{"LeakSensor", func() *service.Service { return service.NewLeakSensor().Service }},
	{"LightSensor", func() *service.Service { return service.NewLightSensor().Service }},
	{"Lightbulb", func() *service.Service { return service.NewLightbulb().Service }},
	{"LockManagement", func() *service.Service { return service.NewLockManagement().Service }},
	{"LockMechanism", func() *service.Service { return service.NewLockMechanism().Service }},
	{"Microphone", func() *service.Service { return service.NewMicrophone().Service }},
	{"MotionSensor", func() *service.Service { return service.NewMotionSensor().Service }},
	{"OccupancySensor", func() *service.Service { return service.NewOccupancySensor().Service }},
	{"Outlet", func() *service.Service { return service.NewOutlet().Service }},
	{"SecuritySystem", func() *service.Service { return service.NewSecuritySystem().Service }},
	{"ServiceLabel", func() *service.Service { return service.NewServiceLabel().Service }},
	{"Slat", func() *service.Service { return service.NewSlat().Service }},
	{"SmokeSensor", func() *service.Service { return service.NewSmokeSensor().Service }},
	{"Speaker", func() *service.Service { return service.NewSpeaker().Service }},
	{"StatefulProgrammableSwitch", func() *service.Service { return service.NewStatefulProgrammableSwitch().Service }},
	{"StatelessProgrammableSwitch", func() *service.Service { return service.NewStatelessProgrammableSwitch().Service }},
	{"Switch", func() *service.Service { return service.NewSwitch().Service }},
	{"Television", func() *service.Service { return service.NewTelevision().Service }},
	{"TemperatureSensor", func() *service.Service { return service.NewTemperatureSensor().Service }},
	{"Thermostat", func() *service.Service { return service.NewThermostat().Service }},
	{"TimeInformation", func() *service.Service { return service.NewTimeInformation().Service }},
	{"TunneledBTLEAccessoryService", func() *service.Service { return service.NewTunneledBTLEAccessoryService().Service }},
	{"Valve", func() *service.Service { return service.NewValve().Service }},
	{"WifiTransport", func() *service.Service { return service.NewWifiTransport().Service }},
	{"Window", func() *service.Service { return service.NewWindow().Service }},
	{"WindowCovering", func() *service.Service { return service.NewWindowCovering().Service }},
}

package hc_test

// Exploration harness (C15): compares every constructor with gen/metadata.json.

import (
	"encoding/json"
	"fmt"
	"io/ioutil"
	"reflect"
	"regexp"
	"sort"
	"strings"
	"testing"

	"github.com/brutella/hc/characteristic"
	"github.com/brutella/hc/service"
)

type mdChar struct {
	Constraints map[string]interface{}
	Format      string
	Name        string
	Permissions []string
	Properties  []string
	UUID        string
	Unit        string
}

type mdSvc struct {
	RequiredCharacteristics []string
	OptionalCharacteristics []string
	Name                    string
	UUID                    string
}

type md struct {
	Characteristics []*mdChar
	Services        []*mdSvc
}

func loadMD(t *testing.T) *md {
	b, err := ioutil.ReadFile("gen/metadata.json")
	if err != nil {
		t.Fatal(err)
	}
	var m md
	if err := json.Unmarshal(b, &m); err != nil {
		t.Fatal(err)
	}
	return &m
}

var reShort = regexp.MustCompile(`^([0-9a-fA-F]*)`)

func short(uuid string) string {
	s := reShort.FindString(uuid)
	return strings.TrimLeft(s, "0")
}

func camel(s string) string {
	s = strings.TrimSpace(s)
	s = strings.NewReplacer(".", "_", ",", "", "-", "", "(", "", ")", "").Replace(s)
	return strings.Replace(strings.Title(s), " ", "", -1)
}

func wantPerms(props []string) []string {
	var p []string
	for _, x := range props {
		switch x {
		case "read":
			p = append(p, "pr")
		case "write":
			p = append(p, "pw")
		case "cnotify":
			p = append(p, "ev")
		}
	}
	return p
}

func num(v interface{}) (float64, bool) {
	switch x := v.(type) {
	case int:
		return float64(x), true
	case float64:
		return x, true
	case nil:
		return 0, false
	}
	return 0, false
}

func safeChar(c charCtor) (ch *characteristic.Characteristic, perr interface{}) {
	defer func() { perr = recover() }()
	return c.fn(), nil
}

func safeSvc(c svcCtor) (s *service.Service, perr interface{}) {
	defer func() { perr = recover() }()
	return c.fn(), nil
}

func TestHunt4CatalogChars(t *testing.T) {
	m := loadMD(t)
	byType := map[string][]charCtor{}
	for _, c := range charCtors {
		byType[c.typ] = append(byType[c.typ], c)
	}
	for typ, cs := range byType {
		if len(cs) > 1 && typ != "117" { // 117: SelectedStreamConfiguration is the old name of SelectedRTPStreamConfiguration, identical
			t.Errorf("type %s has %d constructors: %v %v", typ, len(cs), cs[0].name, cs[1].name)
		}
	}
	seen := map[string]bool{}
	for _, mc := range m.Characteristics {
		typ := short(mc.UUID)
		cs := byType[typ]
		if len(cs) == 0 {
			t.Errorf("%s (%s): no constructor", mc.Name, typ)
			continue
		}
		seen[typ] = true
		for _, c := range cs {
			if c.name != camel(mc.Name) && typ != "117" {
				t.Errorf("%s (%s): constructor named %s", mc.Name, typ, c.name)
			}
			ch, perr := safeChar(c)
			if perr != nil {
				t.Errorf("%s: panic %v", c.name, perr)
				continue
			}
			if ch == nil {
				t.Errorf("%s: nil", c.name)
				continue
			}
			if ch.Type != typ {
				t.Errorf("%s: type %q want %q", c.name, ch.Type, typ)
			}
			if ch.Format != mc.Format {
				t.Errorf("%s: format %q want %q", c.name, ch.Format, mc.Format)
			}
			if !reflect.DeepEqual(ch.Perms, wantPerms(mc.Properties)) {
				t.Errorf("%s: perms %v want %v", c.name, ch.Perms, wantPerms(mc.Properties))
			}
			if ch.Unit != mc.Unit {
				t.Errorf("%s: unit %q want %q", c.name, ch.Unit, mc.Unit)
			}
			for _, k := range [][2]string{{"MinimumValue", "min"}, {"MaximumValue", "max"}, {"StepValue", "step"}} {
				var got interface{}
				switch k[1] {
				case "min":
					got = ch.MinValue
				case "max":
					got = ch.MaxValue
				case "step":
					got = ch.StepValue
				}
				want, has := mc.Constraints[k[0]]
				if !has && k[0] == "StepValue" {
					// Filter Life Level spells the key "stepValue" (repair 48fd2fd)
					want, has = mc.Constraints["stepValue"]
				}
				g, gok := num(got)
				if has != gok {
					t.Errorf("%s: %s got %v (%T) want %v present=%v", c.name, k[1], got, got, want, has)
					continue
				}
				if has {
					w, _ := num(want)
					if w != g {
						t.Errorf("%s: %s got %v want %v", c.name, k[1], got, want)
					}
					// type of the bound must be the format's Go type
					if mc.Format == "float" {
						if _, ok := got.(float64); !ok {
							t.Errorf("%s: %s has type %T", c.name, k[1], got)
						}
					} else {
						if _, ok := got.(int); !ok {
							t.Errorf("%s: %s has type %T", c.name, k[1], got)
						}
					}
				}
			}
			if mc.Constraints["MaximumLength"] != nil || ch.MaxLen != 0 {
				t.Logf("%s: maxLen md=%v got=%v", c.name, mc.Constraints["MaximumLength"], ch.MaxLen)
			}
			readable := false
			for _, p := range mc.Properties {
				if p == "read" {
					readable = true
				}
			}
			if readable {
				switch mc.Format {
				case "string", "tlv8":
					if _, ok := ch.Value.(string); !ok {
						t.Errorf("%s: value %v (%T)", c.name, ch.Value, ch.Value)
					}
				case "bool":
					if _, ok := ch.Value.(bool); !ok {
						t.Errorf("%s: value %v (%T)", c.name, ch.Value, ch.Value)
					}
				case "float":
					v, ok := ch.Value.(float64)
					if !ok {
						t.Errorf("%s: value %v (%T)", c.name, ch.Value, ch.Value)
					}
					if mn, ok := num(ch.MinValue); ok && v < mn {
						t.Errorf("%s: value %v below min %v", c.name, v, mn)
					}
					if mx, ok := num(ch.MaxValue); ok && v > mx {
						t.Errorf("%s: value %v above max %v", c.name, v, mx)
					}
				default:
					v, ok := ch.Value.(int)
					if !ok {
						t.Errorf("%s: value %v (%T)", c.name, ch.Value, ch.Value)
					}
					if mn, ok := num(ch.MinValue); ok && float64(v) < mn {
						t.Errorf("%s: value %v below min %v", c.name, v, mn)
					}
					if mx, ok := num(ch.MaxValue); ok && float64(v) > mx {
						t.Errorf("%s: value %v above max %v", c.name, v, mx)
					}
					if vv, ok := mc.Constraints["ValidValues"].(map[string]interface{}); ok {
						if _, ok := vv[fmt.Sprint(v)]; !ok {
							t.Logf("%s: default %v not among valid values %v", c.name, v, keys(vv))
						}
					}
				}
			} else if ch.Value != nil {
				t.Errorf("%s: write-only but value %v", c.name, ch.Value)
			}
			// JSON
			b, err := json.Marshal(ch)
			if err != nil {
				t.Errorf("%s: json %v", c.name, err)
			}
			_ = b
		}
	}
	for _, c := range charCtors {
		if !seen[c.typ] {
			ch, perr := safeChar(c)
			if perr != nil {
				t.Errorf("%s: panic %v", c.name, perr)
				continue
			}
			b, _ := json.Marshal(ch)
			t.Logf("not in metadata: %s type=%s %s", c.name, c.typ, b)
			if ch.Type != c.typ {
				t.Errorf("%s: type %q want declared %q", c.name, ch.Type, c.typ)
			}
		}
	}
}

func keys(m map[string]interface{}) []string {
	var k []string
	for x := range m {
		k = append(k, x)
	}
	sort.Strings(k)
	return k
}

func TestHunt4CatalogSvcs(t *testing.T) {
	m := loadMD(t)
	charName := map[string]string{}
	for _, c := range m.Characteristics {
		charName[short(c.UUID)] = c.Name
	}
	byName := map[string]svcCtor{}
	for _, c := range svcCtors {
		byName[c.name] = c
	}
	seen := map[string]bool{}
	for _, ms := range m.Services {
		c, ok := byName[camel(ms.Name)]
		if !ok {
			t.Errorf("service %s: no constructor %s", ms.Name, camel(ms.Name))
			continue
		}
		seen[c.name] = true
		s, perr := safeSvc(c)
		if perr != nil {
			t.Errorf("%s: panic %v", c.name, perr)
			continue
		}
		if s.Type != short(ms.UUID) {
			t.Errorf("%s: type %q want %q", c.name, s.Type, short(ms.UUID))
		}
		have := map[string]int{}
		for _, ch := range s.Characteristics {
			have[ch.Type]++
		}
		for typ, n := range have {
			if n > 1 {
				t.Errorf("%s: %d characteristics of type %s", c.name, n, typ)
			}
			allowed := false
			for _, u := range append(append([]string{}, ms.RequiredCharacteristics...), ms.OptionalCharacteristics...) {
				if short(u) == typ {
					allowed = true
				}
			}
			if !allowed {
				t.Errorf("%s: characteristic %s (%s) neither required nor optional", c.name, typ, charName[typ])
			}
		}
		for _, u := range ms.RequiredCharacteristics {
			if have[short(u)] == 0 {
				t.Errorf("%s: required characteristic %s (%s) missing", c.name, short(u), charName[short(u)])
			}
		}
		if _, err := json.Marshal(s); err != nil {
			t.Errorf("%s: json %v", c.name, err)
		}
	}
	for _, c := range svcCtors {
		if seen[c.name] {
			continue
		}
		s, perr := safeSvc(c)
		if perr != nil {
			t.Errorf("%s: panic %v", c.name, perr)
			continue
		}
		var types []string
		have := map[string]int{}
		for _, ch := range s.Characteristics {
			types = append(types, ch.Type+"="+charName[ch.Type])
			have[ch.Type]++
			if have[ch.Type] > 1 {
				t.Errorf("%s: dup %s", c.name, ch.Type)
			}
		}
		t.Logf("not in metadata: %s type=%s chars=%v", c.name, s.Type, types)
	}
}

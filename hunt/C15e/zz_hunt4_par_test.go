package hc_test

import (
	"sync"
	"testing"
)

func TestHunt4Parallel(t *testing.T) {
	var wg sync.WaitGroup
	for g := 0; g < 8; g++ {
		wg.Add(1)
		go func() {
			defer wg.Done()
			for _, c := range charCtors {
				c.fn()
			}
			for _, c := range svcCtors {
				c.fn()
			}
		}()
	}
	wg.Wait()
}

package hc_test

import (
	"fmt"
	"reflect"
	"testing"

	"github.com/brutella/hc/characteristic"
	"github.com/brutella/hc/service"
)

func call(v reflect.Value, name string, args ...reflect.Value) (out []reflect.Value, perr interface{}) {
	defer func() { perr = recover() }()
	m := v.MethodByName(name)
	if !m.IsValid() {
		return nil, "no method " + name
	}
	return m.Call(args), nil
}

func baseChar(v reflect.Value) *characteristic.Characteristic {
	// walk embedded pointers until *Characteristic
	for {
		if c, ok := v.Interface().(*characteristic.Characteristic); ok {
			return c
		}
		if v.Kind() == reflect.Ptr {
			v = v.Elem()
		}
		if v.Kind() != reflect.Struct || v.NumField() == 0 {
			return nil
		}
		v = v.Field(0)
	}
}

func TestHunt4ReflectChars(t *testing.T) {
	for _, o := range charObjs {
		obj := o.fn()
		v := reflect.ValueOf(obj)
		c := baseChar(v)
		if c == nil {
			t.Errorf("%s: no base characteristic", o.name)
			continue
		}
		out, perr := call(v, "GetValue")
		if perr != nil {
			t.Errorf("%s (perms %v format %s): GetValue panics: %v", o.name, c.Perms, c.Format, perr)
		} else {
			_ = out
		}
		// setters
		m := v.MethodByName("SetValue")
		if !m.IsValid() {
			t.Errorf("%s: no SetValue", o.name)
			continue
		}
		at := m.Type().In(0)
		var vals []reflect.Value
		switch at.Kind() {
		case reflect.Int:
			vals = []reflect.Value{reflect.ValueOf(0), reflect.ValueOf(1)}
			if c.MinValue != nil {
				vals = append(vals, reflect.ValueOf(c.MinValue))
			}
			if c.MaxValue != nil {
				vals = append(vals, reflect.ValueOf(c.MaxValue))
			}
		case reflect.Float64:
			vals = []reflect.Value{reflect.ValueOf(0.0), reflect.ValueOf(1.5)}
			if c.MinValue != nil {
				vals = append(vals, reflect.ValueOf(c.MinValue))
			}
			if c.MaxValue != nil {
				vals = append(vals, reflect.ValueOf(c.MaxValue))
			}
		case reflect.Bool:
			vals = []reflect.Value{reflect.ValueOf(true), reflect.ValueOf(false)}
		case reflect.String:
			vals = []reflect.Value{reflect.ValueOf("x"), reflect.ValueOf("")}
		case reflect.Slice:
			vals = []reflect.Value{reflect.ValueOf([]byte{1, 2, 3})}
		}
		for _, val := range vals {
			if _, perr := call(v, "SetValue", val); perr != nil {
				t.Errorf("%s: SetValue(%v) panics: %v", o.name, val, perr)
				continue
			}
			out, perr := call(v, "GetValue")
			if perr != nil {
				t.Errorf("%s: GetValue after SetValue(%v) panics: %v", o.name, val, perr)
				continue
			}
			if readable(c) {
				got := out[0].Interface()
				want := val.Interface()
				// clamp expectations
				if !reflect.DeepEqual(got, want) {
					inb := true
					if f, ok := num(want); ok {
						if mn, ok := num(c.MinValue); ok && f < mn {
							inb = false
						}
						if mx, ok := num(c.MaxValue); ok && f > mx {
							inb = false
						}
					}
					if inb {
						t.Errorf("%s: SetValue(%v) then GetValue = %v", o.name, want, got)
					}
				}
			}
		}
		for _, g := range []string{"GetMinValue", "GetMaxValue", "GetStepValue"} {
			if v.MethodByName(g).IsValid() {
				if _, perr := call(v, g); perr != nil {
					t.Logf("%s: %s panics: %v", o.name, g, perr)
				}
			}
		}
	}
}

func readable(c *characteristic.Characteristic) bool {
	for _, p := range c.Perms {
		if p == "pr" {
			return true
		}
	}
	return false
}

func TestHunt4ReflectSvcs(t *testing.T) {
	for _, o := range svcObjs {
		obj := o.fn()
		v := reflect.ValueOf(obj).Elem()
		var svc *service.Service
		var fields []*characteristic.Characteristic
		var names []string
		var walk func(v reflect.Value)
		walk = func(v reflect.Value) {
			for i := 0; i < v.NumField(); i++ {
				f := v.Field(i)
				ft := v.Type().Field(i)
				if s, ok := f.Interface().(*service.Service); ok {
					svc = s
					continue
				}
				if ft.Anonymous && f.Kind() == reflect.Ptr {
					if f.IsNil() {
						t.Errorf("%s: embedded %s nil", o.name, ft.Name)
						continue
					}
					walk(f.Elem())
					continue
				}
				if f.Kind() == reflect.Ptr {
					if f.IsNil() {
						t.Errorf("%s: field %s nil", o.name, ft.Name)
						continue
					}
					c := baseChar(f)
					if c == nil {
						t.Errorf("%s: field %s no char", o.name, ft.Name)
						continue
					}
					// type of field name matches struct type name
					if f.Elem().Type().Name() != "" && f.Elem().Type().Name() != ft.Name {
						t.Errorf("%s: field %s has type %s", o.name, ft.Name, f.Elem().Type().Name())
					}
					fields = append(fields, c)
					names = append(names, ft.Name)
				}
			}
		}
		walk(v)
		if svc == nil {
			t.Errorf("%s: no service", o.name)
			continue
		}
		if len(fields) != len(svc.Characteristics) {
			t.Errorf("%s: %d fields, %d characteristics", o.name, len(fields), len(svc.Characteristics))
		}
		for i, c := range fields {
			if i < len(svc.Characteristics) && svc.Characteristics[i] != c {
				t.Errorf("%s: field %s is not characteristics[%d]", o.name, names[i], i)
			}
		}
		// fresh objects each call
		obj2 := o.fn()
		v2 := reflect.ValueOf(obj2).Elem()
		_ = v2
		fmt.Sprint(obj2)
	}
}

func TestHunt4Fresh(t *testing.T) {
	for _, c := range charCtors {
		a, b := c.fn(), c.fn()
		if a == b {
			t.Errorf("%s: same object", c.name)
		}
		if len(a.Perms) > 0 {
			old := b.Perms[0]
			a.Perms[0] = "zz"
			if b.Perms[0] != old {
				t.Errorf("%s: perms shared", c.name)
			}
		}
	}
	for _, c := range svcCtors {
		a, b := c.fn(), c.fn()
		if a == b {
			t.Errorf("%s: same service", c.name)
		}
		for i := range a.Characteristics {
			if a.Characteristics[i] == b.Characteristics[i] {
				t.Errorf("%s: characteristic %d shared", c.name, i)
			}
		}
	}
}

package hc

import (
	"fmt"
	"strings"
	"testing"
	"time"

	"github.com/brutella/hc/accessory"
	"github.com/brutella/hc/characteristic"
	"github.com/brutella/hc/service"
)

// P8: a programmable switch event set to the same value
func TestHuntSwitchEventSameValue(t *testing.T) {
	br, _, _, _ := huntAccs()
	btn := accessory.New(accessory.Info{Name: "Btn"}, accessory.TypeProgrammableSwitch)
	svc := service.NewStatelessProgrammableSwitch()
	btn.AddService(svc.Service)
	h := huntStart(t, br.Accessory, btn)
	B := huntConnect(t, h)
	aid, iid := btn.ID, svc.ProgrammableSwitchEvent.ID
	B.put(t, huntSub(aid, iid, true))
	svc.ProgrammableSwitchEvent.SetValue(1)
	expectEvents(t, B, "press", ev(aid, iid, 1))
	svc.ProgrammableSwitchEvent.SetValue(1)
	expectEvents(t, B, "same press (value did not change)")
}

// P9/P10: permissions
func TestHuntPerms(t *testing.T) {
	br, l1, _, _ := huntAccs()
	// custom characteristics on l1
	wo := characteristic.NewInt("F0000001-0000-1000-8000-0026BB765291")
	wo.Format = characteristic.FormatUInt8
	wo.Perms = []string{characteristic.PermWrite, characteristic.PermEvents}
	noev := characteristic.NewInt("F0000002-0000-1000-8000-0026BB765291")
	noev.Format = characteristic.FormatUInt8
	noev.Perms = []string{characteristic.PermRead, characteristic.PermWrite}
	noev.SetValue(0)
	ro := characteristic.NewInt("F0000003-0000-1000-8000-0026BB765291")
	ro.Format = characteristic.FormatUInt8
	ro.Perms = []string{characteristic.PermRead, characteristic.PermEvents}
	ro.SetValue(0)
	l1.Lightbulb.AddCharacteristic(wo.Characteristic)
	l1.Lightbulb.AddCharacteristic(noev.Characteristic)
	l1.Lightbulb.AddCharacteristic(ro.Characteristic)
	h := huntStart(t, br.Accessory, l1.Accessory)
	A := huntConnect(t, h)
	B := huntConnect(t, h)
	aid := l1.Accessory.ID

	// not observable: subscription refused, no events
	r := B.put(t, huntSub(aid, noev.ID, true))
	t.Logf("subscribe to no-ev: %v", r)
	if !strings.Contains(r.body, "-70406") {
		t.Errorf("subscription to a characteristic without ev accepted: %v", r)
	}
	A.put(t, huntWrite(aid, noev.ID, 5))
	noev.SetValue(6)
	expectEvents(t, B, "no-ev")
	// name (pr only)
	r = B.put(t, huntSub(aid, l1.Info.Name.ID, true))
	if !strings.Contains(r.body, "-70406") {
		t.Errorf("subscription to name accepted: %v", r)
	}
	l1.Info.Name.SetValue("other")
	expectEvents(t, B, "name")

	// read only + ev: remote write must not change and not notify
	B.put(t, huntSub(aid, ro.ID, true))
	A.put(t, huntWrite(aid, ro.ID, 7))
	expectEvents(t, B, "remote write to read-only")
	ro.SetValue(3)
	expectEvents(t, B, "local set of read-only", ev(aid, ro.ID, 3))

	// write only + ev
	B.put(t, huntSub(aid, wo.ID, true))
	A.put(t, huntWrite(aid, wo.ID, 9))
	got := B.events(t)
	t.Logf("write-only+ev remote write: %v", got)
}

// P12: value provided by a get function
func TestHuntGetFunc(t *testing.T) {
	br, l1, _, _ := huntAccs()
	cur := 10
	l1.Lightbulb.Brightness.OnValueRemoteGet(func() int { return cur })
	h := huntStart(t, br.Accessory, l1.Accessory)
	A := huntConnect(t, h)
	B := huntConnect(t, h)
	aid, iid := l1.Accessory.ID, l1.Lightbulb.Brightness.ID
	A.put(t, huntSub(aid, iid, true))
	B.put(t, huntSub(aid, iid, true))
	r := A.do(t, "GET", fmt.Sprintf("/characteristics?id=%d.%d", aid, iid), "")
	t.Logf("read: %v", r)
	expectEvents(t, B, "read which changed the value", ev(aid, iid, 10))
	expectEvents(t, A, "reader")
	A.do(t, "GET", fmt.Sprintf("/characteristics?id=%d.%d", aid, iid), "")
	expectEvents(t, B, "read again")
	cur = 20
	A.do(t, "GET", "/accessories", "")
	expectEvents(t, B, "accessories")
}

// P14: unverified connection
func TestHuntUnverified(t *testing.T) {
	br, l1, _, _ := huntAccs()
	h := huntStart(t, br.Accessory, l1.Accessory)
	U := huntDial(t, h)
	B := huntConnect(t, h)
	aid, iid := l1.Accessory.ID, l1.Lightbulb.On.ID
	B.put(t, huntSub(aid, iid, true))
	body := huntSub(aid, iid, true)
	U.send(t, "PUT", "/characteristics", body)
	U.conn.SetReadDeadline(time.Now().Add(2 * time.Second))
	buf := make([]byte, 4096)
	n, _ := U.conn.Read(buf)
	t.Logf("unverified subscribe: %q", string(buf[:n]))
	if !strings.Contains(string(buf[:n]), " 470") {
		t.Errorf("unverified PUT not refused")
	}
	U.send(t, "PUT", "/characteristics", huntWrite(aid, iid, true))
	n, _ = U.conn.Read(buf)
	if !strings.Contains(string(buf[:n]), " 470") {
		t.Errorf("unverified write not refused: %q", string(buf[:n]))
	}
	expectEvents(t, B, "unverified write")
	l1.Lightbulb.On.SetValue(true)
	expectEvents(t, B, "local", ev(aid, iid, true))
	U.conn.SetReadDeadline(time.Now().Add(300 * time.Millisecond))
	n, _ = U.conn.Read(buf)
	if n != 0 {
		t.Errorf("unverified connection received %q", string(buf[:n]))
	}
}

// P17: event bodies around the frame size
func TestHuntLargeEvent(t *testing.T) {
	br, l1, _, _ := huntAccs()
	s := characteristic.NewString("F0000004-0000-1000-8000-0026BB765291")
	s.Perms = []string{characteristic.PermRead, characteristic.PermWrite, characteristic.PermEvents}
	s.SetValue("")
	l1.Lightbulb.AddCharacteristic(s.Characteristic)
	h := huntStart(t, br.Accessory, l1.Accessory)
	_ = huntConnect(t, h)
	B := huntConnect(t, h)
	aid := l1.Accessory.ID
	B.put(t, huntSub(aid, s.ID, true))
	// the event message without value is about 150 bytes; sweep so that some message is exactly 1024 and 2048 bytes long
	for n := 850; n < 960; n++ {
		v := strings.Repeat("x", n)
		s.SetValue(v)
		expectEvents(t, B, fmt.Sprintf("len %d", n), ev(aid, s.ID, v))
	}
	for n := 1870; n < 1990; n += 1 {
		v := strings.Repeat("y", n)
		s.SetValue(v)
		expectEvents(t, B, fmt.Sprintf("len %d", n), ev(aid, s.ID, v))
	}
	// value which contains the protocol specifier
	s.SetValue("HTTP/1.0 HTTP/1.0")
	expectEvents(t, B, "specifier", ev(aid, s.ID, "HTTP/1.0 HTTP/1.0"))
}

package hc

import (
	"fmt"

	"encoding/json"
	"github.com/brutella/hc/accessory"
	"strings"
	"sync"
	"testing"
	"time"
)

// A subscribed controller reads the accessory database (a response of several KB) while the
// application changes the characteristic it is subscribed to. Every change has to reach it as one
// well-formed EVENT message, and its responses have to stay well-formed too.
func TestHuntEventDuringLargeResponse(t *testing.T) {
	t.Run("local set", func(t *testing.T) { huntEventDuringLargeResponse(t, false) })
	t.Run("remote write", func(t *testing.T) { huntEventDuringLargeResponse(t, true) })
}

func huntEventDuringLargeResponse(t *testing.T, remote bool) {
	br, l1, l2, sw := huntAccs()
	others := []*accessory.Accessory{l1.Accessory, l2.Accessory, sw.Accessory}
	for i := 0; i < 12; i++ {
		others = append(others, accessory.NewThermostat(accessory.Info{Name: fmt.Sprintf("T%d", i)}, 20, 10, 30, 0.5).Accessory)
	}
	h := huntStart(t, br.Accessory, others...)
	B := huntConnect(t, h)
	A := huntConnect(t, h)
	a1, on1 := l1.Accessory.ID, l1.Lightbulb.On.ID
	if r := B.put(t, huntSub(a1, on1, true)); !strings.HasPrefix(r.status, "204") {
		t.Fatalf("subscribe: %v", r)
	}

	const changes = 400
	var wg sync.WaitGroup
	wg.Add(1)
	stop := make(chan struct{})
	go func() {
		defer wg.Done()
		v := false
		for i := 0; i < changes; i++ {
			v = !v
			if remote {
				A.put(t, huntWrite(a1, on1, v))
			} else {
				l1.Lightbulb.On.SetValue(v)
			}
			time.Sleep(200 * time.Microsecond)
		}
		close(stop)
	}()

	responses := 0
	size := 0
loop:
	for {
		select {
		case <-stop:
			break loop
		default:
		}
		B.send(t, "GET", "/accessories", "")
		for {
			m := <-B.msgs
			if m.err != nil {
				t.Fatalf("after %d good responses and %d events the stream of the subscribed controller is broken: %.60v...\ndecrypted stream around the last EVENT start line:\n%q", responses, len(B.pending), m.err, B.around())
			}
			if m.event {
				B.pending = append(B.pending, m)
				continue
			}
			var v map[string]interface{}
			if err := json.Unmarshal([]byte(m.body), &v); err != nil {
				t.Fatalf("response %d (%d bytes) to GET /accessories is not JSON: %v\n%s", responses, len(m.body), err, m.body)
			}
			size = len(m.body)
			responses++
			break
		}
	}
	wg.Wait()
	got := B.events(t)
	t.Logf("%d responses of %d bytes, %d events", responses, size, len(got))
	if len(got) != changes {
		t.Fatalf("received %d events for %d changes", len(got), changes)
	}
}

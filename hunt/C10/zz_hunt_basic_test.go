package hc

import (
	"strings"
	"testing"
	"time"

	"github.com/brutella/hc/accessory"
)

func huntAccs() (*accessory.Bridge, *accessory.ColoredLightbulb, *accessory.Lightbulb, *accessory.Switch) {
	br := accessory.NewBridge(accessory.Info{Name: "HuntBridge"})
	l1 := accessory.NewColoredLightbulb(accessory.Info{Name: "L1"})
	l2 := accessory.NewLightbulb(accessory.Info{Name: "L2"})
	sw := accessory.NewSwitch(accessory.Info{Name: "SW"})
	return br, l1, l2, sw
}

// P1-P6: plain histories
func TestHuntBasicHistory(t *testing.T) {
	br, l1, l2, sw := huntAccs()
	h := huntStart(t, br.Accessory, l1.Accessory, l2.Accessory, sw.Accessory)
	A := huntConnect(t, h)
	B := huntConnect(t, h)
	C := huntConnect(t, h)
	D := huntConnect(t, h) // never subscribes

	a1, on1 := l1.Accessory.ID, l1.Lightbulb.On.ID
	a2, on2 := l2.Accessory.ID, l2.Lightbulb.On.ID
	bri1 := l1.Lightbulb.Brightness.ID
	t.Logf("l1 %d on %d bri %d; l2 %d on %d; sw %d on %d", a1, on1, bri1, a2, on2, sw.Accessory.ID, sw.Switch.On.ID)
	if on1 != on2 {
		t.Logf("iids differ")
	}

	for _, c := range []*huntCtl{A, B, C} {
		if r := c.put(t, huntSub(a1, on1, true)); !strings.HasPrefix(r.status, "204") {
			t.Fatalf("subscribe: %v", r)
		}
	}
	// remote changing write by A
	if r := A.put(t, huntWrite(a1, on1, true)); !strings.HasPrefix(r.status, "204") {
		t.Fatalf("write: %v", r)
	}
	expectEvents(t, A, "remote write by A")
	expectEvents(t, B, "remote write by A", ev(a1, on1, true))
	expectEvents(t, C, "remote write by A", ev(a1, on1, true))
	expectEvents(t, D, "remote write by A")

	// non-changing writes: bool, 1, "1"
	A.put(t, huntWrite(a1, on1, true))
	A.put(t, huntWrite(a1, on1, 1))
	A.put(t, huntWrite(a1, on1, "1"))
	l1.Lightbulb.On.SetValue(true)
	for _, c := range []*huntCtl{A, B, C, D} {
		expectEvents(t, c, "non-changing")
	}

	// same iid on the other accessory must not reach subscribers of l1
	D.put(t, huntWrite(a2, on2, true))
	l2.Lightbulb.On.SetValue(false)
	for _, c := range []*huntCtl{A, B, C, D} {
		expectEvents(t, c, "other accessory")
	}

	// local set
	l1.Lightbulb.On.SetValue(false)
	expectEvents(t, A, "local", ev(a1, on1, false))
	expectEvents(t, B, "local", ev(a1, on1, false))
	expectEvents(t, C, "local", ev(a1, on1, false))
	expectEvents(t, D, "local")

	// unsubscribe B, close C, write by D (not subscribed)
	B.put(t, huntSub(a1, on1, false))
	C.conn.Close()
	time.Sleep(100 * time.Millisecond)
	D.put(t, huntWrite(a1, on1, true))
	expectEvents(t, A, "after unsub/close", ev(a1, on1, true))
	expectEvents(t, B, "after unsub/close")
	expectEvents(t, D, "after unsub/close")

	// reconnect: a fresh connection has no subscription
	C2 := huntConnect(t, h)
	l1.Lightbulb.On.SetValue(false)
	expectEvents(t, C2, "reconnected, not subscribed")
	expectEvents(t, A, "reconnected", ev(a1, on1, false))
	C2.put(t, huntSub(a1, on1, true))
	B.put(t, huntSub(a1, on1, true))
	B.put(t, huntSub(a1, on1, true)) // twice
	l1.Lightbulb.On.SetValue(true)
	expectEvents(t, C2, "resub", ev(a1, on1, true))
	expectEvents(t, B, "resub", ev(a1, on1, true))
	expectEvents(t, A, "resub", ev(a1, on1, true))

	// clamped write: brightness max 100
	B.put(t, huntSub(a1, bri1, true))
	l1.Lightbulb.Brightness.SetValue(50)
	expectEvents(t, B, "bri", ev(a1, bri1, 50))
	A.put(t, huntWrite(a1, bri1, 150))
	expectEvents(t, B, "bri clamp", ev(a1, bri1, 100))
	A.put(t, huntWrite(a1, bri1, 170))
	expectEvents(t, B, "bri clamp again")

	// value and ev in the same item; originator gets nothing, others do
	D.put(t, `{"characteristics":[{"aid":`+itoa(a1)+`,"iid":`+itoa(on1)+`,"value":false,"ev":true}]}`)
	expectEvents(t, D, "value+ev")
	expectEvents(t, A, "value+ev", ev(a1, on1, false))
	A.put(t, huntWrite(a1, on1, true))
	expectEvents(t, D, "value+ev later", ev(a1, on1, true))
	expectEvents(t, B, "value+ev B", ev(a1, on1, false), ev(a1, on1, true))

	// multi item write
	A.put(t, `{"characteristics":[{"aid":`+itoa(a1)+`,"iid":`+itoa(on1)+`,"value":false},{"aid":`+itoa(a1)+`,"iid":`+itoa(bri1)+`,"value":10}]}`)
	expectEvents(t, B, "multi", ev(a1, on1, false), ev(a1, bri1, 10))
	expectEvents(t, A, "multi")
}

func itoa(v uint64) string {
	return strings.TrimSpace(strings.Replace(string(appendUint(nil, v)), "\x00", "", -1))
}

func appendUint(b []byte, v uint64) []byte {
	if v == 0 {
		return append(b, '0')
	}
	var tmp [20]byte
	i := len(tmp)
	for v > 0 {
		i--
		tmp[i] = byte('0' + v%10)
		v /= 10
	}
	return append(b, tmp[i:]...)
}

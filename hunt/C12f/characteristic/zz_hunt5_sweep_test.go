package characteristic

import (
	"encoding/json"
	"fmt"
	"math"
	"math/rand"
	"net"
	"reflect"
	"testing"
)

var zzAllCtors = map[string]func() interface{}{
	"NewAccessoryFlags":                        func() interface{} { return NewAccessoryFlags() },
	"NewAccessoryIdentifier":                   func() interface{} { return NewAccessoryIdentifier() },
	"NewActive":                                func() interface{} { return NewActive() },
	"NewActiveIdentifier":                      func() interface{} { return NewActiveIdentifier() },
	"NewAdministratorOnlyAccess":               func() interface{} { return NewAdministratorOnlyAccess() },
	"NewAirParticulateDensity":                 func() interface{} { return NewAirParticulateDensity() },
	"NewAirParticulateSize":                    func() interface{} { return NewAirParticulateSize() },
	"NewAirQuality":                            func() interface{} { return NewAirQuality() },
	"NewAppMatchingIdentifier":                 func() interface{} { return NewAppMatchingIdentifier() },
	"NewAudioFeedback":                         func() interface{} { return NewAudioFeedback() },
	"NewBatteryLevel":                          func() interface{} { return NewBatteryLevel() },
	"NewBrightness":                            func() interface{} { return NewBrightness() },
	"NewCarbonDioxideDetected":                 func() interface{} { return NewCarbonDioxideDetected() },
	"NewCarbonDioxideLevel":                    func() interface{} { return NewCarbonDioxideLevel() },
	"NewCarbonDioxidePeakLevel":                func() interface{} { return NewCarbonDioxidePeakLevel() },
	"NewCarbonMonoxideDetected":                func() interface{} { return NewCarbonMonoxideDetected() },
	"NewCarbonMonoxideLevel":                   func() interface{} { return NewCarbonMonoxideLevel() },
	"NewCarbonMonoxidePeakLevel":               func() interface{} { return NewCarbonMonoxidePeakLevel() },
	"NewCategory":                              func() interface{} { return NewCategory() },
	"NewChargingState":                         func() interface{} { return NewChargingState() },
	"NewClosedCaptions":                        func() interface{} { return NewClosedCaptions() },
	"NewColorTemperature":                      func() interface{} { return NewColorTemperature() },
	"NewConfigureBridgedAccessory":             func() interface{} { return NewConfigureBridgedAccessory() },
	"NewConfigureBridgedAccessoryStatus":       func() interface{} { return NewConfigureBridgedAccessoryStatus() },
	"NewConfiguredName":                        func() interface{} { return NewConfiguredName() },
	"NewContactSensorState":                    func() interface{} { return NewContactSensorState() },
	"NewCoolingThresholdTemperature":           func() interface{} { return NewCoolingThresholdTemperature() },
	"NewCurrentAirPurifierState":               func() interface{} { return NewCurrentAirPurifierState() },
	"NewCurrentAmbientLightLevel":              func() interface{} { return NewCurrentAmbientLightLevel() },
	"NewCurrentDoorState":                      func() interface{} { return NewCurrentDoorState() },
	"NewCurrentFanState":                       func() interface{} { return NewCurrentFanState() },
	"NewCurrentHeaterCoolerState":              func() interface{} { return NewCurrentHeaterCoolerState() },
	"NewCurrentHeatingCoolingState":            func() interface{} { return NewCurrentHeatingCoolingState() },
	"NewCurrentHorizontalTiltAngle":            func() interface{} { return NewCurrentHorizontalTiltAngle() },
	"NewCurrentHumidifierDehumidifierState":    func() interface{} { return NewCurrentHumidifierDehumidifierState() },
	"NewCurrentMediaState":                     func() interface{} { return NewCurrentMediaState() },
	"NewCurrentPosition":                       func() interface{} { return NewCurrentPosition() },
	"NewCurrentRelativeHumidity":               func() interface{} { return NewCurrentRelativeHumidity() },
	"NewCurrentSlatState":                      func() interface{} { return NewCurrentSlatState() },
	"NewCurrentTemperature":                    func() interface{} { return NewCurrentTemperature() },
	"NewCurrentTiltAngle":                      func() interface{} { return NewCurrentTiltAngle() },
	"NewCurrentTime":                           func() interface{} { return NewCurrentTime() },
	"NewCurrentTransport":                      func() interface{} { return NewCurrentTransport() },
	"NewCurrentVerticalTiltAngle":              func() interface{} { return NewCurrentVerticalTiltAngle() },
	"NewCurrentVisibilityState":                func() interface{} { return NewCurrentVisibilityState() },
	"NewDayOfTheWeek":                          func() interface{} { return NewDayOfTheWeek() },
	"NewDigitalZoom":                           func() interface{} { return NewDigitalZoom() },
	"NewDiscoverBridgedAccessories":            func() interface{} { return NewDiscoverBridgedAccessories() },
	"NewDiscoveredBridgedAccessories":          func() interface{} { return NewDiscoveredBridgedAccessories() },
	"NewDisplayOrder":                          func() interface{} { return NewDisplayOrder() },
	"NewFilterChangeIndication":                func() interface{} { return NewFilterChangeIndication() },
	"NewFilterLifeLevel":                       func() interface{} { return NewFilterLifeLevel() },
	"NewFirmwareRevision":                      func() interface{} { return NewFirmwareRevision() },
	"NewHardwareRevision":                      func() interface{} { return NewHardwareRevision() },
	"NewHeatingThresholdTemperature":           func() interface{} { return NewHeatingThresholdTemperature() },
	"NewHoldPosition":                          func() interface{} { return NewHoldPosition() },
	"NewHue":                                   func() interface{} { return NewHue() },
	"NewIdentifier":                            func() interface{} { return NewIdentifier() },
	"NewIdentify":                              func() interface{} { return NewIdentify() },
	"NewImageMirroring":                        func() interface{} { return NewImageMirroring() },
	"NewImageRotation":                         func() interface{} { return NewImageRotation() },
	"NewInUse":                                 func() interface{} { return NewInUse() },
	"NewInputDeviceType":                       func() interface{} { return NewInputDeviceType() },
	"NewInputSourceType":                       func() interface{} { return NewInputSourceType() },
	"NewIsConfigured":                          func() interface{} { return NewIsConfigured() },
	"NewLeakDetected":                          func() interface{} { return NewLeakDetected() },
	"NewLinkQuality":                           func() interface{} { return NewLinkQuality() },
	"NewLockControlPoint":                      func() interface{} { return NewLockControlPoint() },
	"NewLockCurrentState":                      func() interface{} { return NewLockCurrentState() },
	"NewLockLastKnownAction":                   func() interface{} { return NewLockLastKnownAction() },
	"NewLockManagementAutoSecurityTimeout":     func() interface{} { return NewLockManagementAutoSecurityTimeout() },
	"NewLockPhysicalControls":                  func() interface{} { return NewLockPhysicalControls() },
	"NewLockTargetState":                       func() interface{} { return NewLockTargetState() },
	"NewLogs":                                  func() interface{} { return NewLogs() },
	"NewManufacturer":                          func() interface{} { return NewManufacturer() },
	"NewModel":                                 func() interface{} { return NewModel() },
	"NewMotionDetected":                        func() interface{} { return NewMotionDetected() },
	"NewMute":                                  func() interface{} { return NewMute() },
	"NewName":                                  func() interface{} { return NewName() },
	"NewNightVision":                           func() interface{} { return NewNightVision() },
	"NewNitrogenDioxideDensity":                func() interface{} { return NewNitrogenDioxideDensity() },
	"NewObstructionDetected":                   func() interface{} { return NewObstructionDetected() },
	"NewOccupancyDetected":                     func() interface{} { return NewOccupancyDetected() },
	"NewOn":                                    func() interface{} { return NewOn() },
	"NewOpticalZoom":                           func() interface{} { return NewOpticalZoom() },
	"NewOutletInUse":                           func() interface{} { return NewOutletInUse() },
	"NewOzoneDensity":                          func() interface{} { return NewOzoneDensity() },
	"NewPairSetup":                             func() interface{} { return NewPairSetup() },
	"NewPairVerify":                            func() interface{} { return NewPairVerify() },
	"NewPairingFeatures":                       func() interface{} { return NewPairingFeatures() },
	"NewPairingPairings":                       func() interface{} { return NewPairingPairings() },
	"NewPictureMode":                           func() interface{} { return NewPictureMode() },
	"NewPM10Density":                           func() interface{} { return NewPM10Density() },
	"NewPositionState":                         func() interface{} { return NewPositionState() },
	"NewPowerModeSelection":                    func() interface{} { return NewPowerModeSelection() },
	"NewProgramMode":                           func() interface{} { return NewProgramMode() },
	"NewProgrammableSwitchEvent":               func() interface{} { return NewProgrammableSwitchEvent() },
	"NewProgrammableSwitchOutputState":         func() interface{} { return NewProgrammableSwitchOutputState() },
	"NewReachable":                             func() interface{} { return NewReachable() },
	"NewRelativeHumidityDehumidifierThreshold": func() interface{} { return NewRelativeHumidityDehumidifierThreshold() },
	"NewRelativeHumidityHumidifierThreshold":   func() interface{} { return NewRelativeHumidityHumidifierThreshold() },
	"NewRemainingDuration":                     func() interface{} { return NewRemainingDuration() },
	"NewRemoteKey":                             func() interface{} { return NewRemoteKey() },
	"NewResetFilterIndication":                 func() interface{} { return NewResetFilterIndication() },
	"NewRotationDirection":                     func() interface{} { return NewRotationDirection() },
	"NewRotationSpeed":                         func() interface{} { return NewRotationSpeed() },
	"NewSaturation":                            func() interface{} { return NewSaturation() },
	"NewSecuritySystemAlarmType":               func() interface{} { return NewSecuritySystemAlarmType() },
	"NewSecuritySystemCurrentState":            func() interface{} { return NewSecuritySystemCurrentState() },
	"NewSecuritySystemTargetState":             func() interface{} { return NewSecuritySystemTargetState() },
	"NewSelectedCameraRecordingConfiguration":  func() interface{} { return NewSelectedCameraRecordingConfiguration() },
	"NewSelectedRTPStreamConfiguration":        func() interface{} { return NewSelectedRTPStreamConfiguration() },
	"NewSelectedStreamConfiguration":           func() interface{} { return NewSelectedStreamConfiguration() },
	"NewSerialNumber":                          func() interface{} { return NewSerialNumber() },
	"NewServiceLabelIndex":                     func() interface{} { return NewServiceLabelIndex() },
	"NewServiceLabelNamespace":                 func() interface{} { return NewServiceLabelNamespace() },
	"NewSetDuration":                           func() interface{} { return NewSetDuration() },
	"NewSetupEndpoints":                        func() interface{} { return NewSetupEndpoints() },
	"NewSlatType":                              func() interface{} { return NewSlatType() },
	"NewSleepDiscoveryMode":                    func() interface{} { return NewSleepDiscoveryMode() },
	"NewSmokeDetected":                         func() interface{} { return NewSmokeDetected() },
	"NewSoftwareRevision":                      func() interface{} { return NewSoftwareRevision() },
	"NewStatusActive":                          func() interface{} { return NewStatusActive() },
	"NewStatusFault":                           func() interface{} { return NewStatusFault() },
	"NewStatusJammed":                          func() interface{} { return NewStatusJammed() },
	"NewStatusLowBattery":                      func() interface{} { return NewStatusLowBattery() },
	"NewStatusTampered":                        func() interface{} { return NewStatusTampered() },
	"NewStreamingStatus":                       func() interface{} { return NewStreamingStatus() },
	"NewSulphurDioxideDensity":                 func() interface{} { return NewSulphurDioxideDensity() },
	"NewSupportedAudioRecordingConfiguration":  func() interface{} { return NewSupportedAudioRecordingConfiguration() },
	"NewSupportedAudioStreamConfiguration":     func() interface{} { return NewSupportedAudioStreamConfiguration() },
	"NewSupportedCameraRecordingConfiguration": func() interface{} { return NewSupportedCameraRecordingConfiguration() },
	"NewSupportedRTPConfiguration":             func() interface{} { return NewSupportedRTPConfiguration() },
	"NewSupportedVideoRecordingConfiguration":  func() interface{} { return NewSupportedVideoRecordingConfiguration() },
	"NewSupportedVideoStreamConfiguration":     func() interface{} { return NewSupportedVideoStreamConfiguration() },
	"NewSwingMode":                             func() interface{} { return NewSwingMode() },
	"NewTargetAirPurifierState":                func() interface{} { return NewTargetAirPurifierState() },
	"NewTargetAirQuality":                      func() interface{} { return NewTargetAirQuality() },
	"NewTargetDoorState":                       func() interface{} { return NewTargetDoorState() },
	"NewTargetFanState":                        func() interface{} { return NewTargetFanState() },
	"NewTargetHeaterCoolerState":               func() interface{} { return NewTargetHeaterCoolerState() },
	"NewTargetHeatingCoolingState":             func() interface{} { return NewTargetHeatingCoolingState() },
	"NewTargetHorizontalTiltAngle":             func() interface{} { return NewTargetHorizontalTiltAngle() },
	"NewTargetHumidifierDehumidifierState":     func() interface{} { return NewTargetHumidifierDehumidifierState() },
	"NewTargetMediaState":                      func() interface{} { return NewTargetMediaState() },
	"NewTargetPosition":                        func() interface{} { return NewTargetPosition() },
	"NewTargetRelativeHumidity":                func() interface{} { return NewTargetRelativeHumidity() },
	"NewTargetSlatState":                       func() interface{} { return NewTargetSlatState() },
	"NewTargetTemperature":                     func() interface{} { return NewTargetTemperature() },
	"NewTargetTiltAngle":                       func() interface{} { return NewTargetTiltAngle() },
	"NewTargetVerticalTiltAngle":               func() interface{} { return NewTargetVerticalTiltAngle() },
	"NewTargetVisibilityState":                 func() interface{} { return NewTargetVisibilityState() },
	"NewTemperatureDisplayUnits":               func() interface{} { return NewTemperatureDisplayUnits() },
	"NewTimeUpdate":                            func() interface{} { return NewTimeUpdate() },
	"NewTunnelConnectionTimeout":               func() interface{} { return NewTunnelConnectionTimeout() },
	"NewTunneledAccessoryAdvertising":          func() interface{} { return NewTunneledAccessoryAdvertising() },
	"NewTunneledAccessoryConnected":            func() interface{} { return NewTunneledAccessoryConnected() },
	"NewTunneledAccessoryStateNumber":          func() interface{} { return NewTunneledAccessoryStateNumber() },
	"NewValveType":                             func() interface{} { return NewValveType() },
	"NewVersion":                               func() interface{} { return NewVersion() },
	"NewVOCDensity":                            func() interface{} { return NewVOCDensity() },
	"NewVolume":                                func() interface{} { return NewVolume() },
	"NewVolumeControlType":                     func() interface{} { return NewVolumeControlType() },
	"NewVolumeSelector":                        func() interface{} { return NewVolumeSelector() },
	"NewWaterLevel":                            func() interface{} { return NewWaterLevel() },
	"NewWifiCapabilities":                      func() interface{} { return NewWifiCapabilities() },
	"NewWifiConfigurationControl":              func() interface{} { return NewWifiConfigurationControl() },
}

func zzBase(x interface{}) *Characteristic {
	v := reflect.ValueOf(x)
	if c, ok := x.(*Characteristic); ok {
		return c
	}
	return v.Elem().FieldByName("Characteristic").Interface().(*Characteristic)
}

// zzCheck returns a description of the violated clause or "".
func zzCheck(c *Characteristic) (res string) {
	defer func() {
		if r := recover(); r != nil {
			res = fmt.Sprintf("panic: %v", r)
		}
	}()
	v := c.Value
	if v == nil {
		if readPerm(c.Perms) {
			return ""
		}
		return ""
	}
	switch c.Format {
	case FormatFloat:
		f, ok := v.(float64)
		if !ok {
			return fmt.Sprintf("float holds %T", v)
		}
		if math.IsNaN(f) || math.IsInf(f, 0) {
			return "non-finite"
		}
		if c.MinValue != nil {
			m, ok := c.MinValue.(float64)
			if !ok {
				return fmt.Sprintf("float min is %T", c.MinValue)
			}
			if f < m {
				return fmt.Sprintf("%v < min %v", f, m)
			}
		}
		if c.MaxValue != nil {
			m, ok := c.MaxValue.(float64)
			if !ok {
				return fmt.Sprintf("float max is %T", c.MaxValue)
			}
			if f > m {
				return fmt.Sprintf("%v > max %v", f, m)
			}
		}
	case FormatUInt8, FormatUInt16, FormatUInt32, FormatUInt64, FormatInt32:
		f, ok := v.(int)
		if !ok {
			return fmt.Sprintf("int holds %T", v)
		}
		if c.MinValue != nil {
			m, ok := c.MinValue.(int)
			if !ok {
				return fmt.Sprintf("int min is %T", c.MinValue)
			}
			if f < m {
				return fmt.Sprintf("%v < min %v", f, m)
			}
		}
		if c.MaxValue != nil {
			m, ok := c.MaxValue.(int)
			if !ok {
				return fmt.Sprintf("int max is %T", c.MaxValue)
			}
			if f > m {
				return fmt.Sprintf("%v > max %v", f, m)
			}
		}
	case FormatBool:
		if _, ok := v.(bool); !ok {
			return fmt.Sprintf("bool holds %T", v)
		}
	case FormatString, FormatTLV8, FormatData:
		if _, ok := v.(string); !ok {
			return fmt.Sprintf("string holds %T", v)
		}
	default:
		return fmt.Sprintf("unknown format %q", c.Format)
	}
	if _, err := json.Marshal(c); err != nil {
		return "json: " + err.Error()
	}
	return ""
}

func zzRandValue(r *rand.Rand, depth int) interface{} {
	switch n := r.Intn(16); {
	case n == 0:
		return nil
	case n == 1:
		return r.Intn(2) == 0
	case n == 2:
		return float64(r.Intn(600) - 300)
	case n == 3:
		return (r.Float64() - 0.5) * math.Pow(10, float64(r.Intn(40)))
	case n == 4:
		fs := []float64{0, -0.0, 1, -1, 0.5, 255, 256, 65535, 65536, 4294967295, 4294967296, 2147483647, 2147483648, -2147483648, -2147483649, 9.3e18, -9.3e18, 1.9e19, 1e300, -1e300, math.MaxFloat64, -math.MaxFloat64, math.SmallestNonzeroFloat64, 9223372036854775807, 18446744073709551615}
		return fs[r.Intn(len(fs))]
	case n == 5:
		ss := []string{"", "1", "-1", "0", "true", "false", "T", "1.5", "1e3", "1e400", "-1e400", "NaN", "Inf", "-Inf", "infinity", "0x10", "0x1p-2", " 1", "1 ", "abc", "null", "\xff\xfe", "18446744073709551615", "18446744073709551616", "-9223372036854775808", "-9223372036854775809", "1_000", "+5", "٣"}
		return ss[r.Intn(len(ss))]
	case n == 6:
		return fmt.Sprint(r.Intn(1000) - 500)
	case n == 7 && depth < 3:
		a := []interface{}{}
		for i := r.Intn(3); i > 0; i-- {
			a = append(a, zzRandValue(r, depth+1))
		}
		return a
	case n == 8 && depth < 3:
		m := map[string]interface{}{}
		for i := r.Intn(3); i > 0; i-- {
			m[fmt.Sprint("k", i)] = zzRandValue(r, depth+1)
		}
		return m
	case n == 9:
		return r.Intn(300) - 20
	case n == 10:
		return json.Number(fmt.Sprint(r.Intn(300)))
	default:
		return float64(r.Intn(200)-50) / 2
	}
}

type zzConn struct{ net.Conn }

func TestZZHunt5Ctors(t *testing.T) {
	for name, fn := range zzAllCtors {
		c := zzBase(fn())
		if s := zzCheck(c); s != "" {
			t.Errorf("%s fresh: %s (value %#v min %#v max %#v format %s)", name, s, c.Value, c.MinValue, c.MaxValue, c.Format)
		}
		if readPerm(c.Perms) && c.Value == nil {
			t.Logf("%s fresh: readable but nil value (format %s)", name, c.Format)
		}
	}
}

func TestZZHunt5Random(t *testing.T) {
	conn := zzConn{}
	bad := map[string]bool{}
	for name, fn := range zzAllCtors {
		for seed := int64(0); seed < 5; seed++ {
			r := rand.New(rand.NewSource(seed))
			x := fn()
			c := zzBase(x)
			if zzCheck(c) != "" {
				break
			}
			var last interface{}
			for step := 0; step < 400; step++ {
				v := zzRandValue(r, 0)
				if r.Intn(5) == 0 {
					v = last
				}
				last = v
				op := r.Intn(3)
				func() {
					defer func() {
						if rec := recover(); rec != nil {
							key := fmt.Sprintf("%s panic %v", c.Format, rec)
							if !bad[key] {
								bad[key] = true
								t.Errorf("%s seed %d step %d op %d value %#v: panic %v", name, seed, step, op, v, rec)
							}
						}
					}()
					switch op {
					case 0:
						c.UpdateValue(v)
					case 1:
						c.UpdateValueFromConnection(v, conn)
					case 2:
						c.GetValueFromConnection(conn)
					}
				}()
				if s := zzCheck(c); s != "" {
					key := c.Format + s
					if !bad[key] {
						bad[key] = true
						t.Errorf("%s seed %d step %d op %d value %#v: %s (stored %#v min %#v max %#v)", name, seed, step, op, v, s, c.Value, c.MinValue, c.MaxValue)
					}
					break
				}
			}
		}
	}
}

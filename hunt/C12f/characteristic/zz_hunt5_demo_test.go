package characteristic

import (
	"fmt"
	"testing"
)

// Property C12, clause "whatever value the application or a controller supplies
// (... arrays, objects) ... including repeated writes of the same composite value":
// the update must not fail. A characteristic made with the exported generic
// constructor NewCharacteristic (no format assigned yet, readable and writable by
// default) panics in updateValue's `c.Value == value` on the second write of the
// same JSON array or object, locally and from a controller.
// Sibling of 9c7c6ac (string/tlv8/data) and efa5ae7 (NewInt/NewFloat), which
// removed the same panic for the other generic constructors.
// BORDERLINE: the characteristic declares no format, so "the type its format
// declares" says nothing about what is stored; what is shown is the panic.
func TestZZHunt5CompositeTwiceOnGenericCharacteristic(t *testing.T) {
	for _, v := range []interface{}{
		[]interface{}{1.0},
		map[string]interface{}{"a": 1.0},
	} {
		for _, remote := range []bool{false, true} {
			func() {
				defer func() {
					if r := recover(); r != nil {
						t.Errorf("remote=%v value %#v written twice: panic: %v", remote, v, r)
					}
				}()
				c := NewCharacteristic("F0000001-0000-1000-8000-0026BB765291")
				for i := 0; i < 2; i++ {
					if remote {
						c.UpdateValueFromConnection(v, TestConn)
					} else {
						c.UpdateValue(v)
					}
				}
			}()
		}
	}
}

// Property C12, clause "the typed getters never fail". The repair 1f27671 made
// Int/Float.GetValue read "nothing stored" as the zero value; the typed getters
// next to them, GetMinValue / GetMaxValue / GetStepValue, still assert the
// dynamic type unchecked and panic on every characteristic that declares no
// bound: NewInt/NewFloat and 30-odd constructors of the library itself
// (NewSmokeDetected, NewTargetDoorState, NewActiveIdentifier has a minimum only, ...).
// BORDERLINE: the statement speaks of the stored value; these getters read the
// declared range, which is legitimately absent. Shown as an incomplete repair.
func TestZZHunt5BoundGettersWithoutBounds(t *testing.T) {
	try := func(name string, f func()) {
		defer func() {
			if r := recover(); r != nil {
				t.Errorf("%s: panic: %v", name, r)
			}
		}()
		f()
	}
	i := NewInt("F0000002-0000-1000-8000-0026BB765291")
	try("NewInt.GetMinValue", func() { i.GetMinValue() })
	try("NewInt.GetMaxValue", func() { i.GetMaxValue() })
	try("NewInt.GetStepValue", func() { i.GetStepValue() })
	f := NewFloat("F0000003-0000-1000-8000-0026BB765291")
	try("NewFloat.GetMinValue", func() { f.GetMinValue() })
	try("NewFloat.GetMaxValue", func() { f.GetMaxValue() })
	try("NewFloat.GetStepValue", func() { f.GetStepValue() })
	try("NewSmokeDetected.GetMaxValue", func() { NewSmokeDetected().GetMaxValue() })
	try("NewTargetDoorState.GetMinValue", func() { NewTargetDoorState().GetMinValue() })
	try("NewActiveIdentifier.GetMaxValue", func() { NewActiveIdentifier().GetMaxValue() })
	try("NewSleepDiscoveryMode.GetStepValue", func() { NewSleepDiscoveryMode().GetStepValue() })
	_ = fmt.Sprint
}

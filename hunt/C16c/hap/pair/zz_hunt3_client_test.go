package pair

import (
	"bytes"
	"testing"

	"github.com/brutella/hc/crypto/chacha20poly1305"
	"github.com/brutella/hc/db"
	"github.com/brutella/hc/hap"
	"github.com/brutella/hc/util"
)

// BESIDE property C16 (consumers of the codec, client-side types): the repairs
// 85c5920 (encrypted data shorter than an auth tag) and 793b4f4 (peer-provoked
// failures are answered instead of panicking) were made in the two SERVER
// controllers only. The two CLIENT controllers, which applications use to pair
// with an accessory, still have the same code: a well-formed TLV8 message from
// the peer panics the application.

func h3NoPanic(t *testing.T, what string, f func() error) {
	t.Helper()
	defer func() {
		if r := recover(); r != nil {
			t.Errorf("%s: panic: %v", what, r)
		}
	}()
	err := f()
	if err == nil {
		t.Errorf("%s: no error", what)
	}
}

func h3Clients(t *testing.T) (*SetupClientController, *VerifyClientController) {
	database, err := db.NewTempDatabase()
	if err != nil {
		t.Fatal(err)
	}
	client, err := hap.NewDevice("Client", database)
	if err != nil {
		t.Fatal(err)
	}
	return NewSetupClientController("001-02-003", client, database), NewVerifyClientController(client, database)
}

// pair-setup M6 without / with short encrypted data: data[:len(data)-16]
// (setup_client_controller.go handleKeyExchange)
func TestHunt3SetupClientShortEncryptedData(t *testing.T) {
	for _, n := range []int{-1, 0, 1, 15} {
		setup, _ := h3Clients(t)
		in := util.NewTLV8Container()
		in.SetByte(TagSequence, PairStepKeyExchangeResponse.Byte())
		if n >= 0 {
			in.SetBytes(TagEncryptedData, make([]byte, n))
		}
		h3NoPanic(t, "setup client M6", func() error {
			_, err := HandleReaderForHandler(in.BytesBuffer(), setup)
			return err
		})
	}
}

// pair-verify M2 with a 32 byte key and short encrypted data
// (verify_client_controller.go handlePairStepVerifyResponse)
func TestHunt3VerifyClientShortEncryptedData(t *testing.T) {
	for _, n := range []int{-1, 1, 15} {
		_, verify := h3Clients(t)
		in := util.NewTLV8Container()
		in.SetByte(TagSequence, VerifyStepStartResponse.Byte())
		in.SetBytes(TagPublicKey, make([]byte, 32))
		if n >= 0 {
			in.SetBytes(TagEncryptedData, make([]byte, n))
		}
		h3NoPanic(t, "verify client M2", func() error {
			_, err := HandleReaderForHandler(in.BytesBuffer(), verify)
			return err
		})
	}
}

// any pair-setup response that carries an error code (e.g. the accessory's
// answer to a wrong pin, kTLVError_Authentication) calls log.Info.Panic
// (setup_client_controller.go Handle); the `return nil, code.Error()` behind it
// is unreachable.
func TestHunt3SetupClientErrorCodePanics(t *testing.T) {
	setup, _ := h3Clients(t)
	in := util.NewTLV8Container()
	in.SetByte(TagSequence, PairStepVerifyResponse.Byte())
	in.SetByte(TagErrCode, ErrCodeAuthenticationFailed.Byte())
	h3NoPanic(t, "setup client error code", func() error {
		_, err := HandleReaderForHandler(in.BytesBuffer(), setup)
		return err
	})
}

// Property C16, clause "parsing arbitrary bytes ... returns an error", seen
// from the caller: handleKeyExchange prints the error of
// NewTLV8ContainerFromReader and goes on with the nil container. The accessory
// (real server controller up to M4) sends an authentic M6 whose decrypted
// payload is a truncated TLV8 item.
func TestHunt3SetupClientIgnoresParseError(t *testing.T) {
	storage, _ := util.NewTempFileStorage()
	database := db.NewDatabaseWithStorage(storage)
	bridge, err := hap.NewSecuredDevice("Bridge", "001-02-003", database)
	if err != nil {
		t.Fatal(err)
	}
	server, err := NewSetupServerController(bridge, database)
	if err != nil {
		t.Fatal(err)
	}
	client, _ := h3Clients(t)

	m2, err := HandleReaderForHandler(client.InitialPairingRequest(), server)
	if err != nil {
		t.Fatal(err)
	}
	m3, err := HandleReaderForHandler(m2, client)
	if err != nil {
		t.Skip("SRP leading-zero flake (known):", err)
	}
	m4, err := HandleReaderForHandler(m3, server)
	if err != nil {
		t.Skip("SRP leading-zero flake (known):", err)
	}
	if _, err = HandleReaderForHandler(m4, client); err != nil { // M5, not sent
		t.Fatal(err)
	}

	payload := []byte{TagUsername, 5, 'a'} // 5 bytes announced, 1 there
	enc, mac, err := chacha20poly1305.EncryptAndSeal(server.session.EncryptionKey[:], []byte("PS-Msg06"), payload, nil)
	if err != nil {
		t.Fatal(err)
	}
	m6 := util.NewTLV8Container()
	m6.SetByte(TagSequence, PairStepKeyExchangeResponse.Byte())
	m6.SetBytes(TagEncryptedData, append(enc, mac[:]...))

	h3NoPanic(t, "setup client M6 with truncated inner tlv8", func() error {
		_, err := HandleReaderForHandler(bytes.NewReader(m6.BytesBuffer().Bytes()), client)
		return err
	})
}

package pair

import (
	"bytes"
	"math/rand"
	"testing"

	"github.com/brutella/hc/db"
	"github.com/brutella/hc/hap"
	"github.com/brutella/hc/util"
)

// probe: arbitrary TLV8 containers handed to the server side controllers: no panic
func TestHunt3ProbeHandlersArbitrary(t *testing.T) {
	storage, _ := util.NewTempFileStorage()
	database := db.NewDatabaseWithStorage(storage)
	bridge, err := hap.NewSecuredDevice("Bridge", "001-02-003", database)
	if err != nil {
		t.Fatal(err)
	}
	context := hap.NewContextForSecuredDevice(bridge)
	rng := rand.New(rand.NewSource(5))
	lens := []int{0, 1, 2, 15, 16, 17, 31, 32, 33, 63, 64, 65, 255, 256, 383, 384, 385, 600}
	tags := []byte{0, 1, 2, 3, 4, 5, 6, 7, 8, 9, 10, 11, 0xFF}

	gen := func(seq byte) []byte {
		c := util.NewTLV8Container()
		if rng.Intn(8) != 0 {
			c.SetByte(TagSequence, seq)
		}
		for k := rng.Intn(5); k > 0; k-- {
			tag := tags[rng.Intn(len(tags))]
			v := make([]byte, lens[rng.Intn(len(lens))])
			if rng.Intn(3) != 0 {
				rng.Read(v)
			}
			c.SetBytes(tag, v)
		}
		b := c.BytesBuffer().Bytes()
		if rng.Intn(6) == 0 && len(b) > 0 {
			b = b[:rng.Intn(len(b))]
		}
		return b
	}

	for it := 0; it < 3000; it++ {
		setup, err := NewSetupServerController(bridge, database)
		if err != nil {
			t.Fatal(err)
		}
		verify := NewVerifyServerController(database, context)
		pairing := NewPairingController(database)
		func() {
			var last []byte
			defer func() {
				if r := recover(); r != nil {
					t.Fatalf("panic on %x: %v", last, r)
				}
			}()
			// optionally a valid M1 first so that later steps are reachable
			if rng.Intn(2) == 0 {
				c := util.NewTLV8Container()
				c.SetByte(TagSequence, 1)
				c.SetByte(TagPairingMethod, 0)
				HandleReaderForHandler(c.BytesBuffer(), setup)
			}
			if rng.Intn(2) == 0 {
				c := util.NewTLV8Container()
				c.SetByte(TagSequence, 1)
				pk := make([]byte, 32)
				rng.Read(pk)
				c.SetBytes(TagPublicKey, pk)
				HandleReaderForHandler(c.BytesBuffer(), verify)
			}
			for k := 0; k < 3; k++ {
				last = gen(byte(1 + rng.Intn(6)))
				HandleReaderForHandler(bytes.NewReader(last), setup)
				last = gen(byte(1 + rng.Intn(4)))
				HandleReaderForHandler(bytes.NewReader(last), verify)
				last = gen(byte(1 + rng.Intn(2)))
				HandleReaderForHandler(bytes.NewReader(last), pairing)
			}
		}()
	}
}

package util

import (
	"bytes"
	"fmt"
	"math/rand"
	"testing"
)

// reference encoder: every set appends ceil(len/255) items (at least one)
func refEncode(ops []op) []byte {
	var b bytes.Buffer
	for _, o := range ops {
		v := o.val
		if len(v) == 0 {
			b.Write([]byte{o.tag, 0})
			continue
		}
		for len(v) > 0 {
			n := len(v)
			if n > 255 {
				n = 255
			}
			b.Write([]byte{o.tag, byte(n)})
			b.Write(v[:n])
			v = v[n:]
		}
	}
	return b.Bytes()
}

type refItem struct {
	tag byte
	val []byte
}

// standard parser: merges consecutive same-tag items
func refParse(b []byte) ([]refItem, error) {
	var items []refItem
	last := -1
	for len(b) > 0 {
		if len(b) < 2 {
			return nil, fmt.Errorf("truncated header")
		}
		t, n := b[0], int(b[1])
		b = b[2:]
		if len(b) < n {
			return nil, fmt.Errorf("truncated value")
		}
		v := b[:n]
		b = b[n:]
		if last >= 0 && items[last].tag == t {
			items[last].val = append(items[last].val, v...)
		} else {
			items = append(items, refItem{t, append([]byte{}, v...)})
			last = len(items) - 1
		}
	}
	return items, nil
}

type op struct {
	tag byte
	val []byte
}

func TestProbeLengths(t *testing.T) {
	bad := 0
	for n := 0; n <= 1100; n++ {
		v := make([]byte, n)
		for i := range v {
			v[i] = byte(i*7 + n)
		}
		c := NewTLV8Container()
		c.SetBytes(byte(n), v)
		got := c.BytesBuffer().Bytes()
		want := refEncode([]op{{byte(n), v}})
		if !bytes.Equal(got, want) {
			bad++
			if bad < 10 {
				t.Errorf("len %d: bytes differ got %d want %d bytes", n, len(got), len(want))
			}
		}
		p, err := NewTLV8ContainerFromReader(bytes.NewReader(got))
		if err != nil {
			t.Errorf("len %d: %v", n, err)
			continue
		}
		if !bytes.Equal(p.GetBytes(byte(n)), v) {
			t.Errorf("len %d: value differs", n)
		}
		items, err := refParse(got)
		if err != nil || len(items) != 1 || !bytes.Equal(items[0].val, v) {
			t.Errorf("len %d: ref parser: %v %d", n, err, len(items))
		}
	}
}

func TestProbeRandomSeq(t *testing.T) {
	rng := rand.New(rand.NewSource(1))
	for it := 0; it < 20000; it++ {
		nops := 1 + rng.Intn(6)
		var ops []op
		c := NewTLV8Container()
		model := map[byte][]byte{}
		lens := []int{0, 1, 2, 254, 255, 256, 509, 510, 511, 765, 1020}
		for i := 0; i < nops; i++ {
			tag := byte(rng.Intn(4))
			if rng.Intn(4) == 0 {
				tag = byte(rng.Intn(256))
			}
			n := lens[rng.Intn(len(lens))]
			if rng.Intn(3) == 0 {
				n = rng.Intn(1100)
			}
			v := make([]byte, n)
			rng.Read(v)
			ops = append(ops, op{tag, v})
			switch rng.Intn(3) {
			case 0:
				c.SetBytes(tag, v)
			case 1:
				c.SetString(tag, string(v))
			case 2:
				if n == 1 {
					c.SetByte(tag, v[0])
				} else {
					c.SetBytes(tag, v)
				}
			}
			model[tag] = append(model[tag], v...)
		}
		got := c.BytesBuffer().Bytes()
		p, err := NewTLV8ContainerFromReader(bytes.NewReader(got))
		if err != nil {
			t.Fatalf("it %d: %v", it, err)
		}
		for tag := 0; tag < 256; tag++ {
			a, b := c.GetBytes(byte(tag)), p.GetBytes(byte(tag))
			if !bytes.Equal(a, b) || !bytes.Equal(a, model[byte(tag)]) {
				t.Fatalf("it %d tag %d: before %d after %d model %d", it, tag, len(a), len(b), len(model[byte(tag)]))
			}
			if c.GetString(byte(tag)) != p.GetString(byte(tag)) || c.GetByte(byte(tag)) != p.GetByte(byte(tag)) {
				t.Fatalf("it %d tag %d string/byte", it, tag)
			}
		}
		if !bytes.Equal(p.BytesBuffer().Bytes(), got) {
			t.Fatalf("it %d: reserialise differs", it)
		}
	}
}

func TestProbeParseArbitrary(t *testing.T) {
	rng := rand.New(rand.NewSource(2))
	for it := 0; it < 200000; it++ {
		n := rng.Intn(40)
		if rng.Intn(10) == 0 {
			n = rng.Intn(1200)
		}
		b := make([]byte, n)
		rng.Read(b)
		if rng.Intn(2) == 0 {
			// bias to small lengths
			for i := 1; i < len(b); i += 1 + rng.Intn(4) {
				b[i] = byte(rng.Intn(4))
			}
		}
		func() {
			defer func() {
				if r := recover(); r != nil {
					t.Fatalf("panic on %x: %v", b, r)
				}
			}()
			c, err := NewTLV8ContainerFromReader(bytes.NewReader(b))
			items, rerr := refParse(b)
			if (err == nil) != (rerr == nil) {
				t.Fatalf("%x: lib err %v ref err %v", b, err, rerr)
			}
			if err != nil {
				if c != nil {
					t.Fatalf("%x: container with error", b)
				}
				return
			}
			model := map[byte][]byte{}
			for _, i := range items {
				model[i.tag] = append(model[i.tag], i.val...)
			}
			for tag := 0; tag < 256; tag++ {
				if !bytes.Equal(c.GetBytes(byte(tag)), model[byte(tag)]) {
					t.Fatalf("%x: tag %d", b, tag)
				}
			}
			if !bytes.Equal(c.BytesBuffer().Bytes(), b) {
				t.Fatalf("%x: reserialise", b)
			}
		}()
	}
}

func TestProbeTruncations(t *testing.T) {
	c := NewTLV8Container()
	v := make([]byte, 600)
	for i := range v {
		v[i] = byte(i)
	}
	c.SetBytes(1, v)
	c.SetByte(2, 9)
	c.SetBytes(3, v[:255])
	full := c.BytesBuffer().Bytes()
	for cut := 0; cut <= len(full); cut++ {
		b := full[:cut]
		p, err := NewTLV8ContainerFromReader(bytes.NewReader(b))
		_, rerr := refParse(b)
		if (err == nil) != (rerr == nil) {
			t.Errorf("cut %d: lib %v ref %v", cut, err, rerr)
		}
		if err == nil {
			for _, tag := range []byte{1, 2, 3} {
				g := p.GetBytes(tag)
				w := c.GetBytes(tag)
				if !bytes.HasPrefix(w, g) {
					t.Errorf("cut %d tag %d not a prefix", cut, tag)
				}
			}
		}
	}
}

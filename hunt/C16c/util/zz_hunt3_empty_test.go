package util

import (
	"bytes"
	"testing"
)

// Property C16, observed at "bytes from BytesBuffer compared with a reference
// encoder", quantifier "all value lengths 0..1024 exhaustively" and "all
// sequences of sets (repeated and interleaved tags)".
//
// A set with a value of length 0 writes no item at all (SetBytes: io.ReadFull
// on an empty buffer returns io.EOF, which takes the branch that appends
// nothing). The TLV8 encoding of an empty value is the item {tag, 0}; HAP uses
// exactly that item (kTLVType_Separator, 0xFF, length 0) to keep two values of
// the same tag apart. Without it a standard TLV8 parser reassembles the two
// neighbours into ONE value: it sees data as one item that was never set as
// one item.
//
// BORDERLINE: read back through the library's own Get* the empty tag is "empty"
// before and after (Get* cannot tell absent from empty, and concatenates all
// items of a tag anyway), so the first clause read narrowly still holds; what
// breaks is the equality with the reference encoder and what a standard parser
// makes of the bytes.
func TestHunt3EmptyValueWritesNoItem(t *testing.T) {
	for _, set := range []struct {
		name string
		do   func(c Container)
	}{
		{"SetBytes(empty)", func(c Container) { c.SetBytes(0xFF, []byte{}) }},
		{"SetBytes(nil)", func(c Container) { c.SetBytes(0xFF, nil) }},
		{"SetString(\"\")", func(c Container) { c.SetString(0xFF, "") }},
	} {
		c := NewTLV8Container()
		c.SetBytes(1, []byte("alice"))
		set.do(c) // separator
		c.SetBytes(1, []byte("bob"))

		got := c.BytesBuffer().Bytes()
		want := []byte{1, 5, 'a', 'l', 'i', 'c', 'e', 0xFF, 0, 1, 3, 'b', 'o', 'b'}
		if !bytes.Equal(got, want) {
			t.Errorf("%s: encoded % x, reference encoder % x", set.name, got, want)
		}

		// what a standard parser (consecutive items of one tag are fragments
		// of one value) makes of the bytes
		var values [][]byte
		var tags []byte
		for b := got; len(b) >= 2; {
			tag, n := b[0], int(b[1])
			if len(tags) > 0 && tags[len(tags)-1] == tag {
				values[len(values)-1] = append(values[len(values)-1], b[2:2+n]...)
			} else {
				tags = append(tags, tag)
				values = append(values, append([]byte{}, b[2:2+n]...))
			}
			b = b[2+n:]
		}
		if len(values) != 3 {
			t.Errorf("%s: a standard parser sees %d value(s) %q, three were set", set.name, len(values), values)
		}
	}
}

package tlv8

// NOT demonstrations of property C16: API corners beside it (see report, section 2).

import (
	"reflect"
	"testing"
)

type h3Obj struct {
	Id   uint8  `tlv8:"1"`
	Name string `tlv8:"2"`
}

// Marshal of a slice (encoder.encodeSlice / slicePayload) writes the elements
// one after the other WITHOUT the {0,0} delimiter that lists inside a struct
// get. Items of the same tag of neighbouring elements are then consecutive, and
// consecutive items of one tag are fragments of one value: the reader glues
// them together. Unmarshal into a slice of the same length (decodeSlice fills
// the elements that are there) returns the first element with the values of
// all elements concatenated and the others empty.
func TestHunt3TopLevelSliceRoundTrip(t *testing.T) {
	in := []h3Obj{{1, "ab"}, {2, "cd"}}
	b, err := Marshal(in)
	if err != nil {
		t.Fatal(err)
	}
	out := make([]h3Obj, len(in))
	if err := Unmarshal(b, &out); err != nil {
		t.Fatal(err)
	}
	if !reflect.DeepEqual(in, out) {
		t.Fatalf("round trip differs\n  in  = %+v\n  out = %+v\n  wire= %v", in, out, b)
	}
}

type h3Ptr struct {
	Name string `tlv8:"1"`
	P    *h3Obj `tlv8:"2"`
}

func TestHunt3MarshalNilPointer(t *testing.T) {
	defer func() {
		if r := recover(); r != nil {
			t.Fatalf("panic: %v", r)
		}
	}()
	_, err := Marshal(h3Ptr{Name: "x"})
	t.Log(err)
}

package tlv8

import (
	"testing"
)

type h3Leaf struct {
	A string `tlv8:"1"`
}
type h3One struct {
	L h3Leaf `tlv8:"3"`
}
type h3Many struct {
	Ls []h3Leaf `tlv8:"3"`
	Z  uint8    `tlv8:"4"`
}

// BORDERLINE (leniency, no invented data). Clause "parsing arbitrary bytes
// either succeeds or returns an error", input "truncated items": an element of
// a tagged list whose bytes are a truncated TLV8 item (5 bytes announced, 1
// there). As a single nested struct the same bytes are an error
// (unexpected EOF); in a list decoder.decode leaves the loop with `break` when
// newDecoder fails and the error is forgotten: Unmarshal returns nil, the list
// is cut at that element and the fields behind it are filled as if nothing
// had happened.
func TestHunt3NamedListSwallowsError(t *testing.T) {
	wire := []byte{3, 3, 1, 5, 'a', 4, 1, 9}
	var one h3One
	if err := Unmarshal(wire, &one); err == nil {
		t.Errorf("nested struct: no error")
	}
	var many h3Many
	err := Unmarshal(wire, &many)
	if err == nil {
		t.Errorf("list: truncated element accepted without error, result %+v", many)
	}
}

// The same for a nested struct when the cut is exactly behind the length
// byte: read() returns io.EOF for the missing value, and decode takes io.EOF
// from unmarshal for "field not present".
func TestHunt3NestedTruncatedAtValueIsNoError(t *testing.T) {
	wire := []byte{3, 2, 1, 5}
	var one h3One
	if err := Unmarshal(wire, &one); err == nil {
		t.Errorf("nested struct with the item {1, len 5, no bytes}: no error, result %+v", one)
	}
}

package tlv8

import (
	"reflect"
	"testing"
)

// Property C16, clause "serialising ... and parsing it back yields the same
// value for every tag", quantifier "all value lengths 0..1024 exhaustively":
// a value of length 0 is not written at all (writer.writeBytes writes no item
// for an empty value) and the reader throws zero-length items away, so a
// zero-length value does not keep its place in a list.

type h3Entry struct {
	Id   uint8  `tlv8:"1"`
	Name string `tlv8:"2"`
}

type h3Inline struct {
	Entries []h3Entry `tlv8:"-"`
}

// In an inline list the value of a later element moves into the element whose
// own value is empty: the round trip returns data under the wrong element.
func TestHunt3InlineListEmptyValueShifts(t *testing.T) {
	in := h3Inline{Entries: []h3Entry{{1, ""}, {2, "bob"}, {3, "eve"}}}
	b, err := Marshal(in)
	if err != nil {
		t.Fatal(err)
	}
	var out h3Inline
	if err := Unmarshal(b, &out); err != nil {
		t.Fatal(err)
	}
	if !reflect.DeepEqual(in, out) {
		t.Fatalf("round trip differs\n  in  = %+v\n  out = %+v\n  wire= %v", in, out, b)
	}
}

type h3Name struct {
	Name []byte `tlv8:"1"`
}

type h3Named struct {
	Names []h3Name `tlv8:"9"`
	After uint8    `tlv8:"2"`
}

// In a tagged list an element whose encoding is empty disappears: the list
// comes back shorter and the elements behind it change their index.
func TestHunt3NamedListEmptyElementLost(t *testing.T) {
	in := h3Named{Names: []h3Name{{[]byte("a")}, {[]byte{}}, {[]byte("c")}}, After: 7}
	b, err := Marshal(in)
	if err != nil {
		t.Fatal(err)
	}
	var out h3Named
	if err := Unmarshal(b, &out); err != nil {
		t.Fatal(err)
	}
	if len(out.Names) != len(in.Names) {
		t.Fatalf("list of %d elements came back with %d: %+v wire=%v", len(in.Names), len(out.Names), out, b)
	}
	for i := range in.Names {
		if string(in.Names[i].Name) != string(out.Names[i].Name) {
			t.Fatalf("element %d: %q != %q", i, in.Names[i].Name, out.Names[i].Name)
		}
	}
}

// The same on the reading side alone: a peer that does write the zero-length
// item (a standard encoder does) is misread in the same way, because read()
// drops every item of length 0.
func TestHunt3ReaderDropsZeroLengthItem(t *testing.T) {
	wire := []byte{
		1, 1, 1, 2, 0, // {1, ""}
		0, 0,
		1, 1, 2, 2, 3, 'b', 'o', 'b', // {2, "bob"}
	}
	var out h3Inline
	if err := Unmarshal(wire, &out); err != nil {
		t.Fatal(err)
	}
	want := []h3Entry{{1, ""}, {2, "bob"}}
	if !reflect.DeepEqual(out.Entries, want) {
		t.Fatalf("got %+v want %+v", out.Entries, want)
	}
}

package tlv8

import (
	"bytes"
	"fmt"
	"hash/crc32"
	"math/rand"
	"reflect"
	"testing"
)

type pLeaf struct {
	A string `tlv8:"1"`
	B []byte `tlv8:"2"`
	C uint8  `tlv8:"3"`
}

type pMid struct {
	X  uint16  `tlv8:"1"`
	L  pLeaf   `tlv8:"2"`
	Ls []pLeaf `tlv8:"3"`
	Y  int32   `tlv8:"4"`
}

type pIn struct {
	P uint8  `tlv8:"5"`
	Q string `tlv8:"6"`
}

type pTop struct {
	S   string  `tlv8:"1"`
	M   pMid    `tlv8:"2"`
	Ms  []pMid  `tlv8:"3"`
	In  []pIn   `tlv8:"-"`
	F   float32 `tlv8:"7"`
	I64 int64   `tlv8:"8"`
	U64 uint64  `tlv8:"9"`
	I16 int16   `tlv8:"10"`
	U32 uint32  `tlv8:"11"`
	Bo  bool    `tlv8:"12"`
	By  []byte  `tlv8:"13"`
}

var pNoEmptyInline = false

var pLens = []int{0, 1, 2, 3, 100, 253, 254, 255, 256, 257, 509, 510, 511, 765, 1020, 1024}

func pBytes(rng *rand.Rand, allowEmpty bool) []byte {
	n := pLens[rng.Intn(len(pLens))]
	if rng.Intn(2) == 0 {
		n = rng.Intn(8)
	}
	if n == 0 && !allowEmpty {
		n = 1
	}
	if n == 0 {
		return nil
	}
	b := make([]byte, n)
	rng.Read(b)
	return b
}

func pGenLeaf(rng *rand.Rand, e bool) pLeaf {
	return pLeaf{string(pBytes(rng, e)), pBytes(rng, e), uint8(rng.Intn(256))}
}

func pGenMid(rng *rand.Rand, e bool) pMid {
	m := pMid{X: uint16(rng.Intn(65536)), L: pGenLeaf(rng, e), Y: int32(rng.Uint32())}
	for i := rng.Intn(4); i > 0; i-- {
		m.Ls = append(m.Ls, pGenLeaf(rng, e))
	}
	return m
}

func pGenTop(rng *rand.Rand, e bool) pTop {
	t := pTop{S: string(pBytes(rng, e)), M: pGenMid(rng, e), F: rng.Float32(), I64: int64(rng.Uint64()), U64: rng.Uint64(),
		I16: int16(rng.Intn(65536)), U32: rng.Uint32(), Bo: rng.Intn(2) == 0, By: pBytes(rng, e)}
	for i := rng.Intn(4); i > 0; i-- {
		t.Ms = append(t.Ms, pGenMid(rng, e))
	}
	for i := rng.Intn(4); i > 0; i-- {
		t.In = append(t.In, pIn{uint8(rng.Intn(256)), string(pBytes(rng, e && !pNoEmptyInline))})
	}
	return t
}

func pRoundTrip(t *testing.T, allowEmpty bool, seed int64, iters int) {
	rng := rand.New(rand.NewSource(seed))
	fails := 0
	for it := 0; it < iters; it++ {
		in := pGenTop(rng, allowEmpty)
		b, err := Marshal(in)
		if err != nil {
			t.Fatal(err)
		}
		var out pTop
		if err := Unmarshal(b, &out); err != nil {
			t.Errorf("it %d: unmarshal %v", it, err)
			fails++
		} else if !pEqual(in, out) {
			fails++
			if fails < 4 {
				t.Errorf("it %d: differs\n in=%s\nout=%s", it, pShow(in), pShow(out))
			}
		}
	}
	if fails > 0 {
		t.Errorf("%d/%d failed", fails, iters)
	}
}

func pEqual(a, b pTop) bool {
	return pShow(a) == pShow(b)
}

func pShow(v interface{}) string {
	var buf bytes.Buffer
	pShowV(&buf, reflect.ValueOf(v))
	return buf.String()
}

func pShowV(buf *bytes.Buffer, v reflect.Value) {
	switch v.Kind() {
	case reflect.Struct:
		buf.WriteString("{")
		for i := 0; i < v.NumField(); i++ {
			buf.WriteString(v.Type().Field(i).Name + ":")
			pShowV(buf, v.Field(i))
			buf.WriteString(" ")
		}
		buf.WriteString("}")
	case reflect.String:
		pShowB(buf, []byte(v.String()))
	case reflect.Slice:
		if v.Type().Elem().Kind() == reflect.Uint8 {
			pShowB(buf, v.Bytes())
			return
		}
		buf.WriteString("[")
		for i := 0; i < v.Len(); i++ {
			pShowV(buf, v.Index(i))
		}
		buf.WriteString("]")
	default:
		fmt.Fprintf(buf, "%v", v.Interface())
	}
}

func pShowB(buf *bytes.Buffer, b []byte) {
	if len(b) > 4 {
		fmt.Fprintf(buf, "<%d:%08x>", len(b), crc32.ChecksumIEEE(b))
	} else {
		fmt.Fprintf(buf, "<%x>", b)
	}
}

func TestProbeRoundTripNonEmpty(t *testing.T) { pRoundTrip(t, false, 1, 20000) }
func TestProbeRoundTripEmpty(t *testing.T)    { pRoundTrip(t, true, 2, 20000) }
func TestProbeRoundTripEmptyNotInline(t *testing.T) {
	pNoEmptyInline = true
	defer func() { pNoEmptyInline = false }()
	pRoundTrip(t, true, 4, 20000)
}

func TestProbeUnmarshalArbitrary(t *testing.T) {
	rng := rand.New(rand.NewSource(3))
	for it := 0; it < 300000; it++ {
		var b []byte
		if rng.Intn(2) == 0 {
			in := pGenTop(rng, true)
			b, _ = Marshal(in)
			// mutate
			for k := rng.Intn(4); k >= 0 && len(b) > 0; k-- {
				switch rng.Intn(3) {
				case 0:
					b[rng.Intn(len(b))] = byte(rng.Intn(256))
				case 1:
					b = b[:rng.Intn(len(b)+1)]
				case 2:
					i := rng.Intn(len(b))
					b = append(b[:i:i], b[i+1:]...)
				}
			}
		} else {
			b = make([]byte, rng.Intn(30))
			for i := range b {
				b[i] = byte(rng.Intn(14))
			}
		}
		func() {
			defer func() {
				if r := recover(); r != nil {
					t.Fatalf("panic on %x: %v", b, r)
				}
			}()
			var out pTop
			Unmarshal(b, &out)
		}()
	}
}

package hap

import (
	"bufio"
	"bytes"
	"fmt"
	"io"
	"io/ioutil"
	"net"
	"net/http"
	"strings"
	"testing"
	"time"

	"github.com/brutella/hc/crypto"
)

// listener that wraps accepted connections exactly like hap/http.Server.Accept does,
// with the session keys already installed (as after pair-verify).
type huntListener struct {
	net.Listener
	ctx Context
	key [32]byte
}

func (l *huntListener) Accept() (net.Conn, error) {
	c, err := l.Listener.Accept()
	if err != nil {
		return nil, err
	}
	hc := NewConnection(c, l.ctx)
	srv, _ := crypto.NewSecureSessionFromSharedKey(l.key)
	s := l.ctx.GetSessionForConnection(c)
	s.SetCryptographer(srv)
	s.Decrypter()
	return hc, nil
}

// A controller sends one encrypted HTTP request of n plaintext bytes and waits for the reply.
func huntRequestOfSize(t *testing.T, n int) {
	var key [32]byte
	for i := range key {
		key[i] = byte(7 * i)
	}
	ln, err := net.Listen("tcp", "127.0.0.1:0")
	if err != nil {
		t.Skip("no loopback:", err)
	}
	defer ln.Close()
	hl := &huntListener{Listener: ln, ctx: NewContextForSecuredDevice(nil), key: key}
	server := &http.Server{Handler: http.HandlerFunc(func(w http.ResponseWriter, r *http.Request) {
		io.WriteString(w, "hello")
	})}
	go server.Serve(hl)
	defer server.Close()

	conn, err := net.Dial("tcp", ln.Addr().String())
	if err != nil {
		t.Fatal(err)
	}
	defer conn.Close()
	cli, _ := crypto.NewSecureClientSessionFromSharedKey(key)

	base := "GET /x HTTP/1.1\r\nHost: a\r\nX-Pad: \r\n\r\n"
	req := "GET /x HTTP/1.1\r\nHost: a\r\nX-Pad: " + strings.Repeat("p", n-len(base)) + "\r\n\r\n"
	if len(req) != n {
		t.Fatal(len(req))
	}
	enc, _ := cli.Encrypt(strings.NewReader(req))
	wire, _ := ioutil.ReadAll(enc)
	if _, err := conn.Write(wire); err != nil {
		t.Fatal(err)
	}

	conn.SetReadDeadline(time.Now().Add(2 * time.Second))
	dec, err := cli.Decrypt(conn)
	if err != nil {
		t.Fatalf("request of %d bytes: no response from the accessory within 2s: %v", n, err)
	}
	resp, err := http.ReadResponse(bufio.NewReader(dec), nil)
	if err != nil {
		t.Fatal(err)
	}
	body, _ := ioutil.ReadAll(resp.Body)
	if !bytes.Equal(body, []byte("hello")) {
		t.Fatal(fmt.Sprintf("%q", body))
	}
}

func TestHuntHTTPRequest1023(t *testing.T) { huntRequestOfSize(t, 1023) }
func TestHuntHTTPRequest1025(t *testing.T) { huntRequestOfSize(t, 1025) }
func TestHuntHTTPRequest1024(t *testing.T) { huntRequestOfSize(t, 1024) }
func TestHuntHTTPRequest2048(t *testing.T) { huntRequestOfSize(t, 2048) }

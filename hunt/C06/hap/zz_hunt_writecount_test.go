package hap

import (
	"bufio"
	"io"
	"testing"
)

// NOT part of C06 proper: side observation on hap.Connection.Write's return value.
// io.Writer contract: 0 <= n <= len(p). bufio.Writer (as used by net/http) relies on it.
func TestHuntConnWriteCount(t *testing.T) {
	ca, cb := huntPair(t)
	defer ca.Close()
	defer cb.Close()
	go io.Copy(io.Discard, cb.connection) // drain raw
	data := make([]byte, 100)
	n, err := ca.Write(data)
	if err != nil {
		t.Fatal(err)
	}
	if n != len(data) {
		t.Fatalf("Write(%d bytes) returned n=%d", len(data), n)
	}
}

func TestHuntConnBufioLargeWrite(t *testing.T) {
	ca, cb := huntPair(t)
	defer ca.Close()
	defer cb.Close()
	go io.Copy(io.Discard, cb.connection) // drain raw
	w := bufio.NewWriterSize(ca, 4096)
	data := make([]byte, 10000)
	n, err := w.Write(data)
	t.Log(n, err)
	if err := w.Flush(); err != nil {
		t.Fatal(err)
	}
}

package hap

import (
	"bytes"
	"io"
	"net"
	"testing"
	"time"

	"github.com/brutella/hc/crypto"
)

func huntPair(t *testing.T) (*Connection, *Connection) {
	var key [32]byte
	for i := range key {
		key[i] = byte(i + 1)
	}
	a, b := net.Pipe()
	ctxA := NewContextForSecuredDevice(nil)
	ctxB := NewContextForSecuredDevice(nil)
	ca := NewConnection(a, ctxA)
	cb := NewConnection(b, ctxB)
	srv, err := crypto.NewSecureSessionFromSharedKey(key)
	if err != nil {
		t.Fatal(err)
	}
	cli, err := crypto.NewSecureClientSessionFromSharedKey(key)
	if err != nil {
		t.Fatal(err)
	}
	ctxA.GetSessionForConnection(a).SetCryptographer(srv)
	ctxB.GetSessionForConnection(b).SetCryptographer(cli)
	// SetCryptographer stores the "next" cryptographer, activated by Decrypter()
	ctxA.GetSessionForConnection(a).Decrypter()
	ctxB.GetSessionForConnection(b).Decrypter()
	return ca, cb
}

func huntConnRoundTrip(t *testing.T, l int) {
	ca, cb := huntPair(t)
	defer ca.Close()
	defer cb.Close()
	data := bytes.Repeat([]byte{0x42}, l)
	go ca.Write(data)

	ch := make(chan []byte, 1)
	go func() {
		got := make([]byte, l)
		_, err := io.ReadFull(cb, got)
		if err != nil {
			ch <- nil
			return
		}
		ch <- got
	}()
	select {
	case got := <-ch:
		if !bytes.Equal(got, data) {
			t.Fatalf("len %d: differs", l)
		}
	case <-time.After(2 * time.Second):
		t.Fatalf("len %d: written into one hap.Connection, never readable from the other", l)
	}
}

func TestHuntConn1000(t *testing.T) { huntConnRoundTrip(t, 1000) }
func TestHuntConn1024(t *testing.T) { huntConnRoundTrip(t, 1024) }
func TestHuntConn3072(t *testing.T) { huntConnRoundTrip(t, 3072) }
func TestHuntConn3000(t *testing.T) { huntConnRoundTrip(t, 3000) }

// stream integrity through hap.Connection with different read buffer sizes
func TestHuntConnStreamBufSizes(t *testing.T) {
	for _, bs := range []int{1, 7, 100, 1023, 1024, 1025, 4096, 10000} {
		ca, cb := huntPair(t)
		var want bytes.Buffer
		sizes := []int{1, 3, 1023, 1025, 2047, 2049, 3000, 5000, 17, 4097}
		var msgs [][]byte
		for i, l := range sizes {
			m := bytes.Repeat([]byte{byte(i + 1)}, l)
			msgs = append(msgs, m)
			want.Write(m)
		}
		go func() {
			for _, m := range msgs {
				ca.Write(m)
			}
		}()
		got := make([]byte, 0, want.Len())
		done := make(chan error, 1)
		go func() {
			buf := make([]byte, bs)
			for len(got) < want.Len() {
				n, err := cb.Read(buf)
				got = append(got, buf[:n]...)
				if err != nil {
					done <- err
					return
				}
			}
			done <- nil
		}()
		select {
		case err := <-done:
			if err != nil {
				t.Fatalf("bs %d: %v", bs, err)
			}
			if !bytes.Equal(got, want.Bytes()) {
				t.Fatalf("bs %d: stream differs", bs)
			}
		case <-time.After(5 * time.Second):
			t.Fatalf("bs %d: stuck after %d of %d bytes", bs, len(got), want.Len())
		}
		ca.Close()
		cb.Close()
	}
}

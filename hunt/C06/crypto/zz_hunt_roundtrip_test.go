package crypto

import (
	"bytes"
	"crypto/hmac"
	"crypto/sha512"
	"encoding/binary"
	"io"
	"io/ioutil"
	"math/rand"
	"testing"

	ref "golang.org/x/crypto/chacha20poly1305"
)

// independent HKDF-SHA512 (RFC 5869), 32 bytes out
func refHKDF(secret, salt, info []byte) []byte {
	ext := hmac.New(sha512.New, salt)
	ext.Write(secret)
	prk := ext.Sum(nil)
	exp := hmac.New(sha512.New, prk)
	exp.Write(info)
	exp.Write([]byte{1})
	return exp.Sum(nil)[:32]
}

type refEnd struct {
	key []byte
	ctr uint64
}

func (e *refEnd) frame(t *testing.T, payload []byte) []byte {
	var out []byte
	for len(payload) > 0 {
		n := len(payload)
		if n > 1024 {
			n = 1024
		}
		aead, err := ref.New(e.key)
		if err != nil {
			t.Fatal(err)
		}
		var nonce [12]byte
		binary.LittleEndian.PutUint64(nonce[4:], e.ctr)
		e.ctr++
		l := []byte{byte(n), byte(n >> 8)}
		out = append(out, l...)
		out = aead.Seal(out, nonce[:], payload[:n], l)
		payload = payload[n:]
	}
	return out
}

// chunking readers
type oneByte struct{ r io.Reader }

func (o oneByte) Read(p []byte) (int, error) {
	if len(p) == 0 {
		return 0, nil
	}
	return o.r.Read(p[:1])
}

type halves struct{ r io.Reader }

func (o halves) Read(p []byte) (int, error) {
	if len(p) > 1 {
		p = p[:(len(p)+1)/2]
	}
	return o.r.Read(p)
}

// delivers data together with EOF on the last read
type dataEOF struct {
	b []byte
}

func (d *dataEOF) Read(p []byte) (int, error) {
	if len(d.b) == 0 {
		return 0, io.EOF
	}
	n := copy(p, d.b)
	d.b = d.b[n:]
	if len(d.b) == 0 {
		return n, io.EOF
	}
	return n, nil
}

// zero-length reads in between
type zeroes struct {
	r io.Reader
	i int
}

func (z *zeroes) Read(p []byte) (int, error) {
	z.i++
	if z.i%2 == 1 {
		return 0, nil
	}
	if len(p) > 7 {
		p = p[:7]
	}
	return z.r.Read(p)
}

// random sized chunks
type randChunks struct {
	r   io.Reader
	rnd *rand.Rand
}

func (z *randChunks) Read(p []byte) (int, error) {
	if len(p) > 1 {
		p = p[:1+z.rnd.Intn(len(p))]
	}
	return z.r.Read(p)
}

func readers(data []byte, rnd *rand.Rand) map[string]io.Reader {
	cp := func() []byte { return append([]byte(nil), data...) }
	return map[string]io.Reader{
		"full":    bytes.NewReader(cp()),
		"buffer":  bytes.NewBuffer(cp()),
		"onebyte": oneByte{bytes.NewReader(cp())},
		"halves":  halves{bytes.NewReader(cp())},
		"dataEOF": &dataEOF{cp()},
		"zeroes":  &zeroes{r: bytes.NewReader(cp())},
		"rand":    &randChunks{bytes.NewReader(cp()), rnd},
		"iotest":  io.MultiReader(bytes.NewReader(cp()[:len(data)/2]), bytes.NewReader(cp()[len(data)/2:])),
	}
}

func TestHuntRoundTripAllLengths(t *testing.T) {
	rnd := rand.New(rand.NewSource(1))
	var key [32]byte
	rnd.Read(key[:])

	for _, name := range []string{"full", "buffer", "onebyte", "halves", "dataEOF", "zeroes", "rand", "iotest"} {
		server, _ := NewSecureSessionFromSharedKey(key)
		client, _ := NewSecureClientSessionFromSharedKey(key)
		refSrv := &refEnd{key: refHKDF(key[:], []byte("Control-Salt"), []byte("Control-Read-Encryption-Key"))}
		refCli := &refEnd{key: refHKDF(key[:], []byte("Control-Salt"), []byte("Control-Write-Encryption-Key"))}
		lengths := []int{}
		for l := 0; l <= 4097; l++ {
			lengths = append(lengths, l)
		}
		lengths = append(lengths, 5000, 8192, 8193, 10240, 65535, 65536, 65537, 100000, 1<<20)
		if name == "onebyte" || name == "zeroes" {
			lengths = lengths[:4098]
		}
		fails := 0
		for _, l := range lengths {
			data := make([]byte, l)
			rnd.Read(data)
			// server -> client
			enc, err := server.Encrypt(readers(data, rnd)[name])
			if err != nil {
				t.Fatalf("%s len %d: encrypt %v", name, l, err)
			}
			wire, _ := ioutil.ReadAll(enc)
			want := refSrv.frame(t, data)
			if !bytes.Equal(wire, want) {
				t.Errorf("%s len %d: s->c wire differs from reference (got %d bytes want %d)", name, l, len(wire), len(want))
				fails++
			}
			dec, err := client.Decrypt(readers(wire, rnd)[name])
			if err != nil {
				t.Errorf("%s len %d: decrypt %v", name, l, err)
				fails++
			} else {
				got, _ := ioutil.ReadAll(dec)
				if !bytes.Equal(got, data) {
					t.Errorf("%s len %d: s->c round trip differs (got %d bytes)", name, l, len(got))
					fails++
				}
			}
			// client -> server
			enc, err = client.Encrypt(readers(data, rnd)[name])
			if err != nil {
				t.Fatalf("%s len %d: encrypt %v", name, l, err)
			}
			wire, _ = ioutil.ReadAll(enc)
			want = refCli.frame(t, data)
			if !bytes.Equal(wire, want) {
				t.Errorf("%s len %d: c->s wire differs from reference", name, l)
				fails++
			}
			dec, err = server.Decrypt(readers(wire, rnd)[name])
			if err != nil {
				t.Errorf("%s len %d: decrypt %v", name, l, err)
				fails++
			} else {
				got, _ := ioutil.ReadAll(dec)
				if !bytes.Equal(got, data) {
					t.Errorf("%s len %d: c->s round trip differs (got %d bytes)", name, l, len(got))
					fails++
				}
			}
			if fails > 10 {
				t.Fatal("too many failures")
			}
		}
	}
}

// The wire is a byte stream: the frames of several messages follow each other on
// one connection. Decrypting the concatenation must give the concatenation.
func TestHuntStreamConcatenation(t *testing.T) {
	rnd := rand.New(rand.NewSource(2))
	var key [32]byte
	rnd.Read(key[:])
	for trial := 0; trial < 200; trial++ {
		server, _ := NewSecureSessionFromSharedKey(key)
		client, _ := NewSecureClientSessionFromSharedKey(key)
		var wire, plain bytes.Buffer
		nmsg := 1 + rnd.Intn(6)
		for i := 0; i < nmsg; i++ {
			var l int
			switch rnd.Intn(4) {
			case 0:
				l = 1024 * rnd.Intn(4)
			case 1:
				l = rnd.Intn(10)
			default:
				l = rnd.Intn(3000)
			}
			data := make([]byte, l)
			rnd.Read(data)
			plain.Write(data)
			enc, err := server.Encrypt(bytes.NewReader(data))
			if err != nil {
				t.Fatal(err)
			}
			io.Copy(&wire, enc)
		}
		var got bytes.Buffer
		for wire.Len() > 0 {
			dec, err := client.Decrypt(&wire)
			if err != nil {
				t.Fatalf("trial %d: %v", trial, err)
			}
			io.Copy(&got, dec)
		}
		if !bytes.Equal(got.Bytes(), plain.Bytes()) {
			t.Fatalf("trial %d: stream differs: got %d want %d", trial, got.Len(), plain.Len())
		}
	}
}

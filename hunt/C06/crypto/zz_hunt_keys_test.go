package crypto

import (
	"bytes"
	"encoding/binary"
	"io"
	"io/ioutil"
	"math/rand"
	"testing"

	ref "golang.org/x/crypto/chacha20poly1305"
)

func TestHuntKeysAndForeignSplits(t *testing.T) {
	rnd := rand.New(rand.NewSource(3))
	keys := [][32]byte{{}, {}, {}}
	for i := range keys[1] {
		keys[1][i] = 0xff
	}
	rnd.Read(keys[2][:])
	for _, key := range keys {
		server, _ := NewSecureSessionFromSharedKey(key)
		client, _ := NewSecureClientSessionFromSharedKey(key)
		refSrv := &refEnd{key: refHKDF(key[:], []byte("Control-Salt"), []byte("Control-Read-Encryption-Key"))}
		for _, l := range []int{0, 1, 1023, 1024, 1025, 2048, 3000, 4096, 4097} {
			data := make([]byte, l)
			rnd.Read(data)
			enc, _ := server.Encrypt(bytes.NewReader(data))
			wire, _ := ioutil.ReadAll(enc)
			if !bytes.Equal(wire, refSrv.frame(t, data)) {
				t.Fatalf("len %d wire differs", l)
			}
			dec, err := client.Decrypt(bytes.NewReader(wire))
			if err != nil {
				t.Fatal(err)
			}
			got, _ := ioutil.ReadAll(dec)
			if !bytes.Equal(got, data) {
				t.Fatalf("len %d differs", l)
			}
		}

		// a reference peer (controller) that splits a message into frames of arbitrary sizes <= 1024
		cliKey := refHKDF(key[:], []byte("Control-Salt"), []byte("Control-Write-Encryption-Key"))
		var ctr uint64
		var wire, plain bytes.Buffer
		for i := 0; i < 50; i++ {
			n := 1 + rnd.Intn(1024)
			if i%7 == 0 {
				n = 1024
			}
			p := make([]byte, n)
			rnd.Read(p)
			plain.Write(p)
			aead, _ := ref.New(cliKey)
			var nonce [12]byte
			binary.LittleEndian.PutUint64(nonce[4:], ctr)
			ctr++
			l := []byte{byte(n), byte(n >> 8)}
			wire.Write(l)
			wire.Write(aead.Seal(nil, nonce[:], p, l))
		}
		var got bytes.Buffer
		for wire.Len() > 0 {
			dec, err := server.Decrypt(&wire)
			if err != nil {
				t.Fatal(err)
			}
			io.Copy(&got, dec)
		}
		if !bytes.Equal(got.Bytes(), plain.Bytes()) {
			t.Fatal("foreign split stream differs")
		}
	}
}

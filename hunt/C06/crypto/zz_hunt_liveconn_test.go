package crypto

import (
	"bufio"
	"bytes"
	"io"
	"io/ioutil"
	"net"
	"testing"
	"time"
)

// The two ends of a secure session are joined by a connection that stays open
// (this is how hap.Connection uses Decrypt: Decrypt(bufio.Reader over net.Conn)).
// A payload must come out at the other end whatever its length.
func huntLiveRoundTrip(t *testing.T, l int) {
	var key [32]byte
	for i := range key {
		key[i] = byte(i)
	}
	server, _ := NewSecureSessionFromSharedKey(key)
	client, _ := NewSecureClientSessionFromSharedKey(key)

	a, b := net.Pipe()
	defer a.Close()
	defer b.Close()

	data := bytes.Repeat([]byte{0x5a}, l)
	enc, err := server.Encrypt(bytes.NewReader(data))
	if err != nil {
		t.Fatal(err)
	}
	wire, _ := ioutil.ReadAll(enc)
	go a.Write(wire) // connection is NOT closed afterwards

	type res struct {
		b   []byte
		err error
	}
	ch := make(chan res, 1)
	br := bufio.NewReader(b) // exactly what hap.Connection.DecryptedRead hands to Decrypt
	go func() {
		dec, err := client.Decrypt(br)
		if err != nil {
			ch <- res{nil, err}
			return
		}
		got, _ := ioutil.ReadAll(dec)
		ch <- res{got, nil}
	}()
	select {
	case r := <-ch:
		if r.err != nil {
			t.Fatalf("len %d: %v", l, r.err)
		}
		if !bytes.Equal(r.b, data) {
			t.Fatalf("len %d: got %d bytes", l, len(r.b))
		}
	case <-time.After(2 * time.Second):
		t.Fatalf("len %d: payload was written completely (%d wire bytes) but never came out of Decrypt at the other end", l, len(wire))
	}
}

func TestHuntLive1023(t *testing.T) { huntLiveRoundTrip(t, 1023) }
func TestHuntLive1025(t *testing.T) { huntLiveRoundTrip(t, 1025) }
func TestHuntLive1024(t *testing.T) { huntLiveRoundTrip(t, 1024) }
func TestHuntLive2048(t *testing.T) { huntLiveRoundTrip(t, 2048) }
func TestHuntLive4096(t *testing.T) { huntLiveRoundTrip(t, 4096) }

// Same, but the reader has a read deadline, and the caller does what
// hap.Connection.DecryptedRead does: a timeout error is ignored and Decrypt is
// called again later. The 1024-byte message is lost for good.
func TestHuntLiveTimeoutLosesFullFrameMessage(t *testing.T) {
	var key [32]byte
	for i := range key {
		key[i] = byte(i)
	}
	server, _ := NewSecureSessionFromSharedKey(key)
	client, _ := NewSecureClientSessionFromSharedKey(key)

	a, b := net.Pipe()
	defer a.Close()
	defer b.Close()

	msg1 := bytes.Repeat([]byte{0x11}, 1024)
	msg2 := []byte("second message")

	send := func(m []byte) {
		enc, err := server.Encrypt(bytes.NewReader(m))
		if err != nil {
			t.Fatal(err)
		}
		wire, _ := ioutil.ReadAll(enc)
		go a.Write(wire)
	}

	var got bytes.Buffer
	br := bufio.NewReader(b) // exactly what hap.Connection.DecryptedRead hands to Decrypt
	send(msg1)
	b.SetReadDeadline(time.Now().Add(300 * time.Millisecond))
	dec, err := client.Decrypt(br)
	if err != nil {
		if ne, ok := err.(net.Error); !ok || !ne.Timeout() {
			t.Fatalf("unexpected error %v", err)
		}
		t.Logf("first Decrypt: %v (ignored, as hap.Connection does)", err)
	} else {
		io.Copy(&got, dec)
	}
	b.SetReadDeadline(time.Time{})

	send(msg2)
	b.SetReadDeadline(time.Now().Add(300 * time.Millisecond))
	dec, err = client.Decrypt(br)
	if err != nil {
		t.Logf("second Decrypt: %v", err)
	} else {
		io.Copy(&got, dec)
	}

	want := append(append([]byte{}, msg1...), msg2...)
	if !bytes.Equal(got.Bytes(), want) {
		t.Fatalf("wrote %d+%d bytes into the session, %d came out at the other end: %q...", len(msg1), len(msg2), got.Len(), trunc(got.Bytes()))
	}
}

func trunc(b []byte) []byte {
	if len(b) > 20 {
		return b[:20]
	}
	return b
}

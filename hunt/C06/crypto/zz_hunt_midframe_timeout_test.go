package crypto

import (
	"bufio"
	"bytes"
	"io"
	"io/ioutil"
	"net"
	"testing"
	"time"
)

// RELATED / borderline for C06: a read timeout that hits in the middle of a frame
// (hap.Connection.DecryptedRead ignores timeouts and calls Decrypt again) throws away
// the part of the frame already consumed; the stream is out of step afterwards.
func TestHuntMidFrameTimeoutDesync(t *testing.T) {
	var key [32]byte
	server, _ := NewSecureSessionFromSharedKey(key)
	client, _ := NewSecureClientSessionFromSharedKey(key)
	a, b := net.Pipe()
	defer a.Close()
	defer b.Close()

	msg := bytes.Repeat([]byte{0x33}, 500)
	enc, _ := server.Encrypt(bytes.NewReader(msg))
	wire, _ := ioutil.ReadAll(enc)

	br := bufio.NewReader(b)
	go a.Write(wire[:100])
	b.SetReadDeadline(time.Now().Add(200 * time.Millisecond))
	_, err := client.Decrypt(br)
	if ne, ok := err.(net.Error); !ok || !ne.Timeout() {
		t.Fatalf("expected timeout, got %v", err)
	}
	b.SetReadDeadline(time.Time{})
	go a.Write(wire[100:])
	b.SetReadDeadline(time.Now().Add(500 * time.Millisecond))
	dec, err := client.Decrypt(br)
	if err != nil {
		t.Fatalf("after an ignored timeout the message is lost: %v", err)
	}
	var got bytes.Buffer
	io.Copy(&got, dec)
	if !bytes.Equal(got.Bytes(), msg) {
		t.Fatalf("got %d bytes", got.Len())
	}
}

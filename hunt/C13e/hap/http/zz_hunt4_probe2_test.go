package http_test

import (
	"fmt"
	"testing"

	"github.com/brutella/hc/characteristic"
	"github.com/brutella/hc/service"
)

// probe: JSON values of every shape against characteristics of every format
func TestZZHunt4Probe2(t *testing.T) {
	e := h4NewEnv(t)
	svc := service.New("F0000001")
	formats := []string{characteristic.FormatBool, characteristic.FormatUInt8, characteristic.FormatUInt16, characteristic.FormatUInt32, characteristic.FormatUInt64,
		characteristic.FormatInt32, characteristic.FormatFloat, characteristic.FormatString, characteristic.FormatTLV8, characteristic.FormatData}
	var chars []*characteristic.Characteristic
	for i, f := range formats {
		c := characteristic.NewCharacteristic(fmt.Sprintf("F00000%02d", i+2))
		c.Format = f
		c.Perms = characteristic.PermsAll()
		switch f {
		case characteristic.FormatBool:
			c.Value = false
		case characteristic.FormatFloat:
			c.Value = float64(0)
			c.MinValue = float64(0)
			c.MaxValue = float64(100)
			c.StepValue = float64(0.1)
		case characteristic.FormatString, characteristic.FormatTLV8, characteristic.FormatData:
			c.Value = ""
		default:
			c.Value = 0
			c.MinValue = 0
			c.MaxValue = 100
			c.StepValue = 1
		}
		svc.AddCharacteristic(c)
		chars = append(chars, c)
	}
	e.acc.AddService(svc)
	for _, c := range chars {
		t.Logf("format %s iid %d", c.Format, c.ID)
	}
	values := []string{`null`, `true`, `false`, `0`, `1`, `-1`, `-0`, `1.5`, `1e400`, `-1e400`, `1e-400`, `18446744073709551616`, `-9223372036854775809`,
		`9223372036854775808`, `"1"`, `"true"`, `""`, `"abc"`, `"NaN"`, `"Inf"`, `"-Inf"`, `"1e999"`, `"0x10"`, `[]`, `[1]`, `[[[[1]]]]`, `{}`, `{"a":1}`, `{"a":{"b":[1,{"c":null}]}}`,
		`"\u0000"`, `"\ud800"`, `1.0000000000000000000000000000000000001`, `4294967296`, `256`, `65536`, `2147483648`, `-2147483649`, `[null]`, `[true,false]`}
	for _, c := range chars {
		for _, v := range values {
			hc := e.verified()
			body := fmt.Sprintf(`{"characteristics":[{"aid":1,"iid":%d,"value":%s}]}`, c.ID, v)
			resp, err := hc.do("PUT", "/characteristics", "application/hap+json", []byte(body))
			if err != nil {
				t.Errorf("format %s value %s: %v", c.Format, v, err)
				hc.Close()
				continue
			}
			// do it twice (the compare with the current value)
			resp, err = hc.do("PUT", "/characteristics", "application/hap+json", []byte(body))
			if err != nil {
				t.Errorf("format %s value %s (2nd): %v", c.Format, v, err)
				hc.Close()
				continue
			}
			r2, err := hc.do("GET", fmt.Sprintf("/characteristics?id=1.%d", c.ID), "", nil)
			if err != nil {
				t.Errorf("format %s value %s: GET after: %v", c.Format, v, err)
			} else if testing.Verbose() {
				t.Logf("%-7s %-30s -> %d, get %d %s", c.Format, v, resp.Status, r2.Status, r2.Body)
			}
			r3, err := hc.do("GET", "/accessories", "", nil)
			if err != nil || r3.Status != 200 {
				t.Errorf("format %s value %s: GET /accessories after: %v", c.Format, v, err)
			}
			hc.Close()
		}
	}
}

package http_test

import (
	"bytes"
	"testing"

	"github.com/brutella/hc/crypto"
	"github.com/brutella/hc/crypto/chacha20poly1305"
	"github.com/brutella/hc/crypto/curve25519"
	"github.com/brutella/hc/crypto/hkdf"
	"github.com/brutella/hc/hap/pair"
	"github.com/brutella/hc/util"
)

// probe: a second pair-verify on a connection which is verified already
func TestZZHunt4Probe6Reverify(t *testing.T) {
	e := h4NewEnv(t)
	for i := 0; i < 20; i++ {
		hc := e.verified()
		priv := curve25519.GeneratePrivateKey()
		pub := curve25519.PublicKey(priv)
		m1 := util.NewTLV8Container()
		m1.SetByte(pair.TagSequence, 1)
		m1.SetBytes(pair.TagPublicKey, pub[:])
		m2, resp, err := hc.tlv("/pair-verify", m1)
		if err != nil || resp.Status != 200 {
			t.Fatalf("M1 on verified connection: %v %v", err, resp)
		}
		var spub [32]byte
		copy(spub[:], m2.GetBytes(pair.TagPublicKey))
		shared := curve25519.SharedSecret(priv, spub)
		key, _ := hkdf.Sha512(shared[:], []byte("Pair-Verify-Encrypt-Salt"), []byte("Pair-Verify-Encrypt-Info"))
		var material []byte
		material = append(material, pub[:]...)
		material = append(material, e.client.Name()...)
		material = append(material, spub[:]...)
		sig, _ := crypto.ED25519Signature(e.client.PrivateKey(), material)
		inner := util.NewTLV8Container()
		inner.SetString(pair.TagUsername, e.client.Name())
		inner.SetBytes(pair.TagSignature, sig)
		enc, tag, _ := chacha20poly1305.EncryptAndSeal(key[:], []byte("PV-Msg03"), inner.BytesBuffer().Bytes(), nil)
		m3 := util.NewTLV8Container()
		m3.SetByte(pair.TagSequence, 3)
		m3.SetBytes(pair.TagEncryptedData, append(enc, tag[:]...))
		m4, resp, err := hc.tlv("/pair-verify", m3)
		if err != nil {
			t.Errorf("M3 on verified connection (answer read with the old keys): %v", err)
			hc.Close()
			continue
		}
		if resp.Status != 200 || m4.GetByte(pair.TagErrCode) != 0 {
			t.Errorf("M4: %d %x", resp.Status, resp.Body)
		}
		hc.sec, _ = crypto.NewSecureClientSessionFromSharedKey(shared)
		hc.dec = &bytes.Buffer{}
		r, err := hc.do("GET", "/accessories", "", nil)
		if err != nil || r.Status != 200 {
			t.Errorf("GET /accessories with the new keys: %v", err)
		}
		hc.Close()
	}
}

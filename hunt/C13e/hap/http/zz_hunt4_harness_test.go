package http_test

import (
	"bufio"
	"bytes"
	"context"
	"encoding/binary"
	"fmt"
	"io"
	"io/ioutil"
	"net"
	gohttp "net/http"
	"os"
	"sync"
	"testing"
	"time"

	"github.com/brutella/hc/accessory"
	"github.com/brutella/hc/crypto"
	"github.com/brutella/hc/crypto/chacha20poly1305"
	"github.com/brutella/hc/crypto/curve25519"
	"github.com/brutella/hc/crypto/hkdf"
	"github.com/brutella/hc/db"
	"github.com/brutella/hc/event"
	"github.com/brutella/hc/hap"
	haphttp "github.com/brutella/hc/hap/http"
	"github.com/brutella/hc/hap/pair"
	"github.com/brutella/hc/util"
)

// ---- harness: a real accessory server on loopback and a reference controller ----

type h4Env struct {
	t        *testing.T
	dir      string
	database db.Database
	device   hap.SecuredDevice
	ctx      hap.Context
	srv      *haphttp.Server
	cancel   context.CancelFunc
	cont     *accessory.Container
	acc      *accessory.Lightbulb
	client   hap.Device
	addr     string
}

func h4NewEnv(t *testing.T) *h4Env {
	dir, err := ioutil.TempDir("", "h4c13")
	if err != nil {
		t.Fatal(err)
	}
	storage, err := util.NewFileStorage(dir)
	if err != nil {
		t.Fatal(err)
	}
	database := db.NewDatabaseWithStorage(storage)
	device, err := hap.NewSecuredDevice("AA:BB:CC:DD:EE:FF", "001-02-003", database)
	if err != nil {
		t.Fatal(err)
	}
	hctx := hap.NewContextForSecuredDevice(device)
	cont := accessory.NewContainer()
	acc := accessory.NewLightbulb(accessory.Info{Name: "Lamp", SerialNumber: "1", Manufacturer: "m", Model: "x"})
	if err := cont.AddAccessory(acc.Accessory); err != nil {
		t.Fatal(err)
	}

	cdb, _ := db.NewTempDatabase()
	client, err := hap.NewDevice("controller-1", cdb)
	if err != nil {
		t.Fatal(err)
	}
	if err := database.SaveEntity(db.NewEntity(client.Name(), client.PublicKey(), nil)); err != nil {
		t.Fatal(err)
	}

	srv := haphttp.NewServer(haphttp.Config{
		Port:      "127.0.0.1:0",
		Context:   hctx,
		Database:  database,
		Container: cont,
		Device:    device,
		Mutex:     &sync.Mutex{},
		Emitter:   event.NewEmitter(),
	})
	cctx, cancel := context.WithCancel(context.Background())
	go srv.ListenAndServe(cctx)

	e := &h4Env{t: t, dir: dir, database: database, device: device, ctx: hctx, srv: srv, cancel: cancel, cont: cont, acc: acc, client: client,
		addr: "127.0.0.1:" + srv.Port()}
	t.Cleanup(func() {
		cancel()
		os.RemoveAll(dir)
	})
	return e
}

// h4Conn is a controller-side connection, plain at first, encrypted after verify.
type h4Conn struct {
	c   net.Conn
	br  *bufio.Reader // reads plain text responses
	sec crypto.Cryptographer
	dec *bytes.Buffer // decrypted bytes not consumed yet
}

func (e *h4Env) dial() *h4Conn {
	c, err := net.Dial("tcp", e.addr)
	if err != nil {
		e.t.Fatal(err)
	}
	return &h4Conn{c: c, br: bufio.NewReader(c), dec: &bytes.Buffer{}}
}

func (hc *h4Conn) Close() { hc.c.Close() }

// Read implements the decrypted (or plain) byte stream of the connection.
func (hc *h4Conn) Read(p []byte) (int, error) {
	if hc.sec == nil {
		return hc.br.Read(p)
	}
	for hc.dec.Len() == 0 {
		var hdr [2]byte
		if _, err := io.ReadFull(hc.br, hdr[:]); err != nil {
			return 0, err
		}
		n := int(binary.LittleEndian.Uint16(hdr[:]))
		frame := make([]byte, 2+n+16)
		copy(frame, hdr[:])
		if _, err := io.ReadFull(hc.br, frame[2:]); err != nil {
			return 0, err
		}
		r, err := hc.sec.Decrypt(bytes.NewReader(frame))
		if err != nil {
			return 0, fmt.Errorf("client decrypt: %v", err)
		}
		b, _ := ioutil.ReadAll(r)
		hc.dec.Write(b)
	}
	return hc.dec.Read(p)
}

func (hc *h4Conn) send(raw []byte) error {
	if hc.sec != nil {
		r, err := hc.sec.Encrypt(bytes.NewReader(raw))
		if err != nil {
			return err
		}
		raw, _ = ioutil.ReadAll(r)
	}
	_, err := hc.c.Write(raw)
	return err
}

type h4Resp struct {
	Status int
	Header gohttp.Header
	Body   []byte
	Proto  string
}

// readResponse reads one HTTP response (skips EVENT messages and 100 Continue).
func (hc *h4Conn) readResponse(method string, timeout time.Duration) (*h4Resp, error) {
	hc.c.SetReadDeadline(time.Now().Add(timeout))
	defer hc.c.SetReadDeadline(time.Time{})
	var rd *bufio.Reader
	if hc.sec == nil {
		rd = hc.br
	} else {
		rd = bufio.NewReaderSize(hc, 1) // minimal read-ahead: 16 bytes
	}
	for {
		resp, err := gohttp.ReadResponse(rd, &gohttp.Request{Method: method})
		if err != nil {
			return nil, err
		}
		body, err := ioutil.ReadAll(resp.Body)
		if err != nil {
			return nil, fmt.Errorf("body: %v", err)
		}
		if hc.sec != nil && rd.Buffered() > 0 {
			// give back what the reader took too much
			rest, _ := rd.Peek(rd.Buffered())
			nb := append([]byte{}, rest...)
			nb = append(nb, hc.dec.Bytes()...)
			hc.dec = bytes.NewBuffer(nb)
			rd = bufio.NewReaderSize(hc, 1)
		}
		if resp.StatusCode == 100 {
			continue
		}
		return &h4Resp{Status: resp.StatusCode, Header: resp.Header, Body: body, Proto: resp.Proto}, nil
	}
}

func h4Request(method, path, ctype string, body []byte) []byte {
	var b bytes.Buffer
	fmt.Fprintf(&b, "%s %s HTTP/1.1\r\nHost: lamp.local\r\n", method, path)
	if ctype != "" {
		fmt.Fprintf(&b, "Content-Type: %s\r\n", ctype)
	}
	if body != nil || method == "POST" || method == "PUT" {
		fmt.Fprintf(&b, "Content-Length: %d\r\n", len(body))
	}
	b.WriteString("\r\n")
	b.Write(body)
	return b.Bytes()
}

func (hc *h4Conn) do(method, path, ctype string, body []byte) (*h4Resp, error) {
	if err := hc.send(h4Request(method, path, ctype, body)); err != nil {
		return nil, err
	}
	return hc.readResponse(method, 3*time.Second)
}

func (hc *h4Conn) tlv(path string, c util.Container) (util.Container, *h4Resp, error) {
	resp, err := hc.do("POST", path, hap.HTTPContentTypePairingTLV8, c.BytesBuffer().Bytes())
	if err != nil {
		return nil, nil, err
	}
	out, err := util.NewTLV8ContainerFromReader(bytes.NewReader(resp.Body))
	return out, resp, err
}

// verify runs an honest pair-verify on the connection and switches to encryption.
func (e *h4Env) verify(hc *h4Conn) error {
	return e.verifyAs(hc, e.client)
}

func (e *h4Env) verifyAs(hc *h4Conn, client hap.Device) error {
	priv := curve25519.GeneratePrivateKey()
	pub := curve25519.PublicKey(priv)

	m1 := util.NewTLV8Container()
	m1.SetByte(pair.TagSequence, pair.VerifyStepStartRequest.Byte())
	m1.SetBytes(pair.TagPublicKey, pub[:])
	m2, resp, err := hc.tlv("/pair-verify", m1)
	if err != nil {
		return fmt.Errorf("M1: %v", err)
	}
	if resp.Status != 200 {
		return fmt.Errorf("M2 status %d", resp.Status)
	}
	if m2.GetByte(pair.TagErrCode) != 0 || m2.GetByte(pair.TagSequence) != 2 {
		return fmt.Errorf("M2 err=%d seq=%d", m2.GetByte(pair.TagErrCode), m2.GetByte(pair.TagSequence))
	}
	var spub [32]byte
	copy(spub[:], m2.GetBytes(pair.TagPublicKey))
	shared := curve25519.SharedSecret(priv, spub)
	key, _ := hkdf.Sha512(shared[:], []byte("Pair-Verify-Encrypt-Salt"), []byte("Pair-Verify-Encrypt-Info"))

	data := m2.GetBytes(pair.TagEncryptedData)
	if len(data) < 16 {
		return fmt.Errorf("M2 encrypted data short")
	}
	var mac [16]byte
	copy(mac[:], data[len(data)-16:])
	dec, err := chacha20poly1305.DecryptAndVerify(key[:], []byte("PV-Msg02"), data[:len(data)-16], mac, nil)
	if err != nil {
		return fmt.Errorf("M2 decrypt: %v", err)
	}
	sub, _ := util.NewTLV8ContainerFromReader(bytes.NewReader(dec))
	var material []byte
	material = append(material, spub[:]...)
	material = append(material, sub.GetBytes(pair.TagUsername)...)
	material = append(material, pub[:]...)
	if !crypto.ValidateED25519Signature(e.device.PublicKey(), material, sub.GetBytes(pair.TagSignature)) {
		return fmt.Errorf("M2 signature of the accessory is invalid")
	}

	material = nil
	material = append(material, pub[:]...)
	material = append(material, client.Name()...)
	material = append(material, spub[:]...)
	sig, err := crypto.ED25519Signature(client.PrivateKey(), material)
	if err != nil {
		return err
	}
	inner := util.NewTLV8Container()
	inner.SetString(pair.TagUsername, client.Name())
	inner.SetBytes(pair.TagSignature, sig)
	enc, tag, _ := chacha20poly1305.EncryptAndSeal(key[:], []byte("PV-Msg03"), inner.BytesBuffer().Bytes(), nil)
	m3 := util.NewTLV8Container()
	m3.SetByte(pair.TagSequence, pair.VerifyStepFinishRequest.Byte())
	m3.SetBytes(pair.TagEncryptedData, append(enc, tag[:]...))
	sec, err := crypto.NewSecureClientSessionFromSharedKey(shared)
	if err != nil {
		return err
	}
	if err := hc.send(h4Request("POST", "/pair-verify", hap.HTTPContentTypePairingTLV8, m3.BytesBuffer().Bytes())); err != nil {
		return err
	}
	// known and excluded: the M4 response is sometimes sent encrypted already. Tolerate it.
	hc.c.SetReadDeadline(time.Now().Add(3 * time.Second))
	first, err := hc.br.Peek(5)
	hc.c.SetReadDeadline(time.Time{})
	if err != nil {
		return fmt.Errorf("M3: %v", err)
	}
	if string(first) != "HTTP/" {
		hc.sec = sec
	}
	resp, err = hc.readResponse("POST", 3*time.Second)
	if err != nil {
		return fmt.Errorf("M3: %v", err)
	}
	m4, err := util.NewTLV8ContainerFromReader(bytes.NewReader(resp.Body))
	if err != nil {
		return fmt.Errorf("M4: %v", err)
	}
	if resp.Status != 200 {
		return fmt.Errorf("M4 status %d", resp.Status)
	}
	if m4.GetByte(pair.TagErrCode) != 0 || m4.GetByte(pair.TagSequence) != 4 {
		return fmt.Errorf("M4 err=%d seq=%d", m4.GetByte(pair.TagErrCode), m4.GetByte(pair.TagSequence))
	}
	if hc.sec == nil && hc.br.Buffered() > 0 {
		return fmt.Errorf("plain bytes buffered after M4")
	}
	hc.sec = sec
	return nil
}

// honest checks that a correct handshake on a new connection succeeds and that the accessory serves.
func (e *h4Env) honest() error {
	hc := e.dial()
	defer hc.Close()
	if err := e.verify(hc); err != nil {
		return fmt.Errorf("verify: %v", err)
	}
	resp, err := hc.do("GET", "/accessories", "", nil)
	if err != nil {
		return fmt.Errorf("GET /accessories: %v", err)
	}
	if resp.Status != 200 || !bytes.Contains(resp.Body, []byte(`"accessories"`)) {
		return fmt.Errorf("GET /accessories: status %d body %.60q", resp.Status, resp.Body)
	}
	return nil
}

func (e *h4Env) verified() *h4Conn {
	hc := e.dial()
	if err := e.verify(hc); err != nil {
		e.t.Fatalf("honest verify failed: %v", err)
	}
	return hc
}

func TestZZHunt4HarnessSane(t *testing.T) {
	e := h4NewEnv(t)
	for i := 0; i < 3; i++ {
		if err := e.honest(); err != nil {
			t.Fatal(err)
		}
	}
}

package http_test

import (
	"fmt"
	"math/rand"
	"strings"
	"testing"

	"github.com/brutella/hc/crypto/chacha20poly1305"
	"github.com/brutella/hc/crypto/curve25519"
	"github.com/brutella/hc/crypto/hkdf"
	"github.com/brutella/hc/hap/pair"
	"github.com/brutella/hc/util"
)

// probe: random histories on /pair-verify (and /pair-setup mixed in), then an honest verify on the same connection
func TestZZHunt4Probe5VerifyHistories(t *testing.T) {
	e := h4NewEnv(t)
	rnd := rand.New(rand.NewSource(4))
	for it := 0; it < 300; it++ {
		hc := e.dial()
		var hist []string
		var key [32]byte
		haveKey := false
		steps := 1 + rnd.Intn(5)
		dead := false
		for s := 0; s < steps && !dead; s++ {
			var msg []byte
			path := "/pair-verify"
			switch op := rnd.Intn(10); op {
			case 0, 1: // honest M1
				priv := curve25519.GeneratePrivateKey()
				pub := curve25519.PublicKey(priv)
				m1 := util.NewTLV8Container()
				m1.SetByte(pair.TagSequence, 1)
				m1.SetBytes(pair.TagPublicKey, pub[:])
				hist = append(hist, "M1")
				m2, resp, err := hc.tlv(path, m1)
				if err != nil {
					t.Errorf("%v: no response: %v", hist, err)
					dead = true
					continue
				}
				if resp.Status == 200 && len(m2.GetBytes(pair.TagPublicKey)) == 32 {
					var spub [32]byte
					copy(spub[:], m2.GetBytes(pair.TagPublicKey))
					shared := curve25519.SharedSecret(priv, spub)
					key, _ = hkdf.Sha512(shared[:], []byte("Pair-Verify-Encrypt-Salt"), []byte("Pair-Verify-Encrypt-Info"))
					haveKey = true
				}
				continue
			case 2: // M1 with a bad key
				m1 := util.NewTLV8Container()
				m1.SetByte(pair.TagSequence, 1)
				m1.SetBytes(pair.TagPublicKey, make([]byte, rnd.Intn(40)))
				msg = m1.BytesBuffer().Bytes()
				hist = append(hist, "M1badkey")
			case 3: // M3 sealed properly, unknown user / bad signature / broken inner tlv
				inner := util.NewTLV8Container()
				kind := rnd.Intn(3)
				switch kind {
				case 0:
					inner.SetString(pair.TagUsername, "nobody")
					inner.SetBytes(pair.TagSignature, make([]byte, 64))
				case 1:
					inner.SetString(pair.TagUsername, e.client.Name())
					inner.SetBytes(pair.TagSignature, make([]byte, 64))
				}
				ib := inner.BytesBuffer().Bytes()
				if kind == 2 {
					ib = []byte{1, 200, 1, 2}
				}
				enc, tag, _ := chacha20poly1305.EncryptAndSeal(key[:], []byte("PV-Msg03"), ib, nil)
				m3 := util.NewTLV8Container()
				m3.SetByte(pair.TagSequence, 3)
				m3.SetBytes(pair.TagEncryptedData, append(enc, tag[:]...))
				msg = m3.BytesBuffer().Bytes()
				hist = append(hist, fmt.Sprintf("M3sealed%d(key=%v)", kind, haveKey))
			case 4: // M3 short data
				m3 := util.NewTLV8Container()
				m3.SetByte(pair.TagSequence, 3)
				m3.SetBytes(pair.TagEncryptedData, make([]byte, rnd.Intn(20)))
				msg = m3.BytesBuffer().Bytes()
				hist = append(hist, "M3short")
			case 5:
				msg = []byte(strings.Repeat("\x06\x01", rnd.Intn(5)))
				hist = append(hist, "trunc")
			case 6:
				m := util.NewTLV8Container()
				m.SetByte(pair.TagSequence, byte(rnd.Intn(8)))
				m.SetByte(pair.TagPairingMethod, byte(rnd.Intn(3)))
				msg = m.BytesBuffer().Bytes()
				hist = append(hist, fmt.Sprintf("seq%x", msg))
			case 7: // pair-setup start on the same connection
				path = "/pair-setup"
				m := util.NewTLV8Container()
				m.SetByte(pair.TagSequence, byte(1+2*rnd.Intn(3)))
				msg = m.BytesBuffer().Bytes()
				hist = append(hist, fmt.Sprintf("setup%x", msg))
			case 8:
				path = "/pairings"
				m := util.NewTLV8Container()
				m.SetByte(pair.TagSequence, 1)
				m.SetByte(pair.TagPairingMethod, 4)
				m.SetString(pair.TagUsername, e.client.Name())
				msg = m.BytesBuffer().Bytes()
				hist = append(hist, "pairings-delete-unverified")
			case 9:
				b := make([]byte, rnd.Intn(64))
				rnd.Read(b)
				msg = b
				hist = append(hist, fmt.Sprintf("rand%x", b))
			}
			if _, err := rawTLV(hc, path, msg); err != nil {
				t.Errorf("%v: no well-formed response: %v", hist, err)
				dead = true
			}
		}
		if !dead {
			err := e.verify(hc)
			if err != nil && strings.HasPrefix(err.Error(), "M2 status") {
				err = e.verify(hc) // one rejected start request is allowed
			}
			if err != nil {
				t.Errorf("%v: honest verify on the same connection: %v", hist, err)
			} else if r, err := hc.do("GET", "/accessories", "", nil); err != nil || r.Status != 200 {
				t.Errorf("%v: GET /accessories on the same connection: %v", hist, err)
			}
		}
		hc.Close()
		if err := e.honest(); err != nil {
			t.Errorf("%v: honest verify on a new connection: %v", hist, err)
		}
	}
}

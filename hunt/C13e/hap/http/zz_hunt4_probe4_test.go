package http_test

import (
	"fmt"
	"testing"

	"github.com/brutella/hc/db"
	"github.com/brutella/hc/hap"
	"github.com/brutella/hc/hap/pair"
	"github.com/brutella/hc/util"
)

func rawTLV(hc *h4Conn, path string, b []byte) (*h4Resp, error) {
	return hc.do("POST", path, hap.HTTPContentTypePairingTLV8, b)
}

// probe: mutated message at each step of pair-setup, outer and inner; then recovery on the same and on a new connection
func TestZZHunt4Probe4Setup(t *testing.T) {
	e := h4NewEnv(t)
	n := 0
	for step := 1; step <= 5; step += 2 {
		for _, inner := range []bool{false, true} {
			if inner && step != 5 {
				continue
			}
			for _, m := range h4Muts() {
				n++
				name := fmt.Sprintf("step%d inner=%v %s", step, inner, m.name)
				hc := e.dial()
				var msg []byte
				func() {
					m1 := util.NewTLV8Container()
					m1.SetByte(pair.TagPairingMethod, 0)
					m1.SetByte(pair.TagSequence, 1)
					if step == 1 {
						msg = m.f(m1.BytesBuffer().Bytes())
						return
					}
					m2, _, err := e.setupM1(hc)
					if err != nil {
						t.Fatalf("%s: honest M1: %v", name, err)
					}
					s, m3, err := e.setupM3msg(m2)
					if err != nil {
						t.Skipf("known SRP padding flake: %v", err)
					}
					if step == 3 {
						msg = m.f(m3.BytesBuffer().Bytes())
						return
					}
					m4, _, err := hc.tlv("/pair-setup", m3)
					if err != nil || m4.GetByte(pair.TagErrCode) != 0 {
						t.Fatalf("%s: honest M3: %v", name, err)
					}
					cdb, _ := db.NewTempDatabase()
					client, _ := hap.NewDevice(fmt.Sprintf("mut-%d", n), cdb)
					if inner {
						msg = e.setupM5msg(s, client, client.Name(), m.f).BytesBuffer().Bytes()
					} else {
						msg = m.f(e.setupM5msg(s, client, client.Name(), nil).BytesBuffer().Bytes())
					}
				}()
				resp, err := rawTLV(hc, "/pair-setup", msg)
				if err != nil {
					t.Errorf("%s: no well-formed response: %v", name, err)
				} else if testing.Verbose() {
					t.Logf("%-40s -> %d %x", name, resp.Status, resp.Body)
				}
				if err == nil {
					if err := e.honestSetup(hc, fmt.Sprintf("same-%d", n), true); err != nil {
						t.Errorf("%s: honest pair-setup on the same connection: %v", name, err)
					}
				}
				hc.Close()
				nc := e.dial()
				if err := e.honestSetup(nc, fmt.Sprintf("new-%d", n), false); err != nil {
					t.Errorf("%s: honest pair-setup on a new connection: %v", name, err)
				}
				nc.Close()
				if err := e.honest(); err != nil {
					t.Errorf("%s: honest verify: %v", name, err)
				}
			}
		}
	}
}

package http_test

import (
	"bufio"
	"bytes"
	"fmt"
	"net"
	"os"
	"strconv"
	"syscall"
	"testing"
	"time"

	"github.com/brutella/hc/accessory"
)

// C13, clause "No bytes a remote peer can send ... leave the accessory unable to serve ... afterwards a
// correct handshake on a new connection still succeeds [and the accessory serves]".
//
// History (inside the quantifier: a protocol state reachable by a prefix of a correct exchange, a
// connection that stops in the middle of it): a paired controller verifies, sends a correct
// GET /accessories and then does not read the response (a sleeping phone, a dead Wi-Fi link: the TCP
// window stays closed, nothing is reset). The handler of /accessories holds the one mutex of the
// server (hap/http/accessories.go:15-19) across the network write. As soon as the attribute database is
// larger than the socket buffers (a bridge), the write blocks inside the lock and every other
// controller's GET /accessories - the first request after each pair-verify - hangs for good.
//
// BORDERLINE: on Linux loopback the server's send buffer grows to tcp_wmem max (4 MB here), so the test needs
// a database of ~2.4 MB (H4N=4000 accessories, the default below) to make the write block; with 1500
// accessories (0.9 MB) it still fits. On a target with small socket buffers a 150-accessory bridge (~90 KB)
// is enough. Same missing write deadline as the known "a peer that stops reading blocks the fan-out", but a
// different victim: here the global mutex is held across the write. H4N=<n> overrides the number of accessories.
var h4N = func() int { n, _ := strconv.Atoi(os.Getenv("H4N")); if n == 0 { n = 4000 }; return n }()

func TestZZHunt4AccessoriesStalledReaderBlocksEveryone(t *testing.T) {
	e := h4NewEnv(t)
	// a bridge with h4N bridged accessories
	for i := 0; i < h4N; i++ {
		a := accessory.NewLightbulb(accessory.Info{Name: fmt.Sprintf("Lamp %d", i), SerialNumber: "1", Manufacturer: "m", Model: "x"})
		if err := e.cont.AddAccessory(a.Accessory); err != nil {
			t.Fatal(err)
		}
	}

	// reference: the database is served
	if err := e.honest(); err != nil {
		t.Fatal(err)
	}

	// controller A: small receive window, asks for the database, reads nothing
	d := net.Dialer{Control: func(network, address string, c syscall.RawConn) error {
		return c.Control(func(fd uintptr) { syscall.SetsockoptInt(int(fd), syscall.SOL_SOCKET, syscall.SO_RCVBUF, 2048) })
	}}
	raw, err := d.Dial("tcp", e.addr)
	if err != nil {
		t.Fatal(err)
	}
	a := &h4Conn{c: raw, br: bufio.NewReader(raw), dec: &bytes.Buffer{}}
	defer a.Close()
	if err := e.verify(a); err != nil {
		t.Fatal(err)
	}
	if err := a.send(h4Request("GET", "/accessories", "", nil)); err != nil {
		t.Fatal(err)
	}
	time.Sleep(300 * time.Millisecond)

	// controller B: an honest handshake and the first request of every controller
	done := make(chan error, 1)
	go func() { done <- e.honest() }()
	select {
	case err := <-done:
		if err != nil {
			t.Fatalf("controller B: %v", err)
		}
	case <-time.After(5 * time.Second):
		t.Fatalf("controller B gets no answer to GET /accessories within 5s while controller A does not read its response")
	}
}

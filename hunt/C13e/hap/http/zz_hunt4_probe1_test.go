package http_test

import (
	"fmt"
	"strings"
	"testing"
	"time"
)

// probe: raw requests on a verified connection; log the outcome
func TestZZHunt4Probe1(t *testing.T) {
	e := h4NewEnv(t)
	type probe struct {
		name   string
		method string
		raw    string
	}
	long := strings.Repeat("1.9,", 5000) + "1.9"
	probes := []probe{
		{"get-acc", "GET", "GET /accessories HTTP/1.1\r\nHost: x\r\n\r\n"},
		{"head-acc", "HEAD", "HEAD /accessories HTTP/1.1\r\nHost: x\r\n\r\n"},
		{"options-acc", "OPTIONS", "OPTIONS /accessories HTTP/1.1\r\nHost: x\r\n\r\n"},
		{"options-star", "OPTIONS", "OPTIONS * HTTP/1.1\r\nHost: x\r\n\r\n"},
		{"post-acc", "POST", "POST /accessories HTTP/1.1\r\nHost: x\r\nContent-Length: 0\r\n\r\n"},
		{"delete-chars", "DELETE", "DELETE /characteristics HTTP/1.1\r\nHost: x\r\n\r\n"},
		{"get-chars-noid", "GET", "GET /characteristics HTTP/1.1\r\nHost: x\r\n\r\n"},
		{"get-chars-trailing", "GET", "GET /characteristics?id=1.9, HTTP/1.1\r\nHost: x\r\n\r\n"},
		{"get-chars-dup", "GET", "GET /characteristics?id=1.9,1.9 HTTP/1.1\r\nHost: x\r\n\r\n"},
		{"get-chars-sign", "GET", "GET /characteristics?id=+1.+10 HTTP/1.1\r\nHost: x\r\n\r\n"},
		{"get-chars-neg", "GET", "GET /characteristics?id=-1.-10 HTTP/1.1\r\nHost: x\r\n\r\n"},
		{"get-chars-overflow", "GET", "GET /characteristics?id=18446744073709551617.10 HTTP/1.1\r\nHost: x\r\n\r\n"},
		{"get-chars-lead0", "GET", "GET /characteristics?id=01.010 HTTP/1.1\r\nHost: x\r\n\r\n"},
		{"get-chars-hex", "GET", "GET /characteristics?id=0x1.0xa HTTP/1.1\r\nHost: x\r\n\r\n"},
		{"get-chars-float", "GET", "GET /characteristics?id=1e0.1e1 HTTP/1.1\r\nHost: x\r\n\r\n"},
		{"get-chars-3parts", "GET", "GET /characteristics?id=1.9.3 HTTP/1.1\r\nHost: x\r\n\r\n"},
		{"get-chars-twice", "GET", "GET /characteristics?id=1.9&id=1.9 HTTP/1.1\r\nHost: x\r\n\r\n"},
		{"get-chars-badesc", "GET", "GET /characteristics?id=%zz HTTP/1.1\r\nHost: x\r\n\r\n"},
		{"get-chars-semicolon", "GET", "GET /characteristics?id=1.9;x=1 HTTP/1.1\r\nHost: x\r\n\r\n"},
		{"get-chars-long", "GET", "GET /characteristics?id=" + long + " HTTP/1.1\r\nHost: x\r\n\r\n"},
		{"get-chars-meta", "GET", "GET /characteristics?id=1.9&meta=1&perms=1&type=1&ev=1 HTTP/1.1\r\nHost: x\r\n\r\n"},
		{"get-chars-body-form", "GET", "GET /characteristics HTTP/1.1\r\nHost: x\r\nContent-Type: application/x-www-form-urlencoded\r\nContent-Length: 7\r\n\r\nid=1.9"},
		{"post-chars-form", "POST", "POST /characteristics HTTP/1.1\r\nHost: x\r\nContent-Type: application/x-www-form-urlencoded\r\nContent-Length: 7\r\n\r\nid=1.9"},
		{"put-chunked", "PUT", "PUT /characteristics HTTP/1.1\r\nHost: x\r\nTransfer-Encoding: chunked\r\n\r\n" + chunk(`{"characteristic`) + chunk(`s":[{"aid":1,"iid":9,"value":true}]}`) + "0\r\n\r\n"},
		{"put-chunked-trailer", "PUT", "PUT /characteristics HTTP/1.1\r\nHost: x\r\nTransfer-Encoding: chunked\r\nTrailer: X-T\r\n\r\n" + chunk(`{"characteristics":[{"aid":1,"iid":9,"value":false}]}`) + "0\r\nX-T: 1\r\n\r\n"},
		{"put-chunked-bad", "PUT", "PUT /characteristics HTTP/1.1\r\nHost: x\r\nTransfer-Encoding: chunked\r\n\r\nzz\r\n{}\r\n0\r\n\r\n"},
		{"put-expect", "PUT", withLen("PUT /characteristics HTTP/1.1\r\nHost: x\r\nExpect: 100-continue\r\n", `{"characteristics":[{"aid":1,"iid":9,"value":false}]}`)},
		{"put-expect-bad", "PUT", withLen("PUT /characteristics HTTP/1.1\r\nHost: x\r\nExpect: 200-ok\r\n", `{"characteristics":[{"aid":1,"iid":9,"value":false}]}`)},
		{"put-close", "PUT", withLen("PUT /characteristics HTTP/1.1\r\nHost: x\r\nConnection: close\r\n", `{"characteristics":[{"aid":1,"iid":9,"value":true}]}`)},
		{"pipelined", "GET", "GET /characteristics?id=1.9 HTTP/1.1\r\nHost: x\r\n\r\nGET /characteristics?id=1.9 HTTP/1.1\r\nHost: x\r\n\r\n"},
		{"put-dup-len", "PUT", "PUT /characteristics HTTP/1.1\r\nHost: x\r\nContent-Length: 2\r\nContent-Length: 3\r\n\r\n{} "},
		{"put-neg-len", "PUT", "PUT /characteristics HTTP/1.1\r\nHost: x\r\nContent-Length: -1\r\n\r\n{} "},
		{"nohost", "GET", "GET /accessories HTTP/1.1\r\n\r\n"},
		{"abs-uri", "GET", "GET http://x/accessories HTTP/1.1\r\nHost: x\r\n\r\n"},
		{"dotdot", "GET", "GET /a/../accessories HTTP/1.1\r\nHost: x\r\n\r\n"},
		{"connect", "CONNECT", "CONNECT x:80 HTTP/1.1\r\nHost: x\r\n\r\n"},
		{"upgrade-h2c", "GET", "GET /accessories HTTP/1.1\r\nHost: x\r\nConnection: Upgrade, HTTP2-Settings\r\nUpgrade: h2c\r\nHTTP2-Settings: AAMAAABkAAQAAP__\r\n\r\n"},
		{"pri", "PRI", "PRI * HTTP/2.0\r\n\r\nSM\r\n\r\n"},
		{"garbage", "GET", "\x00\x01\x02garbage\r\n\r\n"},
		{"bigheader", "GET", "GET /accessories HTTP/1.1\r\nHost: x\r\nX-Big: " + strings.Repeat("a", 2<<20) + "\r\n\r\n"},
		{"put-empty", "PUT", "PUT /characteristics HTTP/1.1\r\nHost: x\r\nContent-Length: 0\r\n\r\n"},
		{"put-emptylist", "PUT", "PUT /characteristics HTTP/1.1\r\nHost: x\r\nContent-Length: 22\r\n\r\n{\"characteristics\":[]}"},
		{"http10", "GET", "GET /accessories HTTP/1.0\r\n\r\n"},
	}
	for _, p := range probes {
		hc := e.verified()
		out := ""
		if err := hc.send([]byte(p.raw)); err != nil {
			out = "send: " + err.Error()
		} else if resp, err := hc.readResponse(p.method, 2*time.Second); err != nil {
			out = "ERR " + err.Error()
		} else {
			out = fmt.Sprintf("%d %s hdr=%v body=%.100q", resp.Status, resp.Proto, resp.Header, resp.Body)
			// same connection still usable?
			if r2, err := hc.do("GET", "/characteristics?id=1.9", "", nil); err != nil {
				out += " | next: ERR " + err.Error()
			} else {
				out += fmt.Sprintf(" | next: %d %.60q", r2.Status, r2.Body)
			}
		}
		t.Logf("%-20s %s", p.name, out)
		hc.Close()
		if err := e.honest(); err != nil {
			t.Errorf("after %s: honest handshake fails: %v", p.name, err)
		}
	}
}

func chunk(s string) string { return fmt.Sprintf("%x\r\n%s\r\n", len(s), s) }
func withLen(head, body string) string {
	return fmt.Sprintf("%sContent-Length: %d\r\n\r\n%s", head, len(body), body)
}

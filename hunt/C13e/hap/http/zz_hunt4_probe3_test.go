package http_test

import (
	"bytes"
	"fmt"
	"strings"
	"testing"

	"github.com/brutella/hc/crypto"
	"github.com/brutella/hc/crypto/chacha20poly1305"
	"github.com/brutella/hc/crypto/hkdf"
	"github.com/brutella/hc/db"
	"github.com/brutella/hc/hap"
	"github.com/brutella/hc/hap/pair"
	"github.com/brutella/hc/util"
)

// h4Setup is a reference pair-setup controller; stop after step `upto` (1,3,5); mut mutates the message of that step.
type h4Setup struct {
	sess *pair.SetupClientSession
}

func (e *h4Env) setupM1(hc *h4Conn) (util.Container, *h4Resp, error) {
	m1 := util.NewTLV8Container()
	m1.SetByte(pair.TagPairingMethod, 0)
	m1.SetByte(pair.TagSequence, 1)
	return hc.tlv("/pair-setup", m1)
}

func (e *h4Env) setupM3msg(m2 util.Container) (*pair.SetupClientSession, util.Container, error) {
	s := pair.NewSetupClientSession("Pair-Setup", "001-02-003")
	if err := s.GenerateKeys(m2.GetBytes(pair.TagSalt), m2.GetBytes(pair.TagPublicKey)); err != nil {
		return nil, nil, err
	}
	m3 := util.NewTLV8Container()
	m3.SetByte(pair.TagSequence, 3)
	m3.SetBytes(pair.TagPublicKey, s.PublicKey)
	m3.SetBytes(pair.TagProof, s.Proof)
	return s, m3, nil
}

func (e *h4Env) setupM5msg(s *pair.SetupClientSession, client hap.Device, name string, innerMut func([]byte) []byte) util.Container {
	s.SetupEncryptionKey([]byte("Pair-Setup-Encrypt-Salt"), []byte("Pair-Setup-Encrypt-Info"))
	hash, _ := hkdf.Sha512(s.PrivateKey, []byte("Pair-Setup-Controller-Sign-Salt"), []byte("Pair-Setup-Controller-Sign-Info"))
	var material []byte
	material = append(material, hash[:]...)
	material = append(material, name...)
	material = append(material, client.PublicKey()...)
	sig, _ := crypto.ED25519Signature(client.PrivateKey(), material)
	inner := util.NewTLV8Container()
	inner.SetString(pair.TagUsername, name)
	inner.SetBytes(pair.TagPublicKey, client.PublicKey())
	inner.SetBytes(pair.TagSignature, sig)
	ib := inner.BytesBuffer().Bytes()
	if innerMut != nil {
		ib = innerMut(ib)
	}
	enc, tag, _ := chacha20poly1305.EncryptAndSeal(s.EncryptionKey[:], []byte("PS-Msg05"), ib, nil)
	m5 := util.NewTLV8Container()
	m5.SetByte(pair.TagSequence, 5)
	m5.SetBytes(pair.TagEncryptedData, append(enc, tag[:]...))
	return m5
}

// honestSetup runs a whole pair-setup on hc. allowRejectedStart: one rejected start request is tolerated.
func (e *h4Env) honestSetup(hc *h4Conn, name string, allowRejectedStart bool) error {
	cdb, _ := db.NewTempDatabase()
	client, _ := hap.NewDevice(name, cdb)
	m2, resp, err := e.setupM1(hc)
	if err != nil {
		return fmt.Errorf("M1: %v", err)
	}
	if (resp.Status != 200 || m2.GetByte(pair.TagSequence) != 2) && allowRejectedStart {
		m2, resp, err = e.setupM1(hc)
		if err != nil {
			return fmt.Errorf("M1 (2nd): %v", err)
		}
	}
	if resp.Status != 200 || m2.GetByte(pair.TagSequence) != 2 || m2.GetByte(pair.TagErrCode) != 0 {
		return fmt.Errorf("M2: status %d seq %d err %d", resp.Status, m2.GetByte(pair.TagSequence), m2.GetByte(pair.TagErrCode))
	}
	s, m3, err := e.setupM3msg(m2)
	if err != nil {
		return fmt.Errorf("M2 %v", err)
	}
	m4, resp, err := hc.tlv("/pair-setup", m3)
	if err != nil {
		return fmt.Errorf("M3: %v", err)
	}
	if resp.Status != 200 || m4.GetByte(pair.TagSequence) != 4 || m4.GetByte(pair.TagErrCode) != 0 {
		return fmt.Errorf("M4: status %d seq %d err %d", resp.Status, m4.GetByte(pair.TagSequence), m4.GetByte(pair.TagErrCode))
	}
	if !s.IsServerProofValid(m4.GetBytes(pair.TagProof)) {
		return fmt.Errorf("M4: proof invalid")
	}
	m6, resp, err := hc.tlv("/pair-setup", e.setupM5msg(s, client, name, nil))
	if err != nil {
		return fmt.Errorf("M5: %v", err)
	}
	if resp.Status != 200 || m6.GetByte(pair.TagSequence) != 6 || m6.GetByte(pair.TagErrCode) != 0 {
		return fmt.Errorf("M6: status %d seq %d err %d", resp.Status, m6.GetByte(pair.TagSequence), m6.GetByte(pair.TagErrCode))
	}
	data := m6.GetBytes(pair.TagEncryptedData)
	if len(data) < 16 {
		return fmt.Errorf("M6: short data")
	}
	var mac [16]byte
	copy(mac[:], data[len(data)-16:])
	dec, err := chacha20poly1305.DecryptAndVerify(s.EncryptionKey[:], []byte("PS-Msg06"), data[:len(data)-16], mac, nil)
	if err != nil {
		return fmt.Errorf("M6: %v", err)
	}
	in, _ := util.NewTLV8ContainerFromReader(bytes.NewReader(dec))
	if !bytes.Equal(in.GetBytes(pair.TagPublicKey), e.device.PublicKey()) {
		return fmt.Errorf("M6: wrong ltpk")
	}
	// and the new pairing verifies
	v := e.dial()
	defer v.Close()
	if err := e.verifyAs(v, client); err != nil {
		return fmt.Errorf("verify with the new pairing: %v", err)
	}
	return nil
}

func TestZZHunt4SetupSane(t *testing.T) {
	e := h4NewEnv(t)
	hc := e.dial()
	defer hc.Close()
	if err := e.honestSetup(hc, "ctl-a", false); err != nil {
		t.Fatal(err)
	}
	if err := e.honestSetup(hc, "ctl-b", true); err != nil {
		t.Fatal(err)
	}
}

type h4Mut struct {
	name string
	f    func([]byte) []byte
}

func h4Muts() []h4Mut {
	return []h4Mut{
		{"empty", func(b []byte) []byte { return nil }},
		{"truncate-1", func(b []byte) []byte { return b[:len(b)-1] }},
		{"truncate-half", func(b []byte) []byte { return b[:len(b)/2] }},
		{"first-2", func(b []byte) []byte { return b[:2] }},
		{"one-byte", func(b []byte) []byte { return b[:1] }},
		{"doubled", func(b []byte) []byte { return append(append([]byte{}, b...), b...) }},
		{"garbage", func(b []byte) []byte { return []byte(strings.Repeat("\xff\xfe\x01", 200)) }},
		{"zeros", func(b []byte) []byte { return make([]byte, 600) }},
		{"flip-last", func(b []byte) []byte { c := append([]byte{}, b...); c[len(c)-1] ^= 1; return c }},
		{"flip-mid", func(b []byte) []byte { c := append([]byte{}, b...); c[len(c)/2] ^= 0x80; return c }},
		{"trailing-tag", func(b []byte) []byte { return append(append([]byte{}, b...), 0x09) }},
		{"trailing-len", func(b []byte) []byte { return append(append([]byte{}, b...), 0x09, 0xff, 1, 2) }},
		{"err-item", func(b []byte) []byte { return append(append([]byte{}, b...), 0x07, 1, 2) }},
		{"method-1", func(b []byte) []byte { return append([]byte{0, 1, 1}, b...) }},
		{"state-dup", func(b []byte) []byte { return append([]byte{6, 1, 1}, b...) }},
		{"huge", func(b []byte) []byte { return append(append([]byte{}, b...), bytes.Repeat([]byte{0x0a, 0xff}, 40000)...) }},
	}
}

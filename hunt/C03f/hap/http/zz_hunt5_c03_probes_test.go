package http_test

import (
	"bufio"
	"crypto/ed25519"
	mrand "math/rand"
	"net"
	"syscall"
	"testing"
	"time"
)

// Probe: a new connection from the same remote address and port as a verified one
// (reset, then immediate reconnect from the same local port) must be unverified.
func TestHunt5C03PortReuse(t *testing.T) {
	w := newWorld(t, 2)
	defer w.cancel()
	time.Sleep(50 * time.Millisecond)
	rng := mrand.New(mrand.NewSource(1))
	skipped := 0
	defer func() { t.Logf("rounds without port reuse: %d of 200", skipped) }()
	for round := 0; round < 200; round++ {
		d := net.Dialer{Control: func(network, address string, c syscall.RawConn) error {
			return c.Control(func(fd uintptr) {
				syscall.SetsockoptInt(int(fd), syscall.SOL_SOCKET, syscall.SO_REUSEADDR, 1)
				syscall.SetsockoptInt(int(fd), syscall.SOL_SOCKET, 15, 1)
			})
		}}
		c1, err := d.Dial("tcp", w.addr)
		if err != nil {
			t.Fatal(err)
		}
		k := &conn{w: w, c: c1, br: bufio.NewReader(c1)}
		if p := k.startValid(rng, false); p != "" {
			t.Fatal(p)
		}
		v, ss, p := k.finish(rng, fGenuine)
		if p != "" || !v {
			t.Fatal(p, v)
		}
		if ss != nil && round%2 == 0 {
			if q := k.probeVerified(ss); q != "" {
				t.Fatal(q)
			}
		}
		la := c1.LocalAddr()
		c1.(*net.TCPConn).SetLinger(0)
		c1.Close()
		d.LocalAddr = la
		var c2 net.Conn
		for i := 0; i < 50; i++ {
			c2, err = d.Dial("tcp", w.addr)
			if err == nil {
				break
			}
			time.Sleep(time.Millisecond)
		}
		if err != nil {
			skipped++
			continue
		}
		k2 := &conn{w: w, c: c2, br: bufio.NewReader(c2)}
		if p := k2.probeUnverified(); p != "" {
			t.Fatalf("round %d: connection from a reused port: %s", round, p)
		}
		// and it can still run an exchange of its own
		if p := k2.startValid(rng, false); p != "" {
			t.Fatalf("round %d: %s", round, p)
		}
		if _, _, p := k2.finish(rng, fWrongKey); p != "" {
			t.Fatalf("round %d: %s", round, p)
		}
		if p := k2.probeUnverified(); p != "" {
			t.Fatalf("round %d: %s", round, p)
		}
		c2.(*net.TCPConn).SetLinger(0)
		c2.Close()
	}
}

// Probe: HTTP framing variants of a failing finish (chunked, Expect, HEAD, GET with a body)
func TestHunt5C03HTTPVariants(t *testing.T) {
	w := newWorld(t, 2)
	defer w.cancel()
	time.Sleep(50 * time.Millisecond)
	rng := mrand.New(mrand.NewSource(2))
	c := w.ctrls[0]
	for variant := 0; variant < 4; variant++ {
		k := dial(t, w)
		if p := k.startValid(rng, false); p != "" {
			t.Fatal(p)
		}
		e := k.cur
		_, bad, _ := ed25519.GenerateKey(nil)
		mat := append(append(append([]byte{}, e.A...), c.name...), e.B...)
		body := tlv(item(6, []byte{3}), item(5, seal(e.K, "PV-Msg03", sub(c.name, ed25519.Sign(bad, mat)))))
		var req []byte
		method := "POST"
		switch variant {
		case 0:
			req = []byte("POST /pair-verify HTTP/1.1\r\nHost: x\r\nTransfer-Encoding: chunked\r\n\r\n")
			for len(body) > 0 {
				n := 7
				if n > len(body) {
					n = len(body)
				}
				req = append(req, []byte(itoaHex(n)+"\r\n")...)
				req = append(req, body[:n]...)
				req = append(req, "\r\n"...)
				body = body[n:]
			}
			req = append(req, "0\r\nX-T: 1\r\n\r\n"...)
		case 1:
			method = "HEAD"
			req = append([]byte("HEAD /pair-verify HTTP/1.1\r\nHost: x\r\nContent-Length: "+itoa(len(body))+"\r\n\r\n"), body...)
		case 2:
			method = "GET"
			req = append([]byte("GET /pair-verify?x=1 HTTP/1.1\r\nHost: x\r\nContent-Length: "+itoa(len(body))+"\r\n\r\n"), body...)
		case 3:
			req = append([]byte("POST //pair-verify/../pair-verify HTTP/1.0\r\nConnection: keep-alive\r\nContent-Length: "+itoa(len(body))+"\r\n\r\n"), body...)
		}
		k.c.SetDeadline(time.Now().Add(3 * time.Second))
		k.c.Write(req)
		r, err := k.readPlain(method)
		if err != nil {
			t.Fatalf("variant %d: %v", variant, err)
		}
		t.Logf("variant %d: %d %x", variant, r.status, r.body)
		if variant == 3 {
			continue // redirect by the mux: nothing reached the handler
		}
		if method != "HEAD" {
			if p := isErr("variant", r); p != "" {
				t.Fatalf("variant %d: %s", variant, p)
			}
		}
		if p := k.probeUnverified(); p != "" {
			t.Fatalf("variant %d: %s", variant, p)
		}
		k.close()
	}
}

func itoa(n int) string    { return string([]byte(fmtInt(n, 10))) }
func itoaHex(n int) string { return string([]byte(fmtInt(n, 16))) }
func fmtInt(n, base int) string {
	if n == 0 {
		return "0"
	}
	s := ""
	for n > 0 {
		s = string("0123456789abcdef"[n%base]) + s
		n /= base
	}
	return s
}

package http_test

// Differential harness for C03: an independent controller (written from the
// property text: X25519, HKDF-SHA512, ChaCha20-Poly1305, Ed25519, own TLV8) drives
// the real server over loopback with long random histories over the pair-verify
// alphabet and compares with a reference model after every step.

import (
	"bufio"
	"bytes"
	"context"
	"crypto/ed25519"
	"crypto/rand"
	"crypto/sha512"
	"encoding/binary"
	"fmt"
	"io"
	mrand "math/rand"
	"net"
	gohttp "net/http"
	"os"
	"strconv"
	"sync"
	"testing"
	"time"

	"github.com/brutella/hc/accessory"
	"github.com/brutella/hc/db"
	"github.com/brutella/hc/event"
	"github.com/brutella/hc/hap"
	hchttp "github.com/brutella/hc/hap/http"

	xchacha "golang.org/x/crypto/chacha20poly1305"
	"golang.org/x/crypto/curve25519"
	"golang.org/x/crypto/hkdf"
)

type ctrl struct {
	name string
	pub  ed25519.PublicKey
	priv ed25519.PrivateKey
}

type world struct {
	addr    string
	ctx     hap.Context
	dev     hap.SecuredDevice
	db      db.Database
	ctrls   []ctrl // stored
	unknown []ctrl // not stored
	cancel  func()
}

func newWorld(t testing.TB, nctrl int) *world {
	dir, err := os.MkdirTemp("", "c03")
	if err != nil {
		t.Fatal(err)
	}
	database, err := db.NewDatabase(dir)
	if err != nil {
		t.Fatal(err)
	}
	dev, err := hap.NewSecuredDevice("AA:BB:CC:DD:EE:FF", "00102003", database)
	if err != nil {
		t.Fatal(err)
	}
	w := &world{dev: dev, db: database}
	for i := 0; i < nctrl; i++ {
		pub, priv, _ := ed25519.GenerateKey(rand.Reader)
		c := ctrl{name: fmt.Sprintf("11111111-2222-3333-4444-%012d", i), pub: pub, priv: priv}
		if err := database.SaveEntity(db.NewEntity(c.name, c.pub, nil)); err != nil {
			t.Fatal(err)
		}
		w.ctrls = append(w.ctrls, c)
	}
	for i := 0; i < 2; i++ {
		pub, priv, _ := ed25519.GenerateKey(rand.Reader)
		w.unknown = append(w.unknown, ctrl{name: fmt.Sprintf("99999999-2222-3333-4444-%012d", i), pub: pub, priv: priv})
	}
	w.ctx = hap.NewContextForSecuredDevice(dev)
	cont := accessory.NewContainer()
	acc := accessory.NewSwitch(accessory.Info{Name: "sw"})
	cont.AddAccessory(acc.Accessory)
	s := hchttp.NewServer(hchttp.Config{Port: "127.0.0.1:0", Context: w.ctx, Database: database, Container: cont, Device: dev, Mutex: &sync.Mutex{}, Emitter: event.NewEmitter()})
	// NewServer listens on the given address; ListenAndServe serves that listener
	cctx, cancel := context.WithCancel(context.Background())
	w.cancel = cancel
	go s.ListenAndServe(cctx)
	w.addr = "127.0.0.1:" + s.Port()
	return w
}

// --- own tlv8
func tlv(items ...[]byte) []byte {
	var b bytes.Buffer
	for _, it := range items {
		b.Write(it)
	}
	return b.Bytes()
}
func item(tag byte, v []byte) []byte {
	var b bytes.Buffer
	if len(v) == 0 {
		b.Write([]byte{tag, 0})
	}
	for len(v) > 0 {
		n := len(v)
		if n > 255 {
			n = 255
		}
		b.Write([]byte{tag, byte(n)})
		b.Write(v[:n])
		v = v[n:]
	}
	return b.Bytes()
}
func parseTLV(b []byte) (map[byte][]byte, error) {
	m := map[byte][]byte{}
	for len(b) > 0 {
		if len(b) < 2 || len(b) < 2+int(b[1]) {
			return nil, fmt.Errorf("bad tlv")
		}
		m[b[0]] = append(m[b[0]], b[2:2+int(b[1])]...)
		b = b[2+int(b[1]):]
	}
	return m, nil
}

func hk(secret []byte, salt, info string) []byte {
	r := hkdf.New(sha512.New, secret, []byte(salt), []byte(info))
	k := make([]byte, 32)
	io.ReadFull(r, k)
	return k
}
func seal(key []byte, nonce string, msg []byte) []byte {
	a, _ := xchacha.New(key)
	var n [12]byte
	copy(n[4:], nonce)
	return a.Seal(nil, n[:], msg, nil)
}
func open(key []byte, nonce string, ct []byte) ([]byte, error) {
	a, _ := xchacha.New(key)
	var n [12]byte
	copy(n[4:], nonce)
	return a.Open(nil, n[:], ct, nil)
}

// --- frames of the encrypted session
type secsess struct {
	rk, wk []byte // accessory->controller, controller->accessory
	rc, wc uint64
}

func (s *secsess) enc(p []byte) []byte {
	var out bytes.Buffer
	for len(p) > 0 {
		n := len(p)
		if n > 1024 {
			n = 1024
		}
		a, _ := xchacha.New(s.wk)
		var nn [12]byte
		binary.LittleEndian.PutUint64(nn[4:], s.wc)
		s.wc++
		l := []byte{byte(n), byte(n >> 8)}
		out.Write(l)
		out.Write(a.Seal(nil, nn[:], p[:n], l))
		p = p[n:]
	}
	return out.Bytes()
}
func (s *secsess) decFrame(r io.Reader) ([]byte, error) {
	var l [2]byte
	if _, err := io.ReadFull(r, l[:]); err != nil {
		return nil, err
	}
	n := int(binary.LittleEndian.Uint16(l[:]))
	ct := make([]byte, n+16)
	if _, err := io.ReadFull(r, ct); err != nil {
		return nil, err
	}
	a, _ := xchacha.New(s.rk)
	var nn [12]byte
	binary.LittleEndian.PutUint64(nn[4:], s.rc)
	s.rc++
	return a.Open(nil, nn[:], ct, l[:])
}

// --- one connection of the reference controller
type exch struct {
	a, A, B, shared, K []byte
}
type conn struct {
	w    *world
	c    net.Conn
	br   *bufio.Reader
	cur  *exch    // exchange the reference believes open (nil = none)
	prev []*exch  // earlier exchanges on this connection
	sent [][]byte // finish bodies sent earlier (for replays)
}

func dial(t testing.TB, w *world) *conn {
	c, err := net.Dial("tcp", w.addr)
	if err != nil {
		t.Fatal(err)
	}
	return &conn{w: w, c: c, br: bufio.NewReader(c)}
}

type resp struct {
	status int
	body   []byte
	raw    bool // not HTTP: bytes came back that are not a plaintext response
}

func (k *conn) post(path string, body []byte) (resp, error) {
	req := "POST " + path + " HTTP/1.1\r\nHost: x\r\nContent-Type: application/pairing+tlv8\r\nContent-Length: " + strconv.Itoa(len(body)) + "\r\n\r\n"
	k.c.SetDeadline(time.Now().Add(5 * time.Second))
	if _, err := k.c.Write(append([]byte(req), body...)); err != nil {
		return resp{}, err
	}
	return k.readPlain("POST")
}
func (k *conn) get(path string) (resp, error) {
	k.c.SetDeadline(time.Now().Add(5 * time.Second))
	if _, err := k.c.Write([]byte("GET " + path + " HTTP/1.1\r\nHost: x\r\n\r\n")); err != nil {
		return resp{}, err
	}
	return k.readPlain("GET")
}
func (k *conn) readPlain(method string) (resp, error) {
	p, err := k.br.Peek(5)
	if err != nil {
		return resp{}, err
	}
	if string(p) != "HTTP/" {
		return resp{raw: true}, nil
	}
	r, err := gohttp.ReadResponse(k.br, &gohttp.Request{Method: method})
	if err != nil {
		return resp{}, err
	}
	b, err := io.ReadAll(r.Body)
	r.Body.Close()
	return resp{status: r.StatusCode, body: b}, err
}

func (k *conn) close() { k.c.Close() }

func randBytes(n int) []byte { b := make([]byte, n); rand.Read(b); return b }

// start sends a valid start; returns error text if the reference finds a discrepancy
func (k *conn) startValid(rng *mrand.Rand, split bool) string {
	a := randBytes(32)
	A, _ := curve25519.X25519(a, curve25519.Basepoint)
	pk := item(3, A)
	if split {
		pk = tlv(item(3, A[:16]), item(3, A[16:]))
	}
	r, err := k.post("/pair-verify", tlv(item(6, []byte{1}), pk))
	if err != nil {
		return "start: " + err.Error()
	}
	if k.cur != nil {
		// out-of-order: must be an error, exchange closed
		k.prev = append(k.prev, k.cur)
		k.cur = nil
		return isErr("start during open exchange", r)
	}
	if r.raw || r.status != 200 {
		return fmt.Sprintf("valid start rejected: %+v", r)
	}
	m, err := parseTLV(r.body)
	if err != nil || len(m[6]) != 1 || m[6][0] != 2 || len(m[7]) != 0 || len(m[3]) != 32 {
		return fmt.Sprintf("valid start: bad response %x", r.body)
	}
	e := &exch{a: a, A: A, B: m[3]}
	e.shared, _ = curve25519.X25519(a, e.B)
	e.K = hk(e.shared, "Pair-Verify-Encrypt-Salt", "Pair-Verify-Encrypt-Info")
	pt, err := open(e.K, "PV-Msg02", m[5])
	if err != nil {
		return "M2 does not open: " + err.Error()
	}
	im, err := parseTLV(pt)
	if err != nil {
		return "M2 inner tlv"
	}
	mat := append(append(append([]byte{}, e.B...), im[1]...), A...)
	if string(im[1]) != k.w.dev.Name() || !ed25519.Verify(k.w.dev.PublicKey(), mat, im[10]) {
		return "M2 signature of accessory invalid"
	}
	for _, p := range k.prev {
		if bytes.Equal(p.B, e.B) {
			return "accessory ephemeral key reused"
		}
	}
	k.cur = e
	return ""
}

func isErr(what string, r resp) string {
	if r.raw {
		return what + ": non-plaintext bytes came back"
	}
	if r.status >= 400 {
		return ""
	}
	m, err := parseTLV(r.body)
	if err != nil {
		return what + ": unparsable body"
	}
	if len(m[7]) == 1 && m[7][0] != 0 {
		return ""
	}
	return fmt.Sprintf("%s: not answered with an error: status %d body %x", what, r.status, r.body)
}

func (k *conn) startBad(rng *mrand.Rand) string {
	lens := []int{0, 1, 16, 31, 33, 64, 254, 255, 256, 510, 1024}
	n := lens[rng.Intn(len(lens))]
	var body []byte
	if n == 0 && rng.Intn(2) == 0 {
		body = tlv(item(6, []byte{1}))
	} else {
		body = tlv(item(6, []byte{1}), item(3, randBytes(n)))
	}
	r, err := k.post("/pair-verify", body)
	if err != nil {
		return "startBad: " + err.Error()
	}
	if k.cur != nil {
		k.prev = append(k.prev, k.cur)
		k.cur = nil
	}
	return isErr(fmt.Sprintf("start with %d-byte key", n), r)
}

func sub(name string, sig []byte) []byte { return tlv(item(1, []byte(name)), item(10, sig)) }

// finish kinds
const (
	fGenuine = iota
	fWrongKey
	fOtherStoredKey
	fStale
	fReordered
	fReplay
	fUnknown
	fAccessoryName
	fWrongSeal
	fWrongNonce
	fShort
	fNameVariant
	fEchoM2
	fNoSig
	fTruncSig
	fGarbageInner
	fKinds
)

func (k *conn) finish(rng *mrand.Rand, kind int) (verified bool, sess *secsess, problem string) {
	e := k.cur
	wasOpen := e != nil
	if e == nil {
		// no exchange open: use material of an earlier one or random
		if len(k.prev) > 0 {
			e = k.prev[rng.Intn(len(k.prev))]
		} else {
			a := randBytes(32)
			A, _ := curve25519.X25519(a, curve25519.Basepoint)
			B := randBytes(32)
			sh, _ := curve25519.X25519(a, B)
			e = &exch{a: a, A: A, B: B, shared: sh, K: hk(sh, "Pair-Verify-Encrypt-Salt", "Pair-Verify-Encrypt-Info")}
		}
	}
	c := k.w.ctrls[rng.Intn(len(k.w.ctrls))]
	mat := func(e *exch, name string) []byte {
		return append(append(append([]byte{}, e.A...), name...), e.B...)
	}
	var data []byte
	genuine := false
	switch kind {
	case fGenuine:
		data = seal(e.K, "PV-Msg03", sub(c.name, ed25519.Sign(c.priv, mat(e, c.name))))
		genuine = wasOpen
	case fWrongKey:
		_, p, _ := ed25519.GenerateKey(rand.Reader)
		data = seal(e.K, "PV-Msg03", sub(c.name, ed25519.Sign(p, mat(e, c.name))))
	case fOtherStoredKey:
		o := k.w.ctrls[(rng.Intn(len(k.w.ctrls)-1)+1+indexOf(k.w.ctrls, c.name))%len(k.w.ctrls)]
		data = seal(e.K, "PV-Msg03", sub(c.name, ed25519.Sign(o.priv, mat(e, c.name))))
	case fStale:
		var o *exch
		if len(k.prev) > 0 {
			o = k.prev[rng.Intn(len(k.prev))]
		} else {
			o = &exch{A: randBytes(32), B: e.B}
		}
		switch rng.Intn(3) {
		case 0:
			data = seal(e.K, "PV-Msg03", sub(c.name, ed25519.Sign(c.priv, mat(o, c.name))))
		case 1:
			data = seal(e.K, "PV-Msg03", sub(c.name, ed25519.Sign(c.priv, mat(&exch{A: e.A, B: o.B}, c.name))))
			if bytes.Equal(o.B, e.B) {
				data = seal(e.K, "PV-Msg03", sub(c.name, ed25519.Sign(c.priv, mat(&exch{A: o.A, B: e.B}, c.name))))
			}
		default:
			data = seal(e.K, "PV-Msg03", sub(c.name, ed25519.Sign(c.priv, mat(&exch{A: o.A, B: e.B}, c.name))))
		}
	case fReordered:
		var m []byte
		switch rng.Intn(4) {
		case 0:
			m = append(append(append([]byte{}, e.B...), c.name...), e.A...)
		case 1:
			m = append(append(append([]byte{}, e.A...), e.B...), c.name...)
		case 2:
			m = append(append(append([]byte{}, c.name...), e.A...), e.B...)
		default:
			m = append(append([]byte{}, e.A...), e.B...)
		}
		data = seal(e.K, "PV-Msg03", sub(c.name, ed25519.Sign(c.priv, m)))
	case fReplay:
		if len(k.sent) == 0 {
			data = randBytes(100)
		} else {
			data = k.sent[rng.Intn(len(k.sent))]
		}
		genuine = false
	case fUnknown:
		u := k.w.unknown[rng.Intn(len(k.w.unknown))]
		data = seal(e.K, "PV-Msg03", sub(u.name, ed25519.Sign(u.priv, mat(e, u.name))))
	case fAccessoryName:
		u := k.w.unknown[0]
		n := k.w.dev.Name()
		data = seal(e.K, "PV-Msg03", sub(n, ed25519.Sign(u.priv, mat(e, n))))
	case fWrongSeal:
		data = seal(randBytes(32), "PV-Msg03", sub(c.name, ed25519.Sign(c.priv, mat(e, c.name))))
	case fWrongNonce:
		data = seal(e.K, "PV-Msg02", sub(c.name, ed25519.Sign(c.priv, mat(e, c.name))))
	case fShort:
		data = randBytes(rng.Intn(16))
	case fNameVariant:
		vs := []string{c.name + "\x00", " " + c.name, c.name[:len(c.name)-1], "", c.name + ".entity", "../" + c.name, c.name + c.name}
		n := vs[rng.Intn(len(vs))]
		data = seal(e.K, "PV-Msg03", sub(n, ed25519.Sign(c.priv, mat(e, n))))
	case fEchoM2:
		data = seal(e.K, "PV-Msg02", sub(k.w.dev.Name(), randBytes(64)))
	case fNoSig:
		data = seal(e.K, "PV-Msg03", tlv(item(1, []byte(c.name))))
	case fTruncSig:
		s := ed25519.Sign(c.priv, mat(e, c.name))
		data = seal(e.K, "PV-Msg03", sub(c.name, s[:rng.Intn(64)]))
	case fGarbageInner:
		data = seal(e.K, "PV-Msg03", randBytes(1+rng.Intn(300)))
	}
	var body []byte
	if kind == fShort && len(data) == 0 && rng.Intn(2) == 0 {
		body = tlv(item(6, []byte{3}))
	} else {
		body = tlv(item(6, []byte{3}), item(5, data))
	}
	r, err := k.post("/pair-verify", body)
	if kind != fReplay {
		k.sent = append(k.sent, data)
	}
	if k.cur != nil {
		k.prev = append(k.prev, k.cur)
		k.cur = nil
	}
	if err != nil {
		return false, nil, fmt.Sprintf("finish kind %d: %v", kind, err)
	}
	if kind == fReplay && wasOpen {
		// a replayed finish of an earlier exchange can never be genuine: keys differ
		genuine = false
	}
	if !genuine {
		return false, nil, isErr(fmt.Sprintf("finish kind %d (open=%v)", kind, wasOpen), r)
	}
	ss := &secsess{rk: hk(e.shared, "Control-Salt", "Control-Read-Encryption-Key"), wk: hk(e.shared, "Control-Salt", "Control-Write-Encryption-Key")}
	if r.raw {
		// known: M4 sometimes goes out encrypted
		return true, nil, ""
	}
	m, perr := parseTLV(r.body)
	if r.status != 200 || perr != nil || len(m[6]) != 1 || m[6][0] != 4 || len(m[7]) != 0 {
		return false, nil, fmt.Sprintf("genuine finish refused: %d %x", r.status, r.body)
	}
	return true, ss, ""
}

func indexOf(cs []ctrl, n string) int {
	for i, c := range cs {
		if c.name == n {
			return i
		}
	}
	return 0
}

// probeUnverified: the connection must answer a plaintext request in plaintext with 470
func (k *conn) probeUnverified() string {
	r, err := k.get("/accessories")
	if err != nil {
		return "probe: " + err.Error()
	}
	if r.raw {
		return "probe: unverified connection answered with non-plaintext bytes"
	}
	if r.status != 470 {
		return fmt.Sprintf("probe: unverified connection answered GET /accessories with %d %s", r.status, r.body)
	}
	return ""
}

func (k *conn) probeVerified(ss *secsess) string {
	k.c.SetDeadline(time.Now().Add(5 * time.Second))
	k.c.Write(ss.enc([]byte("GET /accessories HTTP/1.1\r\nHost: x\r\n\r\n")))
	var all []byte
	for {
		p, err := ss.decFrame(k.br)
		if err != nil {
			return "verified probe: " + err.Error()
		}
		all = append(all, p...)
		if r, err := gohttp.ReadResponse(bufio.NewReader(bytes.NewReader(all)), nil); err == nil {
			if b, err := io.ReadAll(r.Body); err == nil {
				if r.StatusCode != 200 || !bytes.Contains(b, []byte("accessories")) {
					return fmt.Sprintf("verified probe: %d %s", r.StatusCode, b)
				}
				return ""
			}
		}
	}
}

func (k *conn) other(rng *mrand.Rand) string {
	var body []byte
	what := ""
	switch rng.Intn(6) {
	case 0:
		body = tlv(item(6, []byte{byte(2 * rng.Intn(3))}), item(3, randBytes(32)))
		what = "even state"
	case 1:
		body = tlv(item(0, []byte{byte(1 + rng.Intn(6))}), item(6, []byte{1}), item(3, randBytes(32)))
		what = "method"
	case 2:
		body = nil
		what = "empty body"
	case 3:
		body = randBytes(1 + rng.Intn(40))
		if _, err := parseTLV(body); err == nil {
			return ""
		}
		what = "malformed tlv"
	case 4:
		body = tlv(item(6, []byte{byte(5 + rng.Intn(250))}))
		what = "state >= 5"
	case 5:
		body = tlv(item(6, nil))
		what = "empty state"
	}
	r, err := k.post("/pair-verify", body)
	if err != nil {
		return what + ": " + err.Error()
	}
	// whether the exchange stays open after this is not promised: forget it
	if k.cur != nil {
		k.prev = append(k.prev, k.cur)
		k.cur = nil
		// bring the server into a known state: an out-of-order finish closes the exchange
		r2, err := k.post("/pair-verify", tlv(item(6, []byte{3}), item(5, randBytes(40))))
		if err != nil {
			return what + ": " + err.Error()
		}
		if p := isErr("garbage finish after "+what, r2); p != "" {
			return p
		}
	}
	return isErr(what, r)
}

func runSeed(t *testing.T, w *world, seed, steps int) (nver, encM4 int, problem string) {
	rng := mrand.New(mrand.NewSource(int64(seed)))
	k := dial(t, w)
	defer func() { k.close() }()
	var hist []string
	fail := func(p string) string {
		return fmt.Sprintf("seed %d after %d steps: %s\nhistory: %v", seed, len(hist), p, hist)
	}
	for i := 0; i < steps; i++ {
		op := rng.Intn(10)
		var p string
		switch {
		case op < 3:
			hist = append(hist, "start")
			p = k.startValid(rng, rng.Intn(8) == 0)
		case op < 4:
			hist = append(hist, "startBad")
			p = k.startBad(rng)
		case op < 9:
			kind := rng.Intn(fKinds)
			if rng.Intn(3) != 0 && kind == fGenuine {
				kind = 1 + rng.Intn(fKinds-1)
			}
			hist = append(hist, fmt.Sprintf("finish%d(open=%v)", kind, k.cur != nil))
			v, ss, pp := k.finish(rng, kind)
			p = pp
			if p == "" && v {
				nver++
				if ss == nil {
					encM4++
				} else if q := k.probeVerified(ss); q != "" {
					return nver, encM4, fail(q)
				}
				k.close()
				k = dial(t, w)
				hist = append(hist, "|newconn|")
				continue
			}
		default:
			hist = append(hist, "other")
			p = k.other(rng)
		}
		if p != "" {
			return nver, encM4, fail(p)
		}
		if rng.Intn(3) == 0 {
			hist = append(hist, "probe")
			if p := k.probeUnverified(); p != "" {
				return nver, encM4, fail(p)
			}
		}
	}
	// at the end the connection is unverified
	if p := k.probeUnverified(); p != "" {
		return nver, encM4, fail(p)
	}
	return nver, encM4, ""
}

func envInt(name string, def int) int {
	if s := os.Getenv(name); s != "" {
		def, _ = strconv.Atoi(s)
	}
	return def
}

func TestHunt5C03Differential(t *testing.T) {
	seeds, steps := envInt("C03_SEEDS", 40), envInt("C03_STEPS", 120)
	w := newWorld(t, 3)
	defer w.cancel()
	time.Sleep(50 * time.Millisecond)
	encM4, nver := 0, 0
	for seed := 0; seed < seeds; seed++ {
		v, e, p := runSeed(t, w, seed, steps)
		nver += v
		encM4 += e
		if p != "" {
			t.Fatal(p)
		}
	}
	t.Logf("verified %d, encrypted M4 (known race): %d", nver, encM4)
}

// the same histories on many connections at once (one context, one database)
func TestHunt5C03DifferentialParallel(t *testing.T) {
	seeds, steps, workers := envInt("C03_SEEDS", 40), envInt("C03_STEPS", 120), envInt("C03_WORKERS", 8)
	w := newWorld(t, 3)
	defer w.cancel()
	time.Sleep(50 * time.Millisecond)
	var mu sync.Mutex
	var wg sync.WaitGroup
	encM4, nver := 0, 0
	for wk := 0; wk < workers; wk++ {
		wg.Add(1)
		go func(wk int) {
			defer wg.Done()
			for seed := wk; seed < seeds; seed += workers {
				v, e, p := runSeed(t, w, 1000+seed, steps)
				mu.Lock()
				nver += v
				encM4 += e
				mu.Unlock()
				if p != "" {
					t.Error(p)
					return
				}
			}
		}(wk)
	}
	wg.Wait()
	t.Logf("verified %d, encrypted M4 (known race): %d", nver, encM4)
}

package hc

import (
	"bytes"
	"crypto/ed25519"
	"crypto/rand"
	"fmt"
	"sync"
	"sync/atomic"
	"testing"
	"time"

	"github.com/brutella/hc/db"
)

// BORDERLINE (outside the letter of the quantifier: the peer did hold a paired key when it verified).
// Clause: "a connection that has not completed pair-verify with a controller key stored on the accessory
// is refused every protected operation". History: controller B verifies; admin A removes B's pairing on
// another connection; B's connection is still served (reads the canary, writes, gets events).
func TestHunt5C01_RemovedPairingKeepsItsConnection(t *testing.T) {
	r := h5NewRig(t)
	defer r.stop()
	bPub, bKey, _ := ed25519.GenerateKey(rand.Reader)
	if err := r.tr.database.SaveEntity(db.NewEntity("controller-B", bPub, nil)); err != nil {
		t.Fatal(err)
	}
	b := h5Dial(t, r.addr)
	if _, _, err := b.verify(h5VerifyOpt{user: "controller-B", key: bKey}); err != nil || !b.enc {
		t.Fatal(err)
	}
	a := h5Dial(t, r.addr)
	if _, _, err := a.verify(h5VerifyOpt{user: r.ctrlID, key: r.ctrlKey}); err != nil || !a.enc {
		t.Fatal(err)
	}
	st, body, _, err := a.roundtrip("POST", "/pairings", "application/pairing+tlv8", h5tlv(h5Seq, 1, h5Method, 4, h5User, "controller-B"))
	if err != nil || st != 200 {
		t.Fatal(st, err, body)
	}
	if _, err := r.tr.database.EntityWithName("controller-B"); err == nil {
		t.Fatal("pairing of B still stored")
	}
	st, body, _, err = b.roundtrip("GET", "/accessories", "", nil)
	if err == nil && st == 200 && bytes.Contains(body, []byte(h5Canary)) {
		t.Errorf("the connection of the removed controller still lists the accessories (status %d, canary disclosed)", st)
	}
	st, _, _, err = b.roundtrip("PUT", "/characteristics", "application/hap+json", []byte(fmt.Sprintf(`{"characteristics":[{"aid":1,"iid":%d,"value":true}]}`, r.acc.Switch.On.ID)))
	if err == nil && st == 204 && r.acc.Switch.On.GetValue() {
		t.Errorf("the connection of the removed controller still writes characteristics")
	}
	// and it cannot verify again
	b2 := h5Dial(t, r.addr)
	_, st, err = b2.verify(h5VerifyOpt{user: "controller-B", key: bKey})
	if b2.enc {
		t.Errorf("removed controller verified again")
	}
}

// Concurrent variant: attackers hammer protected endpoints and failed exchanges while a controller
// verifies on fresh connections, subscribes and writes.
func TestHunt5C01_Concurrent(t *testing.T) {
	r := h5NewRig(t)
	defer r.stop()
	onID := r.acc.Switch.On.ID
	_, atkKey, _ := ed25519.GenerateKey(rand.Reader)
	stop := make(chan struct{})
	var wg sync.WaitGroup
	var bad atomic.Value
	var served, refused int64
	for g := 0; g < 6; g++ {
		wg.Add(1)
		go func(g int) {
			defer wg.Done()
			p := h5Dial(t, r.addr)
			i := 0
			for {
				select {
				case <-stop:
					return
				default:
				}
				i++
				var st int
				var rb []byte
				var evs []string
				var err error
				switch (i + g) % 5 {
				case 0:
					st, rb, evs, err = p.roundtrip("GET", "/accessories", "", nil)
				case 1:
					st, rb, evs, err = p.roundtrip("GET", fmt.Sprintf("/characteristics?id=1.%d,1.3", onID), "", nil)
				case 2:
					st, rb, evs, err = p.roundtrip("PUT", "/characteristics", "application/hap+json", []byte(fmt.Sprintf(`{"characteristics":[{"aid":1,"iid":%d,"ev":true}]}`, onID)))
				case 3:
					_, _, err = p.verify(h5VerifyOpt{user: r.ctrlID, key: atkKey, noSwitch: true})
					st = 470
				case 4:
					p.c.Close()
					p = h5Dial(t, r.addr)
					continue
				}
				if err != nil {
					p.c.Close()
					p = h5Dial(t, r.addr)
					continue
				}
				if st >= 200 && st < 300 || bytes.Contains(rb, []byte(h5Canary)) || len(evs) > 0 {
					atomic.AddInt64(&served, 1)
					bad.Store(fmt.Sprintf("attacker %d: %d %q %v", g, st, rb, evs))
				} else {
					atomic.AddInt64(&refused, 1)
				}
			}
		}(g)
	}
	deadline := time.Now().Add(6 * time.Second)
	n := 0
	for time.Now().Before(deadline) {
		c := h5Dial(t, r.addr)
		if _, _, err := c.verify(h5VerifyOpt{user: r.ctrlID, key: r.ctrlKey}); err != nil || !c.enc {
			c.c.Close()
			continue
		}
		c.roundtrip("PUT", "/characteristics", "application/hap+json", []byte(fmt.Sprintf(`{"characteristics":[{"aid":1,"iid":%d,"ev":true,"value":%v}]}`, onID, n%2 == 0)))
		c.roundtrip("GET", "/accessories", "", nil)
		r.acc.Switch.On.SetValue(n%3 == 0)
		n++
		c.c.Close()
	}
	close(stop)
	wg.Wait()
	t.Logf("controller sessions %d, attacker requests refused %d, served %d", n, refused, served)
	if v := bad.Load(); v != nil {
		t.Fatalf("protected request of an unverified connection served: %v", v)
	}
}

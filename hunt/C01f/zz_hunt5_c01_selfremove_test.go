package hc

import "testing"

// Not a demonstration: checks that, with the suggested repair, a controller which removes its own
// pairing is still answered before its connection goes away (passes on the unmodified code too).
func TestHunt5C01_SelfRemovalIsAnswered(t *testing.T) {
	r := h5NewRig(t)
	defer r.stop()
	a := h5Dial(t, r.addr)
	if _, _, err := a.verify(h5VerifyOpt{user: r.ctrlID, key: r.ctrlKey}); err != nil || !a.enc {
		t.Fatal(err)
	}
	st, body, _, err := a.roundtrip("POST", "/pairings", "application/pairing+tlv8", h5tlv(h5Seq, 1, h5Method, 4, h5User, r.ctrlID))
	if err != nil || st != 200 {
		t.Fatalf("self removal: %d %v %x", st, err, body)
	}
	st, _, _, err = a.roundtrip("GET", "/accessories", "", nil)
	t.Logf("afterwards: %d %v", st, err)
}

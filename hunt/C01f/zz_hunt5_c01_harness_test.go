package hc

// Harness of the fifth hunt for property C01: a real transport on loopback,
// an independent HAP peer (plain and encrypted), a paired controller.

import (
	"bufio"
	"bytes"
	"crypto/ed25519"
	"crypto/rand"
	"encoding/binary"
	"fmt"
	"image"
	"io"
	"io/ioutil"
	"net"
	"net/http"
	"os"
	"strings"
	"testing"
	"time"

	"github.com/brutella/hc/accessory"
	"github.com/brutella/hc/db"
	"github.com/brutella/hc/log"
	"golang.org/x/crypto/chacha20poly1305"
	"golang.org/x/crypto/curve25519"
	"golang.org/x/crypto/hkdf"
	"crypto/sha512"
)

const h5Canary = "CANARY-7f3a9c"

type h5Rig struct {
	t       *testing.T
	tr      *ipTransport
	acc     *accessory.Switch
	addr    string
	dir     string
	updates chan string // remote update callbacks
	ctrlPub ed25519.PublicKey
	ctrlKey ed25519.PrivateKey
	ctrlID  string
}

func h5NewRig(t *testing.T) *h5Rig {
	_ = log.Info
	dir, err := ioutil.TempDir(os.Getenv("TMPDIR"), "h5c01")
	if err != nil {
		t.Fatal(err)
	}
	acc := accessory.NewSwitch(accessory.Info{Name: "Lamp", SerialNumber: h5Canary, Manufacturer: h5Canary, Model: h5Canary})
	ln, err := net.Listen("tcp", "127.0.0.1:0")
	if err != nil {
		t.Fatal(err)
	}
	_, port, _ := net.SplitHostPort(ln.Addr().String())
	ln.Close()
	tr, err := NewIPTransport(Config{StoragePath: dir, Pin: "11122333", Port: port}, acc.Accessory)
	if err != nil {
		t.Fatal(err)
	}
	tr.CameraSnapshotReq = func(w, h uint) (*image.Image, error) {
		var img image.Image = image.NewRGBA(image.Rect(0, 0, 4, 4))
		return &img, nil
	}
	r := &h5Rig{t: t, tr: tr, acc: acc, dir: dir, updates: make(chan string, 1000)}
	acc.Switch.On.OnValueRemoteUpdate(func(on bool) { r.updates <- fmt.Sprint("on=", on) })
	acc.OnIdentify(func() {})
	r.ctrlPub, r.ctrlKey, _ = ed25519.GenerateKey(rand.Reader)
	r.ctrlID = "AAAAAAAA-BBBB-CCCC-DDDD-EEEEEEEEEEEE"
	if err := tr.database.SaveEntity(db.NewEntity(r.ctrlID, r.ctrlPub, nil)); err != nil {
		t.Fatal(err)
	}
	go tr.Start()
	r.addr = "127.0.0.1:" + port
	for i := 0; i < 500; i++ {
		if c, err := net.Dial("tcp", r.addr); err == nil {
			c.Close()
			break
		}
		time.Sleep(5 * time.Millisecond)
	}
	return r
}

func (r *h5Rig) stop() {
	<-r.tr.Stop()
	os.RemoveAll(r.dir)
}

// ---- peer

type h5Peer struct {
	c        net.Conn
	br       *bufio.Reader
	enc      bool
	wkey     []byte
	rkey     []byte
	wcnt     uint64
	rcnt     uint64
	plainbuf bytes.Buffer
}

func h5Dial(t *testing.T, addr string) *h5Peer {
	c, err := net.Dial("tcp", addr)
	if err != nil {
		t.Fatal(err)
	}
	p := &h5Peer{c: c}
	p.br = bufio.NewReader(c)
	return p
}

func h5hkdf(secret, salt, info []byte) []byte {
	out := make([]byte, 32)
	io.ReadFull(hkdf.New(sha512.New, secret, salt, info), out)
	return out
}

func h5seal(key []byte, nonce []byte, msg, aad []byte) []byte {
	a, _ := chacha20poly1305.New(key)
	var n [12]byte
	copy(n[12-len(nonce):], nonce)
	return a.Seal(nil, n[:], msg, aad)
}

func h5open(key []byte, nonce []byte, ct, aad []byte) ([]byte, error) {
	a, _ := chacha20poly1305.New(key)
	var n [12]byte
	copy(n[12-len(nonce):], nonce)
	return a.Open(nil, n[:], ct, aad)
}

func (p *h5Peer) frame(key []byte, cnt *uint64, b []byte) []byte {
	var out bytes.Buffer
	for len(b) > 0 {
		n := len(b)
		if n > 1024 {
			n = 1024
		}
		var l [2]byte
		binary.LittleEndian.PutUint16(l[:], uint16(n))
		var nonce [8]byte
		binary.LittleEndian.PutUint64(nonce[:], *cnt)
		*cnt++
		out.Write(l[:])
		out.Write(h5seal(key, nonce[:], b[:n], l[:]))
		b = b[n:]
	}
	return out.Bytes()
}

// send writes raw request bytes (encrypted when the peer holds session keys)
func (p *h5Peer) send(raw []byte) error {
	if p.enc {
		raw = p.frame(p.wkey, &p.wcnt, raw)
	}
	p.c.SetWriteDeadline(time.Now().Add(2 * time.Second))
	_, err := p.c.Write(raw)
	return err
}

// reader over the (possibly encrypted) stream
type h5dec struct{ p *h5Peer }

func (d h5dec) Read(b []byte) (int, error) {
	p := d.p
	if !p.enc {
		return p.br.Read(b)
	}
	if p.plainbuf.Len() == 0 {
		var l [2]byte
		if _, err := io.ReadFull(p.br, l[:]); err != nil {
			return 0, err
		}
		n := int(binary.LittleEndian.Uint16(l[:]))
		ct := make([]byte, n+16)
		if _, err := io.ReadFull(p.br, ct); err != nil {
			return 0, err
		}
		var nonce [8]byte
		binary.LittleEndian.PutUint64(nonce[:], p.rcnt)
		p.rcnt++
		pt, err := h5open(p.rkey, nonce[:], ct, l[:])
		if err != nil {
			return 0, fmt.Errorf("peer: frame does not authenticate: %v", err)
		}
		p.plainbuf.Write(pt)
	}
	return p.plainbuf.Read(b)
}

// roundtrip sends a request and reads one HTTP response (skipping EVENT messages, which are returned too)
func (p *h5Peer) roundtrip(method, path, ctype string, body []byte, extra ...string) (status int, respBody []byte, events []string, err error) {
	var req bytes.Buffer
	fmt.Fprintf(&req, "%s %s HTTP/1.1\r\nHost: lamp.local\r\n", method, path)
	if body != nil {
		fmt.Fprintf(&req, "Content-Type: %s\r\nContent-Length: %d\r\n", ctype, len(body))
	}
	for _, e := range extra {
		req.WriteString(e + "\r\n")
	}
	req.WriteString("\r\n")
	req.Write(body)
	if err = p.send(req.Bytes()); err != nil {
		return
	}
	return p.readResponse(method)
}

func (p *h5Peer) readResponse(method string) (status int, respBody []byte, events []string, err error) {
	p.c.SetReadDeadline(time.Now().Add(2 * time.Second))
	rd := bufio.NewReader(h5dec{p})
	for {
		// peek the protocol
		var line []byte
		line, err = rd.Peek(6)
		if err != nil {
			return
		}
		isEvent := string(line) == "EVENT/"
		var raw bytes.Buffer
		tee := io.TeeReader(rd, &raw)
		_ = tee
		var resp *http.Response
		if isEvent {
			// rewrite the protocol
			hdr, _ := rd.ReadString('\n')
			hdr = strings.Replace(hdr, "EVENT/1.0", "HTTP/1.0", 1)
			resp, err = http.ReadResponse(bufio.NewReader(io.MultiReader(strings.NewReader(hdr), rd)), nil)
			if err != nil {
				return
			}
			b, _ := ioutil.ReadAll(resp.Body)
			events = append(events, string(b))
			continue
		}
		resp, err = http.ReadResponse(rd, &http.Request{Method: method})
		if err != nil {
			return
		}
		respBody, err = ioutil.ReadAll(resp.Body)
		status = resp.StatusCode
		// whatever was read ahead must be kept: put the rest back
		if rd.Buffered() > 0 {
			rest, _ := rd.Peek(rd.Buffered())
			var nb bytes.Buffer
			nb.Write(rest)
			nb.Write(p.plainbuf.Bytes())
			p.plainbuf = nb
			if !p.enc {
				p.br = bufio.NewReader(io.MultiReader(bytes.NewReader(append([]byte{}, rest...)), p.br))
			}
		}
		return
	}
}

// drainEvents reads EVENT messages for d
func (p *h5Peer) drain(d time.Duration) []byte {
	p.c.SetReadDeadline(time.Now().Add(d))
	var out bytes.Buffer
	b := make([]byte, 4096)
	for {
		n, err := (h5dec{p}).Read(b)
		out.Write(b[:n])
		if err != nil {
			break
		}
	}
	return out.Bytes()
}

// ---- tlv8 of the peer (independent)
func h5tlv(items ...interface{}) []byte {
	var out bytes.Buffer
	for i := 0; i < len(items); i += 2 {
		tag := byte(items[i].(int))
		var v []byte
		switch x := items[i+1].(type) {
		case []byte:
			v = x
		case string:
			v = []byte(x)
		case int:
			v = []byte{byte(x)}
		}
		if len(v) == 0 {
			out.Write([]byte{tag, 0})
		}
		for len(v) > 0 {
			n := len(v)
			if n > 255 {
				n = 255
			}
			out.Write([]byte{tag, byte(n)})
			out.Write(v[:n])
			v = v[n:]
		}
	}
	return out.Bytes()
}

func h5untlv(b []byte) map[byte][]byte {
	m := map[byte][]byte{}
	for len(b) >= 2 {
		t, n := b[0], int(b[1])
		if len(b) < 2+n {
			break
		}
		m[t] = append(m[t], b[2:2+n]...)
		b = b[2+n:]
	}
	return m
}

const (
	h5Method = 0
	h5User   = 1
	h5Salt   = 2
	h5PK     = 3
	h5Proof  = 4
	h5Enc    = 5
	h5Seq    = 6
	h5Err    = 7
	h5Sig    = 10
)

// verify performs pair-verify with the given identity. forge alters what is signed / sent.
type h5VerifyOpt struct {
	user     string
	key      ed25519.PrivateKey
	badSig   bool
	skipM1   bool
	rawM3    []byte
	noSwitch bool
}

func (p *h5Peer) verify(o h5VerifyOpt) (m4 map[byte][]byte, status int, err error) {
	var priv [32]byte
	rand.Read(priv[:])
	pub, _ := curve25519.X25519(priv[:], curve25519.Basepoint)
	st, body, _, err := p.roundtrip("POST", "/pair-verify", "application/pairing+tlv8", h5tlv(h5Seq, 1, h5PK, pub))
	if err != nil || st != 200 {
		return nil, st, fmt.Errorf("M1: %v %v", st, err)
	}
	m2 := h5untlv(body)
	apub := m2[h5PK]
	if len(apub) != 32 {
		return m2, st, fmt.Errorf("M2 without key")
	}
	shared, _ := curve25519.X25519(priv[:], apub)
	ek := h5hkdf(shared, []byte("Pair-Verify-Encrypt-Salt"), []byte("Pair-Verify-Encrypt-Info"))
	var material []byte
	material = append(material, pub...)
	material = append(material, o.user...)
	material = append(material, apub...)
	sig := ed25519.Sign(o.key, material)
	if o.badSig {
		sig[3] ^= 1
	}
	inner := h5tlv(h5User, o.user, h5Sig, sig)
	ct := h5seal(ek, []byte("PV-Msg03"), inner, nil)
	m3 := h5tlv(h5Seq, 3, h5Enc, ct)
	if o.rawM3 != nil {
		m3 = o.rawM3
	}
	st, body, _, err = p.roundtrip("POST", "/pair-verify", "application/pairing+tlv8", m3)
	if err != nil {
		return nil, st, err
	}
	m4 = h5untlv(body)
	if st == 200 && len(m4[h5Err]) == 0 && len(m4[h5Seq]) == 1 && m4[h5Seq][0] == 4 && !o.noSwitch {
		p.enc = true
		p.wkey = h5hkdf(shared, []byte("Control-Salt"), []byte("Control-Write-Encryption-Key"))
		p.rkey = h5hkdf(shared, []byte("Control-Salt"), []byte("Control-Read-Encryption-Key"))
	}
	return m4, st, nil
}

// sharedKeys runs M1/M2 only and returns keys the peer can derive by itself
func (p *h5Peer) selfDerived() (w, r []byte, err error) {
	var priv [32]byte
	rand.Read(priv[:])
	pub, _ := curve25519.X25519(priv[:], curve25519.Basepoint)
	st, body, _, err := p.roundtrip("POST", "/pair-verify", "application/pairing+tlv8", h5tlv(h5Seq, 1, h5PK, pub))
	if err != nil || st != 200 {
		return nil, nil, fmt.Errorf("M1: %v %v", st, err)
	}
	apub := h5untlv(body)[h5PK]
	shared, _ := curve25519.X25519(priv[:], apub)
	return h5hkdf(shared, []byte("Control-Salt"), []byte("Control-Write-Encryption-Key")), h5hkdf(shared, []byte("Control-Salt"), []byte("Control-Read-Encryption-Key")), nil
}

func TestHunt5C01_Sanity(t *testing.T) {
	r := h5NewRig(t)
	defer r.stop()
	p := h5Dial(t, r.addr)
	st, body, _, err := p.roundtrip("GET", "/accessories", "", nil)
	if err != nil || st != 470 || bytes.Contains(body, []byte(h5Canary)) {
		t.Fatalf("unverified: %v %v %s", st, err, body)
	}
	m4, st, err := p.verify(h5VerifyOpt{user: r.ctrlID, key: r.ctrlKey})
	if err != nil || !p.enc {
		t.Fatalf("verify: %v %v %v", m4, st, err)
	}
	st, body, _, err = p.roundtrip("GET", "/accessories", "", nil)
	if err != nil || st != 200 || !bytes.Contains(body, []byte(h5Canary)) {
		t.Fatalf("verified: %v %v %s", st, err, body)
	}
	st, body, _, err = p.roundtrip("PUT", "/characteristics", "application/hap+json", []byte(fmt.Sprintf(`{"characteristics":[{"aid":1,"iid":%d,"value":true,"ev":true}]}`, r.acc.Switch.On.ID)))
	t.Logf("put: %v %v %s", st, err, body)
	select {
	case u := <-r.updates:
		t.Log(u)
	case <-time.After(time.Second):
		t.Fatal("no update")
	}
	st, body, _, err = p.roundtrip("POST", "/resource", "application/hap+json", []byte(`{"resource-type":"image","image-width":4,"image-height":4}`))
	t.Logf("resource: %v %v %d", st, err, len(body))
}

package hc

import (
	"bytes"
	"crypto/ed25519"
	"crypto/rand"
	"fmt"
	mrand "math/rand"
	"os"
	"sort"
	"strconv"
	"strings"
	"testing"
	"time"
)

func h5dbSnapshot(r *h5Rig) string {
	es, _ := r.tr.database.Entities()
	var s []string
	for _, e := range es {
		s = append(s, fmt.Sprintf("%q:%x:%d", e.Name, e.PublicKey, len(e.PrivateKey)))
	}
	sort.Strings(s)
	fs, _ := os.ReadDir(r.dir)
	for _, f := range fs {
		s = append(s, f.Name())
	}
	return strings.Join(s, "\n")
}

// Random histories of a peer without setup code and without a paired key, interleaved with a
// legitimate controller. Reference model: every protected request of the peer is refused (no 2xx),
// nothing it receives contains the canary or an EVENT, the switch changes only with the writes of the
// controller, the callbacks are those of the controller, the database does not change.
func TestHunt5C01_RandomHistories(t *testing.T) {
	seeds := 6
	steps := 400
	if s := os.Getenv("H5_SEEDS"); s != "" {
		seeds, _ = strconv.Atoi(s)
	}
	if s := os.Getenv("H5_STEPS"); s != "" {
		steps, _ = strconv.Atoi(s)
	}
	for seed := 1; seed <= seeds; seed++ {
		h5RunHistory(t, int64(seed), steps)
	}
}

func h5RunHistory(t *testing.T, seed int64, steps int) {
	rng := mrand.New(mrand.NewSource(seed))
	r := h5NewRig(t)
	defer r.stop()
	onID := r.acc.Switch.On.ID
	_, atkKey, _ := ed25519.GenerateKey(rand.Reader)
	atkPub := atkKey.Public().(ed25519.PublicKey)

	// legitimate controller
	// (the answer to the finish request is sometimes sent under the new keys already: known, not reported; retry)
	var ctl *h5Peer
	for try := 0; ; try++ {
		ctl = h5Dial(t, r.addr)
		if _, _, err := ctl.verify(h5VerifyOpt{user: r.ctrlID, key: r.ctrlKey}); err == nil && ctl.enc {
			break
		} else if try > 10 {
			t.Fatal("controller verify", err)
		}
		ctl.c.Close()
	}
	ctl.roundtrip("PUT", "/characteristics", "application/hap+json", []byte(fmt.Sprintf(`{"characteristics":[{"aid":1,"iid":%d,"ev":true}]}`, onID)))
	modelOn := false
	modelUpdates := 0
	dbBefore := h5dbSnapshot(r)

	var atk []*h5Peer
	newAtk := func() *h5Peer { p := h5Dial(t, r.addr); atk = append(atk, p); return p }
	newAtk()
	var trace []string
	fail := func(format string, a ...interface{}) {
		n := len(trace)
		if n > 12 {
			trace = trace[n-12:]
		}
		t.Fatalf("seed %d: %s\nlast steps:\n%s", seed, fmt.Sprintf(format, a...), strings.Join(trace, "\n"))
	}
	checkBytes := func(what string, b []byte) {
		if bytes.Contains(b, []byte(h5Canary)) {
			fail("%s: canary disclosed: %q", what, b)
		}
		if bytes.Contains(b, []byte("EVENT/")) {
			fail("%s: EVENT delivered to unverified connection: %q", what, b)
		}
	}
	protected := []string{"/accessories", "/characteristics", "/pairings", "/resource"}
	paths := func() string {
		base := protected[rng.Intn(len(protected))]
		switch rng.Intn(9) {
		case 0:
			return base + "?id=1." + fmt.Sprint(onID)
		case 1:
			return "http://lamp.local" + base
		case 2:
			return base + "?id=1.2,1.3,1.4,1.5,1." + fmt.Sprint(onID)
		case 3:
			return base + "#x"
		case 4:
			return base + "?meta=1&perms=1&type=1&ev=1&id=1.4"
		}
		return base
	}
	bodies := func() (string, []byte) {
		switch rng.Intn(6) {
		case 0:
			return "application/hap+json", []byte(fmt.Sprintf(`{"characteristics":[{"aid":1,"iid":%d,"value":%v}]}`, onID, rng.Intn(2) == 0))
		case 1:
			return "application/hap+json", []byte(fmt.Sprintf(`{"characteristics":[{"aid":1,"iid":%d,"ev":true}]}`, onID))
		case 2:
			return "application/pairing+tlv8", h5tlv(h5Seq, 1, h5Method, 3, h5User, "attacker", h5PK, []byte(atkPub), 11, 1)
		case 3:
			return "application/pairing+tlv8", h5tlv(h5Seq, 1, h5Method, 4, h5User, r.ctrlID)
		case 4:
			return "application/hap+json", []byte(`{"resource-type":"image","image-width":4,"image-height":4}`)
		}
		return "", nil
	}
	methods := []string{"GET", "PUT", "POST", "HEAD", "DELETE", "OPTIONS", "PATCH"}

	for step := 0; step < steps; step++ {
		p := atk[rng.Intn(len(atk))]
		op := rng.Intn(16)
		switch op {
		case 0, 1, 2, 3, 4: // protected request in the current state of the connection
			m := methods[rng.Intn(len(methods))]
			path := paths()
			ct, body := bodies()
			var extra []string
			if rng.Intn(4) == 0 {
				extra = append(extra, "X-Forwarded-For: 127.0.0.1", "Authorization: Basic AAAA")
			}
			st, rb, evs, err := p.roundtrip(m, path, ct, body, extra...)
			trace = append(trace, fmt.Sprintf("%d: atk%p %s %s -> %d %v %q", step, p, m, path, st, err, rb))
			checkBytes("response", rb)
			if len(evs) > 0 {
				fail("events on unverified connection %v", evs)
			}
			if err == nil && st >= 200 && st < 300 {
				fail("protected request answered %d: %q", st, rb)
			}
			if err != nil {
				p.c.Close()
				*p = *h5Dial(t, r.addr)
			}
		case 5: // M1 only
			_, _, err := p.selfDerived()
			trace = append(trace, fmt.Sprintf("%d: atk%p M1 %v", step, p, err))
			if err != nil {
				p.c.Close()
				*p = *h5Dial(t, r.addr)
			}
		case 6: // complete exchange with a wrong identity
			o := h5VerifyOpt{user: r.ctrlID, key: atkKey, noSwitch: true}
			switch rng.Intn(6) {
			case 0:
				o.user = "attacker"
			case 1:
				o.key = r.ctrlKey
				o.badSig = true
			case 2:
				o.user = r.tr.device.Name()
			case 3:
				o.rawM3 = h5tlv(h5Seq, 3, h5Enc, []byte("short"))
			case 4:
				o.user = ""
			}
			m4, st, err := p.verify(o)
			trace = append(trace, fmt.Sprintf("%d: atk%p verify %q -> %v %d %v", step, p, o.user, m4, st, err))
			if err == nil && st == 200 && len(m4[h5Err]) == 0 {
				fail("pair-verify accepted a peer without a paired key: %v", m4)
			}
			if err != nil {
				p.c.Close()
				*p = *h5Dial(t, r.addr)
			}
		case 7: // M3 without M1
			st, rb, _, err := p.roundtrip("POST", "/pair-verify", "application/pairing+tlv8", h5tlv(h5Seq, 3, h5Enc, bytes.Repeat([]byte{1}, 40)))
			trace = append(trace, fmt.Sprintf("%d: atk%p M3 alone -> %d %v %x", step, p, st, err, rb))
			if err != nil {
				p.c.Close()
				*p = *h5Dial(t, r.addr)
			}
		case 8: // ciphertext under self-derived keys, then look at what comes back
			w, rk, err := p.selfDerived()
			if err == nil {
				var cnt uint64
				req := fmt.Sprintf("GET /accessories HTTP/1.1\r\nHost: x\r\n\r\n")
				p.c.Write(p.frame(w, &cnt, []byte(req)))
				p.c.SetReadDeadline(time.Now().Add(60 * time.Millisecond))
				buf := make([]byte, 65536)
				n, _ := p.c.Read(buf)
				trace = append(trace, fmt.Sprintf("%d: atk%p self-derived ciphertext -> %d bytes %q", step, p, n, buf[:h5min(n, 60)]))
				checkBytes("raw", buf[:n])
				// try to decrypt with the derived read key
				if n > 18 {
					if pt, err := h5open(rk, make([]byte, 8), buf[2:n], buf[:2]); err == nil {
						fail("accessory answered under self-derived keys: %q", pt)
					}
				}
			}
			p.c.Close()
			*p = *h5Dial(t, r.addr)
		case 9: // pair-setup without the code
			st, rb, _, err := p.roundtrip("POST", "/pair-setup", "application/pairing+tlv8", h5tlv(h5Method, 0, h5Seq, 1))
			trace = append(trace, fmt.Sprintf("%d: atk%p setup M1 -> %d %v", step, p, st, err))
			if err == nil && st == 200 {
				B := h5untlv(rb)[h5PK]
				A := make([]byte, 384)
				rand.Read(A)
				switch rng.Intn(3) {
				case 0:
					A = make([]byte, 384)
				case 1:
					A = B
				}
				proof := make([]byte, 64)
				st, rb, _, err = p.roundtrip("POST", "/pair-setup", "application/pairing+tlv8", h5tlv(h5Seq, 3, h5PK, A, h5Proof, proof))
				trace = append(trace, fmt.Sprintf("%d: atk%p setup M3 -> %d %v %x", step, p, st, err, rb))
				if err == nil && st == 200 && len(h5untlv(rb)[h5Err]) == 0 {
					fail("pair-setup M3 accepted")
				}
			}
			if rng.Intn(2) == 0 {
				// M5 out of order, sealed under the all-zero key the session starts with
				inner := h5tlv(h5User, "attacker", h5PK, []byte(atkPub), h5Sig, make([]byte, 64))
				ct := h5seal(make([]byte, 32), []byte("PS-Msg05"), inner, nil)
				st, rb, _, err = p.roundtrip("POST", "/pair-setup", "application/pairing+tlv8", h5tlv(h5Seq, 5, h5Enc, ct))
				trace = append(trace, fmt.Sprintf("%d: atk%p setup M5 -> %d %v %x", step, p, st, err, rb))
				if err == nil && st == 200 && len(h5untlv(rb)[h5Err]) == 0 {
					fail("pair-setup M5 accepted")
				}
			}
			if err != nil {
				p.c.Close()
				*p = *h5Dial(t, r.addr)
			}
		case 10: // pipelined: failed finish and a protected request in one segment
			var priv [32]byte
			rand.Read(priv[:])
			raw := func(path string, body []byte) string {
				return fmt.Sprintf("POST %s HTTP/1.1\r\nHost: x\r\nContent-Length: %d\r\n\r\n%s", path, len(body), body)
			}
			seg := raw("/pair-verify", h5tlv(h5Seq, 1, h5PK, priv[:])) + raw("/pair-verify", h5tlv(h5Seq, 3, h5Enc, bytes.Repeat([]byte{7}, 120))) + "GET /accessories HTTP/1.1\r\nHost: x\r\n\r\n" + "GET /characteristics?id=1.2 HTTP/1.1\r\nHost: x\r\n\r\n"
			p.c.Write([]byte(seg))
			b := p.drain(80 * time.Millisecond)
			trace = append(trace, fmt.Sprintf("%d: atk%p pipelined -> %d bytes", step, p, len(b)))
			checkBytes("pipelined", b)
			if bytes.Contains(b, []byte(`"accessories"`)) || bytes.Contains(b, []byte(`"value"`)) {
				fail("pipelined protected request served: %q", b)
			}
			p.c.Close()
			*p = *h5Dial(t, r.addr)
		case 11:
			if len(atk) < 5 {
				newAtk()
			}
		case 12:
			p.c.Close()
			*p = *h5Dial(t, r.addr)
		default: // the controller works
			v := rng.Intn(2) == 0
			st, rb, _, err := ctl.roundtrip("PUT", "/characteristics", "application/hap+json", []byte(fmt.Sprintf(`{"characteristics":[{"aid":1,"iid":%d,"value":%v}]}`, onID, v)))
			trace = append(trace, fmt.Sprintf("%d: ctl put %v -> %d %v %q", step, v, st, err, rb))
			if err != nil || st != 204 {
				fail("controller write refused: %d %v", st, err)
			}
			if v != modelOn {
				modelOn = v
				modelUpdates++
			}
			st, rb, _, err = ctl.roundtrip("GET", fmt.Sprintf("/characteristics?id=1.%d", onID), "", nil)
			want := "0"
			if modelOn {
				want = "1"
			}
			_ = want
			if err != nil || st != 200 || !(bytes.Contains(rb, []byte(fmt.Sprintf(`"value":%v`, modelOn))) || bytes.Contains(rb, []byte(`"value":`+want))) {
				fail("controller reads %d %v %q, model %v", st, err, rb, modelOn)
			}
		}

		// state after every step
		if got := r.acc.Switch.On.GetValue(); got != modelOn {
			fail("switch is %v, model %v", got, modelOn)
		}
		if s := h5dbSnapshot(r); s != dbBefore {
			fail("database changed:\n%s\n--- before\n%s", s, dbBefore)
		}
	}
	time.Sleep(50 * time.Millisecond)
	if n := len(r.updates); n != modelUpdates {
		fail("remote update callbacks %d, controller caused %d", n, modelUpdates)
	}
	// nothing may be pending on the attacker's connections
	for _, p := range atk {
		b := p.drain(30 * time.Millisecond)
		checkBytes("pending", b)
	}
}

func h5min(a, b int) int {
	if a < b {
		return a
	}
	return b
}

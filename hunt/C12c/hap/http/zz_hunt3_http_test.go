package http

import (
	"bytes"
	"encoding/json"
	"fmt"
	"math"
	"math/rand"
	"net"
	"net/http"
	"net/http/httptest"
	"sort"
	"strings"
	"sync"
	"testing"
	"time"

	"github.com/brutella/hc/accessory"
	"github.com/brutella/hc/characteristic"
	"github.com/brutella/hc/crypto"
	"github.com/brutella/hc/hap"
	"github.com/brutella/hc/service"
)

type zzAddr string

func (a zzAddr) Network() string { return "tcp" }
func (a zzAddr) String() string  { return string(a) }

type zzConn struct{}

func (zzConn) Read(b []byte) (int, error)         { return 0, nil }
func (zzConn) Write(b []byte) (int, error)        { return len(b), nil }
func (zzConn) Close() error                       { return nil }
func (zzConn) LocalAddr() net.Addr                { return zzAddr("127.0.0.1:1") }
func (zzConn) RemoteAddr() net.Addr               { return zzAddr("192.0.2.1:1234") }
func (zzConn) SetDeadline(t time.Time) error      { return nil }
func (zzConn) SetReadDeadline(t time.Time) error  { return nil }
func (zzConn) SetWriteDeadline(t time.Time) error { return nil }

func zzServer(t *testing.T) (*Server, *accessory.Accessory, []*characteristic.Characteristic) {
	acc := accessory.New(accessory.Info{Name: "x"}, accessory.TypeOther)
	names := []string{}
	for n := range zzAllCtors {
		names = append(names, n)
	}
	sort.Strings(names)
	svc := service.New("FFFF")
	var chars []*characteristic.Characteristic
	for _, n := range names {
		c := zzAllCtors[n]()
		svc.AddCharacteristic(c)
		chars = append(chars, c)
	}
	acc.AddService(svc)
	cont := accessory.NewContainer()
	if err := cont.AddAccessory(acc); err != nil {
		t.Fatal(err)
	}
	ctx := hap.NewContextForSecuredDevice(nil)
	sess := hap.NewSession(zzConn{})
	cr, err := crypto.NewSecureSessionFromSharedKey([32]byte{})
	if err != nil {
		t.Fatal(err)
	}
	sess.SetCryptographer(cr)
	sess.Decrypter()
	ctx.Set("192.0.2.1:1234", sess)
	s := testable(Config{Context: ctx, Container: cont, Mutex: &sync.Mutex{}})
	return s, acc, chars
}

func zzDo(s *Server, method, url, body string) *httptest.ResponseRecorder {
	r := httptest.NewRequest(method, url, strings.NewReader(body))
	r.RemoteAddr = "192.0.2.1:1234"
	w := httptest.NewRecorder()
	s.Mux.ServeHTTP(w, r)
	return w
}

func zzDechunk(b []byte) []byte { return b }

type zzJC struct {
	IID    uint64      `json:"iid"`
	Type   string      `json:"type"`
	Perms  []string    `json:"perms"`
	Value  interface{} `json:"value"`
	Format string      `json:"format"`
	Max    interface{} `json:"maxValue"`
	Min    interface{} `json:"minValue"`
}

func zzValidate(c zzJC) error {
	readable := false
	for _, p := range c.Perms {
		if p == "pr" {
			readable = true
		}
	}
	if !readable {
		if c.Value != nil {
			return fmt.Errorf("value on non-readable")
		}
		return nil
	}
	switch c.Format {
	case "float", "uint8", "uint16", "uint32", "uint64", "int32":
		f, ok := c.Value.(float64)
		if !ok {
			return fmt.Errorf("value %#v (%T) for %s", c.Value, c.Value, c.Format)
		}
		if mn, ok := c.Min.(float64); ok && f < mn {
			return fmt.Errorf("%v < %v", f, mn)
		}
		if mx, ok := c.Max.(float64); ok && f > mx {
			return fmt.Errorf("%v > %v", f, mx)
		}
		if c.Format != "float" && f != math.Trunc(f) {
			return fmt.Errorf("non integer %v", f)
		}
		if strings.HasPrefix(c.Format, "uint") && f < 0 {
			return fmt.Errorf("WIDTH %v", f)
		}
	case "bool":
		if _, ok := c.Value.(bool); !ok {
			return fmt.Errorf("value %#v for bool", c.Value)
		}
	case "string", "tlv8", "data":
		if _, ok := c.Value.(string); !ok {
			return fmt.Errorf("value %#v for %s", c.Value, c.Format)
		}
	default:
		return fmt.Errorf("format %q", c.Format)
	}
	return nil
}

func TestZZHunt3HTTP(t *testing.T) {
	s, acc, chars := zzServer(t)
	r := rand.New(rand.NewSource(7))
	raw := []string{
		`null`, `true`, `false`, `""`, `"abc"`, `"true"`, `"1"`, `"-1"`, `"1e999"`, `"NaN"`, `"-Inf"`, `"99999999999999999999999"`,
		`0`, `1`, `-1`, `0.5`, `-0.5`, `1e30`, `-1e30`, `1e308`, `-1e308`, `5e-324`, `255`, `256`, `65536`, `4294967295`, `4294967296`, `2147483648`, `-2147483649`,
		`9223372036854775807`, `9223372036854775808`, `18446744073709551615`, `18446744073709551616`, `-9223372036854775808`, `-9223372036854775809`,
		`[1,"x"]`, `{"a":1}`, `[]`, `{}`, `[null]`, `[[1],{"b":[2]}]`, `-0`, `-0.0`, `1E2`, `100.0000000001`, `99.99999999999999999`, `"\u0000"`, `"\ud800"`,
	}
	failures := map[string]bool{}
	for round := 0; round < 3000; round++ {
		// build a put with 1..3 entries
		n := 1 + r.Intn(3)
		var entries []string
		for i := 0; i < n; i++ {
			c := chars[r.Intn(len(chars))]
			v := raw[r.Intn(len(raw))]
			if r.Intn(4) == 0 {
				v = fmt.Sprintf("%v", float64(r.Intn(500)-200)+float64(r.Intn(2))*r.Float64())
			}
			e := fmt.Sprintf(`{"aid":%d,"iid":%d,"value":%s}`, acc.ID, c.ID, v)
			entries = append(entries, e)
			if r.Intn(3) == 0 {
				entries = append(entries, e) // repeated write of same value
			}
		}
		body := `{"characteristics":[` + strings.Join(entries, ",") + `]}`
		var w *httptest.ResponseRecorder
		func() {
			defer func() {
				if e := recover(); e != nil {
					t.Fatalf("panic on PUT %s: %v", body, e)
				}
			}()
			w = zzDo(s, "PUT", "/characteristics", body)
		}()
		if w.Code != 204 && w.Code != 207 && w.Code != 200 {
			t.Fatalf("PUT %s -> %d %s", body, w.Code, w.Body.String())
		}
		if round%10 != 0 {
			continue
		}
		w = zzDo(s, "GET", "/accessories", "")
		if w.Code != 200 {
			t.Fatalf("GET /accessories after %s -> %d %s", body, w.Code, w.Body.String())
		}
		var db struct {
			Accessories []struct {
				Services []struct {
					Characteristics []zzJC `json:"characteristics"`
				} `json:"services"`
			} `json:"accessories"`
		}
		if err := json.NewDecoder(bytes.NewReader(w.Body.Bytes())).Decode(&db); err != nil {
			t.Fatalf("decode: %v\n%s", err, w.Body.String()[:200])
		}
		for _, a := range db.Accessories {
			for _, sv := range a.Services {
				for _, c := range sv.Characteristics {
					if err := zzValidate(c); err != nil {
						k := fmt.Sprintf("%s %s: %v", c.Type, c.Format, err)
						if strings.Contains(k, "WIDTH") {
							continue
						}
						if !failures[k] {
							failures[k] = true
							t.Errorf("%s", k)
						}
					}
				}
			}
		}
		// typed getters via GET /characteristics
		ids := []string{}
		for _, c := range chars {
			if c.IsReadable() {
				ids = append(ids, fmt.Sprintf("%d.%d", acc.ID, c.ID))
			}
		}
		w = zzDo(s, "GET", "/characteristics?id="+strings.Join(ids, ","), "")
		if w.Code != 200 {
			t.Fatalf("GET chars -> %d", w.Code)
		}
	}
	_ = http.StatusOK
}

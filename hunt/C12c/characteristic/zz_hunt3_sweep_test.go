package characteristic

import (
	"encoding/json"
	"fmt"
	"math"
	"math/rand"
	"sort"
	"testing"
)

func zzCheck(c *Characteristic) error {
	v := c.Value
	if v == nil {
		if c.IsReadable() {
			return fmt.Errorf("nil value on readable")
		}
		return nil
	}
	switch c.Format {
	case FormatFloat:
		f, ok := v.(float64)
		if !ok {
			return fmt.Errorf("type %T", v)
		}
		if math.IsNaN(f) || math.IsInf(f, 0) {
			return fmt.Errorf("nonfinite %v", f)
		}
		if mn, ok := c.MinValue.(float64); ok && f < mn {
			return fmt.Errorf("%v < min %v", f, mn)
		}
		if mx, ok := c.MaxValue.(float64); ok && f > mx {
			return fmt.Errorf("%v > max %v", f, mx)
		}
		if c.MinValue != nil {
			if _, ok := c.MinValue.(float64); !ok {
				return fmt.Errorf("min type %T", c.MinValue)
			}
		}
		if c.MaxValue != nil {
			if _, ok := c.MaxValue.(float64); !ok {
				return fmt.Errorf("max type %T", c.MaxValue)
			}
		}
	case FormatUInt8, FormatUInt16, FormatUInt32, FormatUInt64, FormatInt32:
		i, ok := v.(int)
		if !ok {
			return fmt.Errorf("type %T", v)
		}
		if mn, ok := c.MinValue.(int); ok && i < mn {
			return fmt.Errorf("%v < min %v", i, mn)
		}
		if mx, ok := c.MaxValue.(int); ok && i > mx {
			return fmt.Errorf("%v > max %v", i, mx)
		}
		if c.MinValue != nil {
			if _, ok := c.MinValue.(int); !ok {
				return fmt.Errorf("min type %T", c.MinValue)
			}
		}
		if c.MaxValue != nil {
			if _, ok := c.MaxValue.(int); !ok {
				return fmt.Errorf("max type %T", c.MaxValue)
			}
		}
		// width (known/borderline): report separately
		switch c.Format {
		case FormatUInt8, FormatUInt16, FormatUInt32, FormatUInt64:
			if i < 0 {
				return fmt.Errorf("WIDTH negative %d in %s", i, c.Format)
			}
		}
	case FormatBool:
		if _, ok := v.(bool); !ok {
			return fmt.Errorf("type %T", v)
		}
	case FormatString, FormatTLV8, FormatData:
		if _, ok := v.(string); !ok {
			return fmt.Errorf("type %T", v)
		}
	default:
		return fmt.Errorf("unknown format %q", c.Format)
	}
	if _, err := json.Marshal(c); err != nil {
		return fmt.Errorf("json: %v", err)
	}
	return nil
}

func zzValues(r *rand.Rand) []interface{} {
	arr := []interface{}{1.0, "x"}
	obj := map[string]interface{}{"a": 1.0}
	vals := []interface{}{
		nil, true, false, "", "abc", "true", "1", "-1", "1e999", "-1e999", "NaN", "Inf", "0x10", "99999999999999999999999", "-99999999999999999999999",
		"1.5", "1e3", " 5", "+5", "T", "t", "1_000",
		0.0, 1.0, -1.0, 0.5, -0.5, 1e30, -1e30, 1e308, -1e308, 5e-324, 255.0, 256.0, 65535.0, 65536.0, 4294967295.0, 4294967296.0,
		2147483647.0, 2147483648.0, -2147483648.0, -2147483649.0, 9223372036854775807.0, 9223372036854775808.0, 18446744073709551615.0, 18446744073709551616.0, -9223372036854775808.0, -9223372036854775809.0,
		arr, obj, []interface{}{}, map[string]interface{}{}, []interface{}{nil}, []interface{}{arr, obj},
		1, -1, int64(1) << 40, uint64(math.MaxUint64), int64(math.MinInt64), float32(1.5), uint8(7), int8(-7), []byte("abc"),
	}
	for i := 0; i < 10; i++ {
		vals = append(vals, r.NormFloat64()*math.Pow(10, float64(r.Intn(40)-5)))
		vals = append(vals, float64(r.Intn(400)-150))
		vals = append(vals, float64(r.Intn(400)-150)+r.Float64())
	}
	return vals
}

var zzWidth int

func TestZZHunt3Sweep(t *testing.T) {
	defer func() { t.Logf("negative values in unsigned formats without a declared minimum (already recorded): %d", zzWidth) }()
	names := []string{}
	for n := range zzAllCtors {
		names = append(names, n)
	}
	sort.Strings(names)
	r := rand.New(rand.NewSource(1))
	vals := zzValues(r)
	for _, n := range names {
		func() {
			c := zzAllCtors[n]()
			if err := zzCheck(c); err != nil {
				t.Errorf("%s initial: %v (value %#v)", n, err, c.Value)
			}
			bad := map[string]bool{}
			defer func() {
				if e := recover(); e != nil {
					t.Errorf("%s panic %v", n, e)
				}
			}()
			for _, perm := range [][]string{nil, PermsAll()} {
				if perm != nil {
					c.Perms = perm
				}
				for k := 0; k < 600; k++ {
					v := vals[r.Intn(len(vals))]
					if k < len(vals) {
						v = vals[k]
					}
					op := r.Intn(3)
					switch op {
					case 0:
						c.UpdateValue(v)
					case 1:
						c.UpdateValueFromConnection(v, TestConn)
					case 2:
						c.OnValueGet(func() interface{} { return v })
						c.GetValueFromConnection(TestConn)
						c.OnValueGet(nil)
					}
					// repeat
					if r.Intn(2) == 0 {
						c.UpdateValueFromConnection(v, TestConn)
					}
					if err := zzCheck(c); err != nil {
						key := fmt.Sprintf("%v", err)
						if len(key) > 5 && key[:5] == "WIDTH" {
							// already recorded: unsigned formats hold any int inside the declared range
							zzWidth++
							continue
						}
						if len(bad) < 4 && !bad[key] {
							bad[key] = true
							t.Errorf("%s (%s) after op %d with %#v: %v", n, c.Format, op, v, err)
						}
					}
				}
			}
		}()
	}
}

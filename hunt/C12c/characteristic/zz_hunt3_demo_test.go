package characteristic

import (
	"encoding/json"
	"fmt"
	"testing"
)

// zzNoPanic runs fn and reports a panic as an error.
func zzNoPanic(fn func()) (err error) {
	defer func() {
		if e := recover(); e != nil {
			err = fmt.Errorf("panic: %v", e)
		}
	}()
	fn()
	return nil
}

// DEMO 1 -- clause: "a characteristic's stored value always has the type its
// format declares ... Consequently the typed getters never fail".
//
// NewCharacteristic documents "If no permissions are specified, the value of
// PermsAll() is used", but Perms stays nil. A characteristic made with one of
// the exported typed constructors (NewString, NewBool, NewBytes set the format
// themselves) is therefore not readable, updateValue drops every value that is
// supplied, Value stays nil and the typed getter panics on the very value the
// application has just set.
func TestZZHunt3_RawConstructorDropsValueAndGetterPanics(t *testing.T) {
	s := NewString("F0000001-0000-1000-8000-0026BB765291")
	s.SetValue("hello")
	if err := zzNoPanic(func() {
		if is, want := s.GetValue(), "hello"; is != want {
			t.Errorf("String: is=%q want=%q", is, want)
		}
	}); err != nil {
		t.Errorf("NewString(..).SetValue(\"hello\"); GetValue(): %v (stored value %#v, format %q)", err, s.Value, s.Format)
	}

	b := NewBool("F0000002-0000-1000-8000-0026BB765291")
	b.SetValue(true)
	if err := zzNoPanic(func() {
		if is, want := b.GetValue(), true; is != want {
			t.Errorf("Bool: is=%v want=%v", is, want)
		}
	}); err != nil {
		t.Errorf("NewBool(..).SetValue(true); GetValue(): %v (stored value %#v, format %q)", err, b.Value, b.Format)
	}

	by := NewBytes("F0000003-0000-1000-8000-0026BB765291")
	by.SetValue([]byte{1, 2, 3})
	if err := zzNoPanic(func() {
		if is := by.GetValue(); len(is) != 3 {
			t.Errorf("Bytes: is=%v", is)
		}
	}); err != nil {
		t.Errorf("NewBytes(..).SetValue([1 2 3]); GetValue(): %v (stored value %#v, format %q)", err, by.Value, by.Format)
	}

	f := NewFloat("F0000004-0000-1000-8000-0026BB765291")
	f.Format = FormatFloat
	f.SetValue(1.5)
	if err := zzNoPanic(func() { f.GetValue() }); err != nil {
		t.Errorf("NewFloat(..) format float; SetValue(1.5); GetValue(): %v (stored value %#v)", err, f.Value)
	}

	i := NewInt("F0000005-0000-1000-8000-0026BB765291")
	i.Format = FormatInt32
	i.SetValue(7)
	if err := zzNoPanic(func() { i.GetValue() }); err != nil {
		t.Errorf("NewInt(..) format int32; SetValue(7); GetValue(): %v (stored value %#v)", err, i.Value)
	}
}

// DEMO 2 -- clause: "a characteristic's stored value ... lies within its
// declared minimum and maximum" (and the served attribute database shows it).
//
// The range setters only store the bound. A value that was stored before the
// range was declared stays outside of it until the next update.  This is the
// order an application uses to adapt a stock characteristic to its hardware
// (e.g. a colour temperature range of 153..454 mired, a sensor of 10..40 °C).
func TestZZHunt3_RangeDeclaredAfterValue(t *testing.T) {
	ct := NewColorTemperature() // 140..500, value 140
	ct.SetMinValue(153)
	ct.SetMaxValue(454)
	if v, min := ct.GetValue(), ct.GetMinValue(); v < min {
		b, _ := json.Marshal(ct.Characteristic)
		t.Errorf("ColorTemperature value %d below declared minimum %d; served as %s", v, min, b)
	}

	temp := NewCurrentTemperature() // 0..100, value 0
	temp.SetMinValue(10)
	temp.SetMaxValue(40)
	if v, min := temp.GetValue(), temp.GetMinValue(); v < min {
		b, _ := json.Marshal(temp.Characteristic)
		t.Errorf("CurrentTemperature value %v below declared minimum %v; served as %s", v, min, b)
	}

	// history: a remote write inside the old range, then the range is narrowed
	br := NewBrightness() // 0..100
	br.UpdateValueFromConnection(float64(80), TestConn)
	br.SetMaxValue(50)
	if v, max := br.GetValue(), br.GetMaxValue(); v > max {
		t.Errorf("Brightness value %d above declared maximum %d", v, max)
	}
	// ... and writing the clamped value does not repair anything when it
	// happens to be what the application believes is stored already: nothing
	// to show here, the next update of a different value repairs it.
}

// DEMO 3 (borderline) -- clause: "the typed getters never fail"; quantifier
// "for every characteristic constructor".
//
// NewInt and NewFloat return typed characteristics without a format
// (NewString, NewBool and NewBytes do set theirs). Until the application sets
// Format, convert() takes the default branch and stores whatever a controller
// sends: the typed getter and the typed OnValueRemoteUpdate callback panic, and
// the second write of the same array panics in the comparison of two
// uncomparable values (the failure fix 9c7c6ac removed for string formats).
func TestZZHunt3_TypedConstructorWithoutFormat(t *testing.T) {
	f := NewFloat("F0000006-0000-1000-8000-0026BB765291")
	f.Perms = PermsAll()
	f.SetValue(1.5)
	f.UpdateValueFromConnection("abc", TestConn)
	if err := zzNoPanic(func() { f.GetValue() }); err != nil {
		t.Errorf("NewFloat: remote write of \"abc\": %v (stored %#v)", err, f.Value)
	}

	i := NewInt("F0000007-0000-1000-8000-0026BB765291")
	i.Perms = PermsAll()
	i.SetValue(1)
	i.UpdateValueFromConnection(float64(2), TestConn) // what every JSON number is
	if err := zzNoPanic(func() { i.GetValue() }); err != nil {
		t.Errorf("NewInt: remote write of JSON number 2: %v (stored %#v)", err, i.Value)
	}

	arr := []interface{}{float64(1), "x"}
	if err := zzNoPanic(func() {
		i.UpdateValueFromConnection(arr, TestConn)
		i.UpdateValueFromConnection(arr, TestConn)
	}); err != nil {
		t.Errorf("NewInt: the same array written twice: %v", err)
	}
}

// DEMO 4 (borderline) -- clause: "lies within its declared ... maximum": the
// declared maximum length of a string (served as maxLen) is never applied.
func TestZZHunt3_MaxLenIsNotApplied(t *testing.T) {
	n := NewName()
	n.Perms = PermsAll()
	n.MaxLen = 8
	n.UpdateValueFromConnection("a name that is much longer than eight bytes", TestConn)
	if v := n.GetValue(); len(v) > n.MaxLen {
		b, _ := json.Marshal(n.Characteristic)
		t.Errorf("stored string of %d bytes, declared maxLen %d; served as %s", len(v), n.MaxLen, b)
	}
}

// DEMO 5 (borderline, documented behaviour) -- clause: "the typed getters never
// fail". The stock write-only characteristics never store a value ("nil for
// write-only characteristics"), so their typed getter panics at any time, also
// right after a controller has written a valid value.
func TestZZHunt3_TypedGetterOfWriteOnlyCharacteristic(t *testing.T) {
	id := NewIdentify()
	id.UpdateValueFromConnection(true, TestConn)
	if err := zzNoPanic(func() { id.GetValue() }); err != nil {
		t.Errorf("Identify.GetValue(): %v", err)
	}
	rk := NewRemoteKey()
	rk.UpdateValueFromConnection(float64(4), TestConn)
	if err := zzNoPanic(func() { rk.GetValue() }); err != nil {
		t.Errorf("RemoteKey.GetValue(): %v", err)
	}
	// the bound getters fail the same way when no bound is declared
	if err := zzNoPanic(func() { NewActive().GetMinValue() }); err != nil {
		t.Errorf("Active.GetMinValue(): %v", err)
	}
}

package crypto

import (
	"bytes"
	"crypto/sha512"
	"encoding/binary"
	"io"
	"io/ioutil"
	"math/rand"
	"testing"
	"testing/iotest"

	xchacha "golang.org/x/crypto/chacha20poly1305"
	xhkdf "golang.org/x/crypto/hkdf"
)

type h4ref struct {
	ek, dk []byte
	ec, dc uint64
}

func h4key(secret []byte, info string) []byte {
	k := make([]byte, 32)
	io.ReadFull(xhkdf.New(sha512.New, secret, []byte("Control-Salt"), []byte(info)), k)
	return k
}

// controller side reference
func h4newRefController(secret [32]byte) *h4ref {
	return &h4ref{ek: h4key(secret[:], "Control-Write-Encryption-Key"), dk: h4key(secret[:], "Control-Read-Encryption-Key")}
}

func (r *h4ref) seal(p []byte) []byte {
	var out []byte
	for len(p) > 0 {
		n := len(p)
		if n > 1024 {
			n = 1024
		}
		var nonce [12]byte
		binary.LittleEndian.PutUint64(nonce[4:], r.ec)
		r.ec++
		hdr := []byte{byte(n), byte(n >> 8)}
		a, _ := xchacha.New(r.ek)
		out = append(out, hdr...)
		out = a.Seal(out, nonce[:], p[:n], hdr)
		p = p[n:]
	}
	return out
}

func (r *h4ref) open(t *testing.T, w []byte) []byte {
	var out []byte
	for len(w) > 0 {
		if len(w) < 18 {
			t.Fatalf("ref: trailing %d bytes", len(w))
		}
		n := int(binary.LittleEndian.Uint16(w))
		if n > 1024 || n == 0 {
			t.Fatalf("ref: frame of %d bytes", n)
		}
		if len(w) < 18+n {
			t.Fatalf("ref: short frame")
		}
		var nonce [12]byte
		binary.LittleEndian.PutUint64(nonce[4:], r.dc)
		r.dc++
		a, _ := xchacha.New(r.dk)
		p, err := a.Open(nil, nonce[:], w[2:2+n+16], w[:2])
		if err != nil {
			t.Fatalf("ref: open: %v", err)
		}
		out = append(out, p...)
		w = w[18+n:]
	}
	return out
}

type h4eofReader struct {
	b []byte
	k int
}

func (r *h4eofReader) Read(p []byte) (int, error) {
	if len(r.b) == 0 {
		return 0, io.EOF
	}
	n := r.k
	if n > len(r.b) {
		n = len(r.b)
	}
	if n > len(p) {
		n = len(p)
	}
	copy(p, r.b[:n])
	r.b = r.b[n:]
	if len(r.b) == 0 {
		return n, io.EOF
	}
	return n, nil
}

type h4zeroReader struct {
	r io.Reader
	z bool
}

func (r *h4zeroReader) Read(p []byte) (int, error) {
	r.z = !r.z
	if r.z {
		return 0, nil
	}
	return r.r.Read(p)
}

func h4readers(b []byte, rnd *rand.Rand) map[string]io.Reader {
	m := map[string]io.Reader{
		"full":     bytes.NewReader(b),
		"buffer":   bytes.NewBuffer(append([]byte{}, b...)),
		"onebyte":  iotest.OneByteReader(bytes.NewReader(b)),
		"half":     iotest.HalfReader(bytes.NewReader(b)),
		"dataerr":  iotest.DataErrReader(bytes.NewReader(b)),
		"eof1":     &h4eofReader{append([]byte{}, b...), 1},
		"eof1024":  &h4eofReader{append([]byte{}, b...), 1024},
		"eof1023":  &h4eofReader{append([]byte{}, b...), 1023},
		"eof1025":  &h4eofReader{append([]byte{}, b...), 1025},
		"eofall":   &h4eofReader{append([]byte{}, b...), 1 << 20},
		"zero":     &h4zeroReader{r: bytes.NewReader(b)},
		"zerohalf": &h4zeroReader{r: iotest.HalfReader(bytes.NewReader(b))},
	}
	return m
}

func TestHunt4Reference(t *testing.T) {
	rnd := rand.New(rand.NewSource(4))
	var secret [32]byte
	rnd.Read(secret[:])
	lens := []int{}
	for i := 0; i <= 4097; i++ {
		lens = append(lens, i)
	}
	lens = append(lens, 5119, 5120, 5121, 8191, 8192, 8193, 65535, 65536, 65537, 100000, 1024*70, 1024*64+1)
	for _, name := range []string{"full", "buffer", "onebyte", "half", "dataerr", "eof1", "eof1024", "eof1023", "eof1025", "eofall", "zero", "zerohalf"} {
		rnd.Read(secret[:])
		acc, _ := NewSecureSessionFromSharedKey(secret)
		ref := h4newRefController(secret)
		hcc, _ := NewSecureClientSessionFromSharedKey(secret)
		acc2, _ := NewSecureSessionFromSharedKey(secret)
		for _, l := range lens {
			if (name == "onebyte" || name == "eof1") && l > 4097 && l < 60000 {
				continue
			}
			p := make([]byte, l)
			rnd.Read(p)
			orig := append([]byte{}, p...)
			// accessory -> reference controller
			er, err := acc.Encrypt(h4readers(p, rnd)[name])
			if err != nil {
				t.Fatalf("%s/%d: %v", name, l, err)
			}
			wire, _ := ioutil.ReadAll(er)
			// expected wire
			// ref decrypt uses dk = Control-Read key
			got := ref.open(t, wire)
			if !bytes.Equal(got, orig) {
				t.Fatalf("%s/%d: acc->ref mismatch (got %d bytes)", name, l, len(got))
			}
			if !bytes.Equal(p, orig) {
				t.Fatalf("%s/%d: source modified", name, l)
			}
			// reference controller -> accessory, wire delivered through the chunking reader
			w2 := ref.seal(p)
			w2c := append([]byte{}, w2...)
			dr, err := acc.Decrypt(h4readers(w2, rnd)[name])
			if err != nil {
				t.Fatalf("%s/%d: decrypt %v", name, l, err)
			}
			got, _ = ioutil.ReadAll(dr)
			if !bytes.Equal(got, orig) {
				t.Fatalf("%s/%d: ref->acc mismatch (got %d bytes)", name, l, len(got))
			}
			if !bytes.Equal(w2, w2c) {
				t.Fatalf("%s/%d: wire modified by Decrypt", name, l)
			}
			// hc client -> hc accessory with wire byte-compare against a reference of the same counter
			er, _ = hcc.Encrypt(h4readers(p, rnd)[name])
			w3, _ := ioutil.ReadAll(er)
			dr, err = acc2.Decrypt(bytes.NewReader(w3))
			if err != nil {
				t.Fatalf("%s/%d: decrypt3 %v", name, l, err)
			}
			got, _ = ioutil.ReadAll(dr)
			if !bytes.Equal(got, orig) {
				t.Fatalf("%s/%d: hc->hc mismatch", name, l)
			}
		}
	}
}

// wire bytes equal to reference
func TestHunt4WireEqual(t *testing.T) {
	rnd := rand.New(rand.NewSource(5))
	var secret [32]byte
	rnd.Read(secret[:])
	hcc, _ := NewSecureClientSessionFromSharedKey(secret)
	ref := h4newRefController(secret)
	for i := 0; i < 3000; i++ {
		l := rnd.Intn(5000)
		if i%7 == 0 {
			l = 1024 * rnd.Intn(6)
		}
		p := make([]byte, l)
		rnd.Read(p)
		er, _ := hcc.Encrypt(iotest.HalfReader(bytes.NewReader(p)))
		w, _ := ioutil.ReadAll(er)
		if !bytes.Equal(w, ref.seal(p)) {
			t.Fatalf("msg %d len %d: wire differs", i, l)
		}
	}
}

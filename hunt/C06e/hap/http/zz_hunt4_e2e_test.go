package http

import (
	"bufio"
	"bytes"
	"context"
	"crypto/sha512"
	"encoding/binary"
	"encoding/json"
	"fmt"
	"io"
	"math/rand"
	"net"
	stdhttp "net/http"
	"strings"
	"sync"
	"testing"
	"time"

	"github.com/brutella/hc/accessory"
	"github.com/brutella/hc/crypto"
	"github.com/brutella/hc/db"
	"github.com/brutella/hc/event"
	"github.com/brutella/hc/hap"
	xchacha "golang.org/x/crypto/chacha20poly1305"
	xhkdf "golang.org/x/crypto/hkdf"
)

type h4peer struct {
	ek, dk []byte
	ec, dc uint64
	conn   net.Conn
	frames []int // plaintext lengths of the frames received
	pend   []byte
}

func h4key(secret []byte, info string) []byte {
	k := make([]byte, 32)
	io.ReadFull(xhkdf.New(sha512.New, secret, []byte("Control-Salt"), []byte(info)), k)
	return k
}

func (r *h4peer) seal(p []byte) []byte {
	var out []byte
	for len(p) > 0 {
		n := len(p)
		if n > 1024 {
			n = 1024
		}
		var nonce [12]byte
		binary.LittleEndian.PutUint64(nonce[4:], r.ec)
		r.ec++
		hdr := []byte{byte(n), byte(n >> 8)}
		a, _ := xchacha.New(r.ek)
		out = append(out, hdr...)
		out = a.Seal(out, nonce[:], p[:n], hdr)
		p = p[n:]
	}
	return out
}

// Read: the decrypted stream
func (r *h4peer) Read(p []byte) (int, error) {
	if len(r.pend) == 0 {
		var hdr [2]byte
		if _, err := io.ReadFull(r.conn, hdr[:]); err != nil {
			return 0, err
		}
		n := int(binary.LittleEndian.Uint16(hdr[:]))
		if n > 1024 || n == 0 {
			return 0, fmt.Errorf("frame of %d bytes", n)
		}
		body := make([]byte, n+16)
		if _, err := io.ReadFull(r.conn, body); err != nil {
			return 0, err
		}
		var nonce [12]byte
		binary.LittleEndian.PutUint64(nonce[4:], r.dc)
		r.dc++
		a, _ := xchacha.New(r.dk)
		pl, err := a.Open(nil, nonce[:], body, hdr[:])
		if err != nil {
			return 0, fmt.Errorf("frame %d: %v", r.dc-1, err)
		}
		r.frames = append(r.frames, n)
		r.pend = pl
	}
	n := copy(p, r.pend)
	r.pend = r.pend[n:]
	return n, nil
}

var h4iid int

func h4server(t *testing.T, nacc int) (*Server, hap.Context, *accessory.Container, func()) {
	database, err := db.NewTempDatabase()
	if err != nil {
		t.Fatal(err)
	}
	dev, err := hap.NewSecuredDevice("h4", "00102003", database)
	if err != nil {
		t.Fatal(err)
	}
	ctx := hap.NewContextForSecuredDevice(dev)
	cont := accessory.NewContainer()
	for i := 0; i < nacc; i++ {
		a := accessory.NewLightbulb(accessory.Info{Name: fmt.Sprintf("Lamp %d <&> ä€", i), SerialNumber: strings.Repeat("s", i%64+1), Manufacturer: "m", Model: "x"})
		if err := cont.AddAccessory(a.Accessory); err != nil {
			t.Fatal(err)
		}
		h4iid = int(a.Lightbulb.On.ID)
	}
	s := NewServer(Config{Port: "127.0.0.1:0", Context: ctx, Database: database, Container: cont, Device: dev, Mutex: &sync.Mutex{}, Emitter: event.NewEmitter()})
	c, cancel := context.WithCancel(context.Background())
	go s.ListenAndServe(c)
	return s, ctx, cont, cancel
}

func h4connect(t *testing.T, s *Server, ctx hap.Context) *h4peer {
	cli, err := net.Dial("tcp", "127.0.0.1:"+s.Port())
	if err != nil {
		t.Fatal(err)
	}
	var secret [32]byte
	rand.Read(secret[:])
	var sess hap.Session
	for i := 0; i < 200 && sess == nil; i++ {
		for _, c := range ctx.ActiveConnections() {
			if c.RemoteAddr().String() == cli.LocalAddr().String() {
				sess = ctx.GetSessionForConnection(c)
			}
		}
		time.Sleep(5 * time.Millisecond)
	}
	if sess == nil {
		t.Fatal("no session")
	}
	c, _ := crypto.NewSecureSessionFromSharedKey(secret)
	sess.SetCryptographer(c)
	sess.Decrypter()
	return &h4peer{ek: h4key(secret[:], "Control-Write-Encryption-Key"), dk: h4key(secret[:], "Control-Read-Encryption-Key"), conn: cli}
}

func (p *h4peer) send(req string, rnd *rand.Rand) {
	w := p.seal([]byte(req))
	for len(w) > 0 {
		n := len(w)
		if rnd != nil {
			n = 1 + rnd.Intn(1500)
			if n > len(w) {
				n = len(w)
			}
		}
		p.conn.Write(w[:n])
		w = w[n:]
		if rnd != nil && rnd.Intn(3) == 0 {
			time.Sleep(time.Millisecond)
		}
	}
}

func TestHunt4E2EAccessories(t *testing.T) {
	for _, nacc := range []int{1, 3, 10, 40, 149} {
		s, ctx, cont, cancel := h4server(t, nacc)
		p := h4connect(t, s, ctx)
		p.conn.SetDeadline(time.Now().Add(10 * time.Second))
		br := bufio.NewReader(p)
		want, _ := JSONEncode(cont)
		for round := 0; round < 3; round++ {
			p.send("GET /accessories HTTP/1.1\r\nHost: x\r\n\r\n", nil)
			resp, err := stdhttp.ReadResponse(br, nil)
			if err != nil {
				t.Fatalf("nacc %d: %v", nacc, err)
			}
			body, err := io.ReadAll(resp.Body)
			if err != nil {
				t.Fatalf("nacc %d: body: %v (%d bytes)", nacc, err, len(body))
			}
			if !bytes.Equal(body, want.Bytes()) {
				t.Fatalf("nacc %d: body differs: %d vs %d bytes", nacc, len(body), want.Len())
			}
			var v interface{}
			if err := json.Unmarshal(body, &v); err != nil {
				t.Fatalf("json: %v", err)
			}
		}
		t.Logf("nacc %d: body %d bytes, %d frames", nacc, want.Len(), len(p.frames))
		p.conn.Close()
		cancel()
	}
}

// requests of many sizes (long query strings, big PUT bodies), segmented at random, pipelined
func TestHunt4E2ERequests(t *testing.T) {
	s, ctx, _, cancel := h4server(t, 30)
	defer cancel()
	rnd := rand.New(rand.NewSource(11))
	p := h4connect(t, s, ctx)
	p.conn.SetDeadline(time.Now().Add(30 * time.Second))
	br := bufio.NewReader(p)
	for i := 0; i < 150; i++ {
		var req string
		var wantStatus int
		switch rnd.Intn(3) {
		case 0:
			// GET with a long id list
			n := 1 + rnd.Intn(400)
			ids := make([]string, n)
			for j := range ids {
				ids[j] = fmt.Sprintf("%d.%d", 1+rnd.Intn(30), h4iid)
			}
			req = "GET /characteristics?id=" + strings.Join(ids, ",") + " HTTP/1.1\r\nHost: x\r\n\r\n"
			wantStatus = 200
		case 1:
			n := 1 + rnd.Intn(300)
			var items []string
			for j := 0; j < n; j++ {
				items = append(items, fmt.Sprintf(`{"aid":%d,"iid":%d,"value":%v}`, 1+rnd.Intn(30), h4iid, rnd.Intn(2) == 0))
			}
			body := `{"characteristics":[` + strings.Join(items, ",") + `]}`
			// pad to hit frame boundaries
			if rnd.Intn(2) == 0 {
				hdr := fmt.Sprintf("PUT /characteristics HTTP/1.1\r\nHost: x\r\nContent-Length: %d\r\n\r\n", len(body))
				tot := len(hdr) + len(body)
				pad := (1024 - tot%1024) % 1024
				body += strings.Repeat(" ", pad)
				if len(fmt.Sprint(len(body))) != len(fmt.Sprint(len(body)-pad)) {
					body += " "
				}
			}
			req = fmt.Sprintf("PUT /characteristics HTTP/1.1\r\nHost: x\r\nContent-Length: %d\r\n\r\n%s", len(body), body)
			wantStatus = 204
		case 2:
			req = "GET /accessories HTTP/1.1\r\nHost: x\r\n\r\n"
			wantStatus = 200
		}
		nreq := 1
		if rnd.Intn(4) == 0 {
			// pipelined: the same request twice in one message
			req += req
			nreq = 2
		}
		go p.send(req, rand.New(rand.NewSource(int64(i))))
		for k := 0; k < nreq; k++ {
			resp, err := stdhttp.ReadResponse(br, nil)
			if err != nil {
				t.Fatalf("req %d (%d bytes): %v", i, len(req), err)
			}
			body, err := io.ReadAll(resp.Body)
			if err != nil {
				t.Fatalf("req %d: body: %v", i, err)
			}
			if resp.StatusCode != wantStatus {
				t.Fatalf("req %d (%d bytes): status %d, body %.200s", i, len(req), resp.StatusCode, body)
			}
			if len(body) > 0 {
				var v interface{}
				if err := json.Unmarshal(body, &v); err != nil {
					t.Fatalf("req %d: json: %v", i, err)
				}
			}
		}
		time.Sleep(2 * time.Millisecond)
	}
}

// unusual but legal requests: whatever net/http writes must arrive as authentic frames of <= 1024 bytes
func TestHunt4E2EUnusual(t *testing.T) {
	s, ctx, _, cancel := h4server(t, 20)
	defer cancel()
	put := fmt.Sprintf(`{"characteristics":[{"aid":1,"iid":%d,"value":true}]}`, h4iid)
	reqs := []string{
		fmt.Sprintf("PUT /characteristics HTTP/1.1\r\nHost: x\r\nExpect: 100-continue\r\nContent-Length: %d\r\n\r\n%s", len(put), put),
		fmt.Sprintf("PUT /characteristics HTTP/1.1\r\nHost: x\r\nTransfer-Encoding: chunked\r\n\r\n%x\r\n%s\r\n0\r\n\r\n", len(put), put),
		"GET /accessories HTTP/1.0\r\n\r\n",
		"GET /accessories HTTP/1.1\r\nHost: x\r\nConnection: close\r\n\r\n",
		"HEAD /accessories HTTP/1.1\r\nHost: x\r\n\r\n",
		"OPTIONS /accessories HTTP/1.1\r\nHost: x\r\n\r\n",
		"GET /accessories?" + strings.Repeat("a", 20000) + " HTTP/1.1\r\nHost: x\r\n\r\n",
		"GET /accessories HTTP/1.1\r\nHost: x\r\nX: " + strings.Repeat("a", 1<<20+10) + "\r\n\r\n",
		"BOGUS\r\n\r\n",
	}
	for i, req := range reqs {
		p := h4connect(t, s, ctx)
		p.conn.SetDeadline(time.Now().Add(3 * time.Second))
		go p.send(req, nil)
		br := bufio.NewReader(p)
		method := strings.SplitN(req, " ", 2)[0]
		for {
			resp, err := stdhttp.ReadResponse(br, &stdhttp.Request{Method: method})
			if err != nil {
				t.Fatalf("req %d: %v", i, err)
			}
			body, err := io.ReadAll(resp.Body)
			if err != nil {
				t.Fatalf("req %d: body %v", i, err)
			}
			t.Logf("req %d: %s, %d body bytes, close=%v", i, resp.Status, len(body), resp.Close)
			if resp.StatusCode != 100 {
				if resp.Close || resp.ProtoMinor == 0 {
					// the stream must end at a frame boundary
					if _, err := br.ReadByte(); err != io.EOF {
						t.Errorf("req %d: after the response: %v", i, err)
					}
				}
				break
			}
		}
		p.conn.Close()
	}
}

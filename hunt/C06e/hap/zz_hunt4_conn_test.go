package hap

import (
	"bufio"
	"bytes"
	"crypto/sha512"
	"encoding/binary"
	"fmt"
	"io"
	"math/rand"
	"net"
	"testing"
	"time"

	"github.com/brutella/hc/crypto"
	xchacha "golang.org/x/crypto/chacha20poly1305"
	xhkdf "golang.org/x/crypto/hkdf"
)

// ---- independent implementation of the controller's end of the framing ----

type h4peer struct {
	ek, dk []byte
	ec, dc uint64
}

func h4key(secret []byte, info string) []byte {
	k := make([]byte, 32)
	io.ReadFull(xhkdf.New(sha512.New, secret, []byte("Control-Salt"), []byte(info)), k)
	return k
}

func h4newPeer(secret [32]byte) *h4peer {
	return &h4peer{ek: h4key(secret[:], "Control-Write-Encryption-Key"), dk: h4key(secret[:], "Control-Read-Encryption-Key")}
}

func (r *h4peer) seal(p []byte) []byte {
	var out []byte
	for len(p) > 0 {
		n := len(p)
		if n > 1024 {
			n = 1024
		}
		var nonce [12]byte
		binary.LittleEndian.PutUint64(nonce[4:], r.ec)
		r.ec++
		hdr := []byte{byte(n), byte(n >> 8)}
		a, _ := xchacha.New(r.ek)
		out = append(out, hdr...)
		out = a.Seal(out, nonce[:], p[:n], hdr)
		p = p[n:]
	}
	return out
}

// openStream reads frames from r until want plaintext bytes have been collected
func (r *h4peer) openStream(rd io.Reader, want int) ([]byte, error) {
	var out []byte
	for len(out) < want {
		var hdr [2]byte
		if _, err := io.ReadFull(rd, hdr[:]); err != nil {
			return out, fmt.Errorf("header: %v", err)
		}
		n := int(binary.LittleEndian.Uint16(hdr[:]))
		if n > 1024 {
			return out, fmt.Errorf("frame of %d bytes", n)
		}
		body := make([]byte, n+16)
		if _, err := io.ReadFull(rd, body); err != nil {
			return out, fmt.Errorf("body: %v", err)
		}
		var nonce [12]byte
		binary.LittleEndian.PutUint64(nonce[4:], r.dc)
		r.dc++
		a, _ := xchacha.New(r.dk)
		p, err := a.Open(nil, nonce[:], body, hdr[:])
		if err != nil {
			return out, fmt.Errorf("frame %d: %v", r.dc-1, err)
		}
		out = append(out, p...)
	}
	return out, nil
}

// h4pair returns the accessory's hap connection with an installed secure session,
// the raw controller side socket and the reference peer
func h4pair(t *testing.T) (*Connection, net.Conn, *h4peer) {
	ln, err := net.Listen("tcp", "127.0.0.1:0")
	if err != nil {
		t.Fatal(err)
	}
	defer ln.Close()
	ch := make(chan net.Conn, 1)
	go func() {
		c, _ := ln.Accept()
		ch <- c
	}()
	cli, err := net.Dial("tcp", ln.Addr().String())
	if err != nil {
		t.Fatal(err)
	}
	srv := <-ch
	ctx := NewContextForSecuredDevice(nil)
	con := NewConnection(srv, ctx)
	var secret [32]byte
	rand.Read(secret[:])
	c, _ := crypto.NewSecureSessionFromSharedKey(secret)
	s := ctx.GetSessionForConnection(srv)
	s.SetCryptographer(c)
	s.Decrypter() // the keys become active
	return con, cli, h4newPeer(secret)
}

// Clause: "Every byte sequence written into one end of a secure session comes out
// identical at the other end, whatever its length (... multi-frame messages)".
// The accessory's end is written through a bufio.Writer exactly as net/http does
// (4096 byte buffer on top of the connection).
func TestHunt4WriteThroughBufio(t *testing.T) {
	for _, l := range []int{100, 4096, 4097, 5000, 9000} {
		l := l
		t.Run(fmt.Sprint(l), func(t *testing.T) {
			con, cli, peer := h4pair(t)
			defer con.Close()
			defer cli.Close()
			p := make([]byte, l)
			rand.Read(p)

			type res struct {
				b   []byte
				err error
			}
			done := make(chan res, 1)
			go func() {
				cli.SetReadDeadline(time.Now().Add(3 * time.Second))
				b, err := peer.openStream(cli, l)
				done <- res{b, err}
			}()

			var werr error
			func() {
				defer func() {
					if r := recover(); r != nil {
						werr = fmt.Errorf("panic: %v", r)
					}
				}()
				w := bufio.NewWriterSize(con, 4096)
				n, err := w.Write(p)
				if err == nil {
					err = w.Flush()
				}
				if err == nil && n != l {
					err = fmt.Errorf("Write returned %d for %d bytes", n, l)
				}
				werr = err
			}()
			r := <-done
			if werr != nil {
				t.Errorf("writing %d bytes: %v", l, werr)
			}
			if r.err != nil || !bytes.Equal(r.b, p) {
				t.Errorf("peer received %d of %d bytes, identical=%v, err=%v", len(r.b), l, bytes.Equal(r.b, p), r.err)
			}
		})
	}
}

type h4onlyReader struct{ io.Reader }

// Same clause, the payload handed over with io.Copy
func TestHunt4WriteIoCopy(t *testing.T) {
	for _, l := range []int{1, 100, 3000} {
		con, cli, peer := h4pair(t)
		p := make([]byte, l)
		rand.Read(p)
		done := make(chan error, 1)
		go func() {
			cli.SetReadDeadline(time.Now().Add(3 * time.Second))
			b, err := peer.openStream(cli, l)
			if err == nil && !bytes.Equal(b, p) {
				err = fmt.Errorf("differs")
			}
			done <- err
		}()
		n, err := io.Copy(con, h4onlyReader{bytes.NewReader(p)})
		if err != nil || n != int64(l) {
			t.Errorf("io.Copy of %d bytes: n=%d err=%v", l, n, err)
		}
		if err := <-done; err != nil {
			t.Errorf("peer: %v", err)
		}
		con.Close()
		cli.Close()
	}
}

// The plain statement: Write reports the bytes of the payload it has taken
func TestHunt4WriteCount(t *testing.T) {
	for _, l := range []int{0, 1, 1024, 1025, 4097} {
		con, cli, _ := h4pair(t)
		go io.Copy(io.Discard, cli)
		n, err := con.Write(make([]byte, l))
		if err != nil || n != l {
			t.Errorf("Write(%d bytes) = %d, %v", l, n, err)
		}
		con.Close()
		cli.Close()
	}
}

// controller -> accessory: random messages, random segmentation on the wire, random read sizes
func TestHunt4ReadStream(t *testing.T) {
	rnd := rand.New(rand.NewSource(7))
	for iter := 0; iter < 60; iter++ {
		con, cli, peer := h4pair(t)
		var all, wire []byte
		nmsg := 1 + rnd.Intn(6)
		for i := 0; i < nmsg; i++ {
			var l int
			switch rnd.Intn(4) {
			case 0:
				l = 1024 * (1 + rnd.Intn(4))
			case 1:
				l = 1 + rnd.Intn(10)
			default:
				l = 1 + rnd.Intn(5000)
			}
			p := make([]byte, l)
			rnd.Read(p)
			all = append(all, p...)
			wire = append(wire, peer.seal(p)...)
		}
		go func(wire []byte, seed int64) {
			r := rand.New(rand.NewSource(seed))
			for len(wire) > 0 {
				n := 1 + r.Intn(3000)
				if r.Intn(3) == 0 {
					n = 1 + r.Intn(20)
				}
				if n > len(wire) {
					n = len(wire)
				}
				cli.Write(wire[:n])
				wire = wire[n:]
				if r.Intn(2) == 0 {
					time.Sleep(time.Duration(r.Intn(3)) * time.Millisecond)
				}
			}
		}(wire, int64(iter))
		var got []byte
		con.SetReadDeadline(time.Now().Add(5 * time.Second))
		for len(got) < len(all) {
			sz := 1 + rnd.Intn(5000)
			if rnd.Intn(4) == 0 {
				sz = 1
			}
			if rnd.Intn(10) == 0 {
				sz = 0
			}
			b := make([]byte, sz)
			if rnd.Intn(5) == 0 {
				// a read which times out in the middle of whatever is arriving
				con.SetReadDeadline(time.Now().Add(time.Duration(rnd.Intn(2000)) * time.Microsecond))
			} else {
				con.SetReadDeadline(time.Now().Add(5 * time.Second))
			}
			n, err := con.Read(b)
			got = append(got, b[:n]...)
			if err != nil {
				if ne, ok := err.(net.Error); ok && ne.Timeout() {
					continue
				}
				t.Fatalf("iter %d: read: %v after %d of %d", iter, err, len(got), len(all))
			}
		}
		if !bytes.Equal(got, all) {
			t.Fatalf("iter %d: stream differs", iter)
		}
		con.Close()
		cli.Close()
	}
}

// Same clause with the library's own chunked writer on top of the library's own
// connection: no panic and no error here, bytes of the payload are silently left out.
func TestHunt4ChunkedWriterOnConnection(t *testing.T) {
	con, cli, peer := h4pair(t)
	defer con.Close()
	defer cli.Close()
	l := 5000
	p := make([]byte, l)
	rand.Read(p)
	type res struct {
		b   []byte
		err error
	}
	done := make(chan res, 1)
	go func() {
		cli.SetReadDeadline(time.Now().Add(2 * time.Second))
		b, err := peer.openStream(cli, l)
		done <- res{b, err}
	}()
	var n int
	var err error
	func() {
		defer func() {
			if r := recover(); r != nil {
				err = fmt.Errorf("panic: %v", r)
			}
		}()
		n, err = NewChunkedWriter(con, 2048).Write(p)
	}()
	r := <-done
	if err != nil || n != l {
		t.Errorf("Write of %d bytes: n=%d err=%v", l, n, err)
	}
	if !bytes.Equal(r.b, p) {
		i := 0
		for i < len(r.b) && r.b[i] == p[i] {
			i++
		}
		t.Errorf("peer received %d of %d bytes (err=%v), first difference at offset %d", len(r.b), l, r.err, i)
	}
}

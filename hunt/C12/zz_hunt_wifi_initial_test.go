package characteristic

import (
	"fmt"
	"testing"
)

// C12: a readable tlv8 characteristic must hold a string from construction on,
// and its typed getter must not fail.
func TestZZHuntWifiConfigurationControlInitialValue(t *testing.T) {
	c := NewWifiConfigurationControl()
	if !c.IsReadable() || c.Format != FormatTLV8 {
		t.Fatalf("unexpected declaration: perms %v format %q", c.Perms, c.Format)
	}
	if _, ok := c.Value.(string); !ok {
		t.Errorf("stored value of readable %s characteristic is %#v (%T), want a string", c.Format, c.Value, c.Value)
	}
	func() {
		defer func() {
			if r := recover(); r != nil {
				t.Errorf("typed getter Bytes.GetValue panicked: %v", r)
			}
		}()
		_ = c.GetValue()
	}()

	// for comparison: every other readable tlv8 constructor is fine
	for name, v := range map[string]*Bytes{
		"SetupEndpoints": NewSetupEndpoints().Bytes,
		"DisplayOrder":   NewDisplayOrder().Bytes,
		"Logs":           NewLogs().Bytes,
	} {
		if _, ok := v.Value.(string); !ok {
			t.Errorf("%s: %s", name, fmt.Sprintf("%#v", v.Value))
		}
	}
}

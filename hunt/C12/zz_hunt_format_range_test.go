package characteristic

import (
	"encoding/json"
	"testing"
)

// C12 (reading "the type its format declares" as the integer type named by the
// format): a uint8/uint32/int32 characteristic without declared minValue/maxValue
// stores numbers that are not values of that type.
func TestZZHuntIntegerFormatRange(t *testing.T) {
	dec := func(s string) interface{} {
		var v interface{}
		if err := json.Unmarshal([]byte(s), &v); err != nil {
			t.Fatal(err)
		}
		return v
	}
	cases := []struct {
		name   string
		c      *Characteristic
		json   string
		lo, hi float64
	}{
		{"Active(uint8) <- -1", NewActive().Characteristic, `-1`, 0, 255},
		{"Active(uint8) <- 300", NewActive().Characteristic, `300`, 0, 255},
		{"Active(uint8) <- 1e30", NewActive().Characteristic, `1e30`, 0, 255},
		{"LockTargetState(uint8) <- 65536", NewLockTargetState().Characteristic, `65536`, 0, 255},
		{"ActiveIdentifier(uint32,min 0) <- 4294967296", NewActiveIdentifier().Characteristic, `4294967296`, 0, 4294967295},
		{"TunnelConnectionTimeout(uint32) <- -1", NewTunnelConnectionTimeout().Characteristic, `-1`, 0, 4294967295},
		{"RotationDirection(int32) <- 4294967296", NewRotationDirection().Characteristic, `4294967296`, -2147483648, 2147483647},
	}
	for _, tc := range cases {
		tc.c.UpdateValueFromConnection(dec(tc.json), TestConn)
		i, ok := tc.c.Value.(int)
		if !ok {
			t.Errorf("%s: not an int: %#v", tc.name, tc.c.Value)
			continue
		}
		if float64(i) < tc.lo || float64(i) > tc.hi {
			b, _ := json.Marshal(tc.c)
			t.Errorf("%s: stored %d is not a value of format %s; served as %s", tc.name, i, tc.c.Format, b)
		}
	}
}

package hc

import (
	"bufio"
	"bytes"
	"encoding/json"
	"fmt"
	"image"
	"io"
	"io/ioutil"
	"net"
	nethttp "net/http"
	"strings"
	"sync"
	"sync/atomic"
	"testing"
	"time"

	"github.com/brutella/hc/accessory"
	"github.com/brutella/hc/crypto"
	"github.com/brutella/hc/crypto/chacha20poly1305"
	"github.com/brutella/hc/db"
	"github.com/brutella/hc/hap"
	"github.com/brutella/hc/hap/pair"
	"github.com/brutella/hc/util"
)

const huntCanary = "CANARY-7f3a91"

type huntRig struct {
	t         *testing.T
	tr        *ipTransport
	sw        *accessory.Switch
	port      string
	ctrl      hap.Device // legitimate, paired controller
	remoteUpd int32      // number of remote-update callbacks
	imgCalls  int32      // number of snapshot callbacks
	identify  int32
	onID      uint64
	nameID    uint64
}

func newHuntRig(t *testing.T) *huntRig {
	dir, err := ioutil.TempDir("", "huntc01")
	if err != nil {
		t.Fatal(err)
	}
	r := &huntRig{t: t}
	info := accessory.Info{Name: "HuntSwitch", SerialNumber: huntCanary, Manufacturer: "M", Model: "X"}
	r.sw = accessory.NewSwitch(info)
	r.sw.Switch.On.OnValueRemoteUpdate(func(bool) { atomic.AddInt32(&r.remoteUpd, 1) })
	r.sw.OnIdentify(func() { atomic.AddInt32(&r.identify, 1) })

	tr, err := NewIPTransport(Config{StoragePath: dir, Pin: "11122333"}, r.sw.Accessory)
	if err != nil {
		t.Fatal(err)
	}
	tr.CameraSnapshotReq = func(w, h uint) (*image.Image, error) {
		atomic.AddInt32(&r.imgCalls, 1)
		var img image.Image = image.NewRGBA(image.Rect(0, 0, 2, 2))
		return &img, nil
	}
	r.tr = tr
	r.onID = r.sw.Switch.On.ID
	r.nameID = r.sw.Info.SerialNumber.ID

	// the legitimate controller is already paired
	cdb, _ := db.NewTempDatabase()
	ctrl, err := hap.NewDevice("legit-controller", cdb)
	if err != nil {
		t.Fatal(err)
	}
	r.ctrl = ctrl
	if err := tr.database.SaveEntity(db.NewEntity(ctrl.Name(), ctrl.PublicKey(), nil)); err != nil {
		t.Fatal(err)
	}

	go tr.Start()
	// wait for the server
	deadline := time.Now().Add(5 * time.Second)
	for time.Now().Before(deadline) {
		if tr.server != nil && tr.config.servePort != 0 {
			break
		}
		time.Sleep(5 * time.Millisecond)
	}
	if tr.server == nil {
		t.Fatal("server did not start")
	}
	time.Sleep(50 * time.Millisecond)
	r.port = tr.server.Port()
	t.Cleanup(func() {
		select {
		case <-tr.Stop():
		case <-time.After(3 * time.Second):
		}
	})
	return r
}

// ---- a raw HAP client -------------------------------------------------

type huntClient struct {
	c   net.Conn
	br  *bufio.Reader
	sec crypto.Cryptographer // nil = plaintext
	// decrypted stream
	dec bytes.Buffer
}

func (r *huntRig) dial() *huntClient {
	c, err := net.DialTimeout("tcp", "127.0.0.1:"+r.port, 2*time.Second)
	if err != nil {
		r.t.Fatal(err)
	}
	return &huntClient{c: c, br: bufio.NewReader(c)}
}

func huntWrap(c net.Conn) *huntClient { return &huntClient{c: c, br: bufio.NewReader(c)} }

func (h *huntClient) close() { h.c.Close() }

func huntReq(method, path, ctype string, body []byte) []byte {
	var b bytes.Buffer
	fmt.Fprintf(&b, "%s %s HTTP/1.1\r\nHost: hunt\r\n", method, path)
	if ctype != "" {
		fmt.Fprintf(&b, "Content-Type: %s\r\n", ctype)
	}
	if body != nil || method == "POST" || method == "PUT" {
		fmt.Fprintf(&b, "Content-Length: %d\r\n", len(body))
	}
	b.WriteString("\r\n")
	b.Write(body)
	return b.Bytes()
}

func (h *huntClient) sendRaw(b []byte) error {
	if h.sec != nil {
		enc, err := h.sec.Encrypt(bytes.NewBuffer(b))
		if err != nil {
			return err
		}
		b, _ = ioutil.ReadAll(enc)
	}
	h.c.SetWriteDeadline(time.Now().Add(2 * time.Second))
	_, err := h.c.Write(b)
	return err
}

// secReader decrypts frames on demand
type huntSecReader struct{ h *huntClient }

func (s huntSecReader) Read(p []byte) (int, error) {
	h := s.h
	for h.dec.Len() == 0 {
		// read one frame
		var hdr [2]byte
		if _, err := io.ReadFull(h.br, hdr[:]); err != nil {
			return 0, err
		}
		n := int(hdr[0]) | int(hdr[1])<<8
		frame := make([]byte, 2+n+16)
		copy(frame, hdr[:])
		if _, err := io.ReadFull(h.br, frame[2:]); err != nil {
			return 0, err
		}
		// a frame of full length makes Decrypt look for another one; feed frames singly
		out, err := h.sec.Decrypt(&huntOneFrame{b: frame})
		if err != nil {
			return 0, err
		}
		io.Copy(&h.dec, out)
	}
	return h.dec.Read(p)
}

type huntOneFrame struct{ b []byte }

func (o *huntOneFrame) Read(p []byte) (int, error) {
	if len(o.b) == 0 {
		return 0, io.EOF
	}
	n := copy(p, o.b)
	o.b = o.b[n:]
	return n, nil
}

type huntResp struct {
	proto  string
	status int
	body   []byte
	raw    []byte
}

// readMsg reads one HTTP response or EVENT message within the timeout.
func (h *huntClient) readMsg(timeout time.Duration) (*huntResp, error) {
	h.c.SetReadDeadline(time.Now().Add(timeout))
	var rd *bufio.Reader
	if h.sec != nil {
		rd = bufio.NewReader(huntSecReader{h})
	} else {
		rd = h.br
	}
	// peek the first line to learn the protocol
	line, err := rd.ReadString('\n')
	if err != nil {
		return &huntResp{raw: []byte(line)}, err
	}
	proto := strings.SplitN(line, " ", 2)[0]
	fixed := line
	if strings.HasPrefix(line, "EVENT/1.0") {
		fixed = "HTTP/1.0" + line[len("EVENT/1.0"):]
	}
	mr := bufio.NewReader(io.MultiReader(strings.NewReader(fixed), rd))
	resp, err := nethttp.ReadResponse(mr, nil)
	if err != nil {
		return &huntResp{raw: []byte(line)}, err
	}
	body, _ := ioutil.ReadAll(resp.Body)
	resp.Body.Close()
	if h.sec != nil {
		// push back what bufio read ahead of the message
		rest, _ := ioutil.ReadAll(io.LimitReader(mr, int64(mr.Buffered())))
		var nb bytes.Buffer
		nb.Write(rest)
		nb.Write(h.dec.Bytes())
		h.dec = nb
	} else if mr.Buffered() > 0 {
		rest, _ := mr.Peek(mr.Buffered())
		h.br = bufio.NewReader(io.MultiReader(bytes.NewReader(append([]byte{}, rest...)), h.br))
	}
	return &huntResp{proto: proto, status: resp.StatusCode, body: body, raw: append([]byte(line), body...)}, nil
}

func (h *huntClient) do(method, path, ctype string, body []byte) (*huntResp, error) {
	if err := h.sendRaw(huntReq(method, path, ctype, body)); err != nil {
		return nil, err
	}
	return h.readMsg(2 * time.Second)
}

// ---- pair-verify as a client --------------------------------------------

type huntVerify struct {
	vs *pair.VerifySession
	// server reply to M1
	serverPK []byte
	m2       util.Container
}

func (h *huntClient) verifyM1(pk []byte) (*huntResp, util.Container, error) {
	in := util.NewTLV8Container()
	in.SetByte(pair.TagPairingMethod, 0)
	in.SetByte(pair.TagSequence, pair.VerifyStepStartRequest.Byte())
	in.SetBytes(pair.TagPublicKey, pk)
	resp, err := h.do("POST", "/pair-verify", hap.HTTPContentTypePairingTLV8, in.BytesBuffer().Bytes())
	if err != nil {
		return resp, nil, err
	}
	out, err := util.NewTLV8ContainerFromReader(bytes.NewBuffer(resp.body))
	return resp, out, err
}

func (h *huntClient) verifyM3(key []byte, username string, signature []byte) (*huntResp, util.Container, error) {
	sub := util.NewTLV8Container()
	sub.SetString(pair.TagUsername, username)
	sub.SetBytes(pair.TagSignature, signature)
	enc, mac, _ := chacha20poly1305.EncryptAndSeal(key, []byte("PV-Msg03"), sub.BytesBuffer().Bytes(), nil)
	return h.verifyM3Raw(append(enc, mac[:]...))
}

func (h *huntClient) verifyM3Raw(data []byte) (*huntResp, util.Container, error) {
	in := util.NewTLV8Container()
	in.SetByte(pair.TagSequence, pair.VerifyStepFinishRequest.Byte())
	in.SetBytes(pair.TagEncryptedData, data)
	resp, err := h.do("POST", "/pair-verify", hap.HTTPContentTypePairingTLV8, in.BytesBuffer().Bytes())
	if err != nil {
		return resp, nil, err
	}
	out, err := util.NewTLV8ContainerFromReader(bytes.NewBuffer(resp.body))
	return resp, out, err
}

// legitVerify runs a complete, honest pair-verify and switches the client to ciphertext.
func (r *huntRig) legitVerify(h *huntClient) {
	t := r.t
	vs := pair.NewVerifySession()
	_, out, err := h.verifyM1(vs.PublicKey[:])
	if err != nil {
		t.Fatal("legit M1:", err)
	}
	var spk [32]byte
	copy(spk[:], out.GetBytes(pair.TagPublicKey))
	vs.GenerateSharedKeyWithOtherPublicKey(spk)
	vs.SetupEncryptionKey([]byte("Pair-Verify-Encrypt-Salt"), []byte("Pair-Verify-Encrypt-Info"))
	var material []byte
	material = append(material, vs.PublicKey[:]...)
	material = append(material, r.ctrl.Name()...)
	material = append(material, spk[:]...)
	sig, err := crypto.ED25519Signature(r.ctrl.PrivateKey(), material)
	if err != nil {
		t.Fatal(err)
	}
	_, out, err = h.verifyM3(vs.EncryptionKey[:], r.ctrl.Name(), sig)
	if err != nil {
		t.Fatal("legit M3:", err)
	}
	if out.GetByte(pair.TagErrCode) != 0 {
		t.Fatal("legit verify refused", out.GetByte(pair.TagErrCode))
	}
	sec, err := crypto.NewSecureClientSessionFromSharedKey(vs.SharedKey)
	if err != nil {
		t.Fatal(err)
	}
	h.sec = sec
	// the server flushes M4 before it stops its plaintext look-ahead read on this connection; a
	// controller that answers at once can lose a byte to it (robustness matter, not examined here)
	time.Sleep(50 * time.Millisecond)
}

// ---- state snapshot -------------------------------------------------------

type huntState struct {
	on        bool
	remoteUpd int32
	imgCalls  int32
	entities  string
}

func (r *huntRig) snapshot() huntState {
	es, _ := r.tr.database.Entities()
	var names []string
	for _, e := range es {
		names = append(names, fmt.Sprintf("%s=%x", e.Name, e.PublicKey))
	}
	return huntState{
		on:        r.sw.Switch.On.GetValue(),
		remoteUpd: atomic.LoadInt32(&r.remoteUpd),
		imgCalls:  atomic.LoadInt32(&r.imgCalls),
		entities:  strings.Join(names, ","),
	}
}

func (r *huntRig) putBody(val interface{}, ev interface{}) []byte {
	m := map[string]interface{}{"aid": 1, "iid": r.onID}
	if val != nil {
		m["value"] = val
	}
	if ev != nil {
		m["ev"] = ev
	}
	b, _ := json.Marshal(map[string]interface{}{"characteristics": []interface{}{m}})
	return b
}

func (r *huntRig) pairingsBody(method byte, name string, pk []byte) []byte {
	in := util.NewTLV8Container()
	in.SetByte(pair.TagSequence, 1)
	in.SetByte(pair.TagPairingMethod, method)
	in.SetString(pair.TagUsername, name)
	if pk != nil {
		in.SetBytes(pair.TagPublicKey, pk)
		in.SetByte(pair.TagPermission, 1)
	}
	return in.BytesBuffer().Bytes()
}

// protectedRequests is the battery of protected operations.
func (r *huntRig) protectedRequests() [][]byte {
	evil := bytes.Repeat([]byte{0x42}, 32)
	return [][]byte{
		huntReq("GET", "/accessories", "", nil),
		huntReq("GET", fmt.Sprintf("/characteristics?id=1.%d,1.%d", r.nameID, r.onID), "", nil),
		huntReq("PUT", "/characteristics", hap.HTTPContentTypeHAPJson, r.putBody(true, nil)),
		huntReq("PUT", "/characteristics", hap.HTTPContentTypeHAPJson, r.putBody(nil, true)),
		huntReq("POST", "/resource", hap.HTTPContentTypeHAPJson, []byte(`{"resource-type":"image","image-width":2,"image-height":2}`)),
		huntReq("POST", "/pairings", hap.HTTPContentTypePairingTLV8, r.pairingsBody(pair.PairingMethodAdd.Byte(), "evil", evil)),
		huntReq("POST", "/pairings", hap.HTTPContentTypePairingTLV8, r.pairingsBody(pair.PairingMethodDelete.Byte(), r.ctrl.Name(), nil)),
	}
}

// assertRefused sends the battery on fresh connections produced by mk (one connection per request,
// because a refused ciphertext request may end the connection) and checks nothing leaked or changed.
func (r *huntRig) assertRefused(label string, mk func() *huntClient) {
	t := r.t
	before := r.snapshot()
	for i, req := range r.protectedRequests() {
		h := mk()
		if h == nil {
			continue
		}
		err := h.sendRaw(req)
		var raw []byte
		if err == nil {
			// collect everything the server sends for a short while
			h.c.SetReadDeadline(time.Now().Add(300 * time.Millisecond))
			raw, _ = ioutil.ReadAll(h.br)
		}
		if h.sec != nil && len(raw) > 0 {
			if out, err := h.sec.Decrypt(bytes.NewReader(raw)); err == nil {
				pl, _ := ioutil.ReadAll(out)
				raw = append(raw, pl...)
			}
		}
		if bytes.Contains(raw, []byte(huntCanary)) || bytes.Contains(raw, []byte(`"iid"`)) || bytes.Contains(raw, []byte("JFIF")) {
			t.Errorf("%s: request %d disclosed data: %q", label, i, raw)
		}
		if bytes.HasPrefix(raw, []byte("HTTP/1.1 2")) {
			t.Errorf("%s: request %d answered with success: %q", label, i, raw)
		}
		h.close()
	}
	after := r.snapshot()
	if before != after {
		t.Errorf("%s: state changed: before %+v after %+v", label, before, after)
	}
}

// expectNoEvent changes the value on the application side and checks that nothing reaches h.
func (r *huntRig) expectNoEvent(label string, h *huntClient) {
	cur := r.sw.Switch.On.GetValue()
	r.sw.Switch.On.SetValue(!cur)
	h.c.SetReadDeadline(time.Now().Add(300 * time.Millisecond))
	raw, _ := ioutil.ReadAll(h.br)
	if len(raw) > 0 {
		r.t.Errorf("%s: unverified connection received %q", label, raw)
	}
	r.sw.Switch.On.SetValue(cur)
}

var _ = sync.Mutex{}

package hc

import (
	"fmt"
	"net"
	"sync/atomic"
	"testing"
	"time"

	"github.com/brutella/hc/crypto"
	"github.com/brutella/hc/hap"
	"github.com/brutella/hc/hap/pair"
)

// Same defect as P13, but the controller behaves with natural timing: it connects and runs
// pair-verify at once. The attacker prepares beforehand: Linux hands out source ports for one
// (source, destination) pair in small increasing steps (+2..+16), so after seeing the port of the
// controller's previous connection the attacker parks idle connections (to another address of the
// accessory) on the few candidate ports of the controller's next connection.
func TestHuntC01_P14_ParkedConnectionInheritsVerification(t *testing.T) {
	r := newHuntRig(t)

	// the controller's previous connection
	l0 := r.dial()
	r.legitVerify(l0)
	p0 := l0.c.LocalAddr().(*net.TCPAddr).Port
	l0.close()

	// the attacker parks connections on the candidate ports
	want := map[int]bool{}
	for d := 2; d <= 16; d += 2 {
		want[p0+d] = true
	}
	parked := map[int]*huntClient{}
	deadline := time.Now().Add(40 * time.Second)
	n := 0
	for len(parked) < len(want) && time.Now().Before(deadline) {
		c, err := net.DialTimeout("tcp", "127.0.0.2:"+r.port, 2*time.Second)
		if err != nil {
			t.Fatal(err)
		}
		n++
		p := c.LocalAddr().(*net.TCPAddr).Port
		if want[p] && parked[p] == nil {
			parked[p] = huntWrap(c)
			continue
		}
		c.(*net.TCPConn).SetLinger(0)
		c.Close()
	}
	t.Logf("attacker parked %d/%d connections after %d connects", len(parked), len(want), n)
	defer func() {
		for _, h := range parked {
			h.close()
		}
	}()
	// every parked connection is unverified
	for p, h := range parked {
		resp, err := h.do("GET", "/accessories", "", nil)
		if err != nil || resp.status != 470 {
			t.Fatalf("parked %d: expected refusal: %v %+v", p, err, resp)
		}
	}

	before := r.snapshot()

	// the controller reconnects and verifies immediately
	l1 := r.dial()
	defer l1.close()
	r.legitVerify(l1)
	p1 := l1.c.LocalAddr().(*net.TCPAddr).Port
	att := parked[p1]
	if att == nil {
		t.Skipf("controller got port %d (previous %d), not parked by the attacker; kernel dependent", p1, p0)
	}
	if before != r.snapshot() {
		t.Fatal("harness: state changed by the controller")
	}

	// the attacker sends plaintext on all its parked, never verified connections
	apub, _, _ := crypto.ED25519GenerateKey("attacker-attacker-attacker-attack")
	var burst []byte
	burst = append(burst, huntReq("PUT", "/characteristics", hap.HTTPContentTypeHAPJson, r.putBody(true, true))...)
	burst = append(burst, huntReq("POST", "/resource", hap.HTTPContentTypeHAPJson, []byte(`{"resource-type":"image","image-width":2,"image-height":2}`))...)
	burst = append(burst, huntReq("POST", "/pairings", hap.HTTPContentTypePairingTLV8, r.pairingsBody(pair.PairingMethodAdd.Byte(), "evil", apub))...)
	for _, h := range parked {
		h.c.Write(burst)
	}
	for i := 0; i < 50; i++ {
		time.Sleep(100 * time.Millisecond)
		if _, err := r.tr.database.EntityWithName("evil"); err == nil {
			break
		}
	}
	after := r.snapshot()
	if before != after {
		t.Errorf("VIOLATION: plaintext requests on a never verified connection (source port %d, equal to the controller's) were executed:\n before %+v\n after  %+v", p1, before, after)
	}
	_ = fmt.Sprint
	_ = atomic.LoadInt32
}

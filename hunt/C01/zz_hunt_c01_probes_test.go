package hc

import (
	"net"
	"bytes"
	"fmt"
	"strings"
	"sync/atomic"
	"testing"
	"time"

	"github.com/brutella/hc/crypto"
	"github.com/brutella/hc/hap"
	"github.com/brutella/hc/hap/pair"
	"github.com/brutella/hc/util"
)

// Sanity: the legitimate controller can do everything, so the battery is meaningful.
func TestHuntC01_Sanity(t *testing.T) {
	r := newHuntRig(t)
	h := r.dial()
	defer h.close()
	r.legitVerify(h)
	resp, err := h.do("GET", "/accessories", "", nil)
	if err != nil || !bytes.Contains(resp.body, []byte(huntCanary)) {
		t.Fatalf("legit GET /accessories: %v %+v", err, resp)
	}
	resp, err = h.do("GET", fmt.Sprintf("/characteristics?id=1.%d", r.nameID), "", nil)
	if err != nil || !bytes.Contains(resp.body, []byte(huntCanary)) {
		t.Fatalf("legit GET /characteristics: %v %+v", err, resp)
	}
	resp, err = h.do("PUT", "/characteristics", hap.HTTPContentTypeHAPJson, r.putBody(true, true))
	if err != nil || resp.status != 204 {
		t.Fatalf("legit PUT: %v %+v", err, resp)
	}
	if !r.sw.Switch.On.GetValue() || atomic.LoadInt32(&r.remoteUpd) != 1 {
		t.Fatal("legit write had no effect")
	}
	resp, err = h.do("POST", "/resource", hap.HTTPContentTypeHAPJson, []byte(`{"resource-type":"image","image-width":2,"image-height":2}`))
	if err != nil || atomic.LoadInt32(&r.imgCalls) != 1 {
		t.Fatalf("legit resource: %v %+v", err, resp)
	}
	r.sw.Switch.On.SetValue(false)
	ev, err := h.readMsg(time.Second)
	if err != nil || ev.proto != "EVENT/1.0" {
		t.Fatalf("legit event: %v %+v", err, ev)
	}
	resp, err = h.do("POST", "/pairings", hap.HTTPContentTypePairingTLV8, r.pairingsBody(pair.PairingMethodAdd.Byte(), "second", bytes.Repeat([]byte{1}, 32)))
	if err != nil || resp.status != 200 {
		t.Fatalf("legit pairings: %v %+v", err, resp)
	}
	if _, err := r.tr.database.EntityWithName("second"); err != nil {
		t.Fatal("legit add pairing had no effect")
	}
}

// P1: plaintext on a fresh connection
func TestHuntC01_P01_PlainFresh(t *testing.T) {
	r := newHuntRig(t)
	r.assertRefused("fresh", func() *huntClient { return r.dial() })
}

// P2: subscribe attempt then later events
func TestHuntC01_P02_SubscribeThenEvent(t *testing.T) {
	r := newHuntRig(t)
	h := r.dial()
	defer h.close()
	resp, err := h.do("PUT", "/characteristics", hap.HTTPContentTypeHAPJson, r.putBody(nil, true))
	t.Logf("%v %+v", err, resp)
	r.expectNoEvent("after refused subscribe", h)
	// a legit controller writes on another connection: event goes to subscribers except the writer
	l := r.dial()
	defer l.close()
	r.legitVerify(l)
	l.do("PUT", "/characteristics", hap.HTTPContentTypeHAPJson, r.putBody(true, nil))
	h.c.SetReadDeadline(time.Now().Add(300 * time.Millisecond))
	buf := make([]byte, 100)
	if n, _ := h.br.Read(buf); n > 0 {
		t.Errorf("unverified connection received %q", buf[:n])
	}
}

// P3: after M1/M2 (peer knows the shared secret): plaintext and ciphertext under derived keys
func TestHuntC01_P03_AfterM1(t *testing.T) {
	r := newHuntRig(t)
	mk := func(cipher bool, serverSide bool) func() *huntClient {
		return func() *huntClient {
			h := r.dial()
			vs := pair.NewVerifySession()
			_, out, err := h.verifyM1(vs.PublicKey[:])
			if err != nil {
				t.Fatal(err)
			}
			var spk [32]byte
			copy(spk[:], out.GetBytes(pair.TagPublicKey))
			vs.GenerateSharedKeyWithOtherPublicKey(spk)
			if cipher {
				if serverSide {
					h.sec, _ = crypto.NewSecureSessionFromSharedKey(vs.SharedKey)
				} else {
					h.sec, _ = crypto.NewSecureClientSessionFromSharedKey(vs.SharedKey)
				}
			}
			return h
		}
	}
	r.assertRefused("afterM1 plain", mk(false, false))
	r.assertRefused("afterM1 cipher", mk(true, false))
	r.assertRefused("afterM1 cipher(server keys)", mk(true, true))
}

// P4: after a failed M3 in several ways
func TestHuntC01_P04_AfterFailedM3(t *testing.T) {
	r := newHuntRig(t)
	type variant struct {
		name string
		m3   func(h *huntClient, vs *pair.VerifySession)
	}
	badsig := bytes.Repeat([]byte{7}, 64)
	variants := []variant{
		{"bad signature for paired name", func(h *huntClient, vs *pair.VerifySession) {
			h.verifyM3(vs.EncryptionKey[:], r.ctrl.Name(), badsig)
		}},
		{"accessory's own name", func(h *huntClient, vs *pair.VerifySession) {
			h.verifyM3(vs.EncryptionKey[:], r.tr.device.Name(), badsig)
		}},
		{"unknown name", func(h *huntClient, vs *pair.VerifySession) {
			h.verifyM3(vs.EncryptionKey[:], "nobody", badsig)
		}},
		{"empty name empty sig", func(h *huntClient, vs *pair.VerifySession) {
			h.verifyM3(vs.EncryptionKey[:], "", nil)
		}},
		{"self-signed with own key", func(h *huntClient, vs *pair.VerifySession) {
			_, priv, _ := crypto.ED25519GenerateKey("attacker-attacker-attacker-attack")
			var m []byte
			m = append(m, vs.PublicKey[:]...)
			m = append(m, r.ctrl.Name()...)
			m = append(m, vs.OtherPublicKey[:]...)
			sig, _ := crypto.ED25519Signature(priv, m)
			h.verifyM3(vs.EncryptionKey[:], r.ctrl.Name(), sig)
		}},
		{"short data", func(h *huntClient, vs *pair.VerifySession) { h.verifyM3Raw([]byte{1, 2, 3}) }},
		{"no data", func(h *huntClient, vs *pair.VerifySession) { h.verifyM3Raw(nil) }},
		{"bad mac", func(h *huntClient, vs *pair.VerifySession) { h.verifyM3Raw(bytes.Repeat([]byte{9}, 40)) }},
		{"garbage inner tlv", func(h *huntClient, vs *pair.VerifySession) {
			// valid seal around something that is not TLV8
			hh := *h
			_ = hh
			in := util.NewTLV8Container()
			_ = in
			h.verifyM3(vs.EncryptionKey[:], strings.Repeat("x", 600), bytes.Repeat([]byte{1}, 600))
		}},
	}
	for _, v := range variants {
		for _, mode := range []string{"plain", "cipher"} {
			v, mode := v, mode
			r.assertRefused("failedM3/"+v.name+"/"+mode, func() *huntClient {
				h := r.dial()
				vs := pair.NewVerifySession()
				_, out, err := h.verifyM1(vs.PublicKey[:])
				if err != nil {
					t.Fatal(err)
				}
				var spk [32]byte
				copy(spk[:], out.GetBytes(pair.TagPublicKey))
				vs.GenerateSharedKeyWithOtherPublicKey(spk)
				vs.SetupEncryptionKey([]byte("Pair-Verify-Encrypt-Salt"), []byte("Pair-Verify-Encrypt-Info"))
				v.m3(h, vs)
				if mode == "cipher" {
					h.sec, _ = crypto.NewSecureClientSessionFromSharedKey(vs.SharedKey)
				}
				return h
			})
		}
	}
}

// P5: M3 without a proper M1 (bad-length M1 leaves step=StartResponse with all-zero keys)
func TestHuntC01_P05_M3WithZeroKeys(t *testing.T) {
	r := newHuntRig(t)
	zero := make([]byte, 32)
	for _, mode := range []string{"plain", "cipher"} {
		mode := mode
		r.assertRefused("zero-key M3/"+mode, func() *huntClient {
			h := r.dial()
			h.verifyM1([]byte{1}) // rejected: wrong length
			resp, out, err := h.verifyM3(zero, r.ctrl.Name(), bytes.Repeat([]byte{7}, 64))
			if err == nil && out != nil {
				t.Logf("zero-key M3 answer: status %d err code %d", resp.status, out.GetByte(pair.TagErrCode))
			}
			if mode == "cipher" {
				var z [32]byte
				h.sec, _ = crypto.NewSecureClientSessionFromSharedKey(z)
			}
			return h
		})
	}
	// M3 first thing on the connection
	r.assertRefused("M3 first", func() *huntClient {
		h := r.dial()
		h.verifyM3(zero, r.ctrl.Name(), bytes.Repeat([]byte{7}, 64))
		return h
	})
}

// P6: low-order public key in M1 (shared secret all zero), then everything
func TestHuntC01_P06_LowOrderKey(t *testing.T) {
	r := newHuntRig(t)
	for _, mode := range []string{"plain", "cipher"} {
		mode := mode
		r.assertRefused("low-order/"+mode, func() *huntClient {
			h := r.dial()
			vs := pair.NewVerifySession()
			var lo [32]byte
			_, out, err := h.verifyM1(lo[:])
			if err != nil {
				t.Fatal(err)
			}
			var spk [32]byte
			copy(spk[:], out.GetBytes(pair.TagPublicKey))
			var zeroShared [32]byte
			vs.SharedKey = zeroShared
			vs.SetupEncryptionKey([]byte("Pair-Verify-Encrypt-Salt"), []byte("Pair-Verify-Encrypt-Info"))
			h.verifyM3(vs.EncryptionKey[:], r.tr.device.Name(), bytes.Repeat([]byte{7}, 64))
			if mode == "cipher" {
				h.sec, _ = crypto.NewSecureClientSessionFromSharedKey(zeroShared)
			}
			return h
		})
	}
}

// P7: pair-setup fragments in any order, then everything
func TestHuntC01_P07_PairSetupFragments(t *testing.T) {
	r := newHuntRig(t)
	post := func(h *huntClient, c util.Container) {
		h.do("POST", "/pair-setup", hap.HTTPContentTypePairingTLV8, c.BytesBuffer().Bytes())
	}
	m1 := func() util.Container {
		c := util.NewTLV8Container()
		c.SetByte(pair.TagPairingMethod, 0)
		c.SetByte(pair.TagSequence, pair.PairStepStartRequest.Byte())
		return c
	}
	m3 := func() util.Container {
		c := util.NewTLV8Container()
		c.SetByte(pair.TagSequence, pair.PairStepVerifyRequest.Byte())
		c.SetBytes(pair.TagPublicKey, bytes.Repeat([]byte{5}, 384))
		c.SetBytes(pair.TagProof, bytes.Repeat([]byte{6}, 64))
		return c
	}
	m5 := func() util.Container {
		c := util.NewTLV8Container()
		c.SetByte(pair.TagSequence, pair.PairStepKeyExchangeRequest.Byte())
		c.SetBytes(pair.TagEncryptedData, bytes.Repeat([]byte{6}, 64))
		return c
	}
	seqs := map[string][]func() util.Container{
		"m1":       {m1},
		"m1m3":     {m1, m3},
		"m1m3m5":   {m1, m3, m5},
		"m5":       {m5},
		"m3":       {m3},
		"m1m5":     {m1, m5},
		"m1m1m3m5": {m1, m1, m3, m5},
	}
	for name, seq := range seqs {
		seq := seq
		r.assertRefused("pair-setup/"+name, func() *huntClient {
			h := r.dial()
			for _, f := range seq {
				post(h, f())
			}
			return h
		})
	}
}

// P8: a legit controller is verified on another connection (before and after the attacker connects)
func TestHuntC01_P08_LegitElsewhere(t *testing.T) {
	r := newHuntRig(t)
	early := r.dial() // attacker connection opened before the legit one
	defer early.close()
	l := r.dial()
	r.legitVerify(l)
	if resp, err := l.do("PUT", "/characteristics", hap.HTTPContentTypeHAPJson, r.putBody(nil, true)); err != nil || resp.status != 204 {
		t.Fatalf("legit subscribe: %v %+v", err, resp)
	}
	r.assertRefused("legit elsewhere / new conn", func() *huntClient { return r.dial() })
	// the early connection
	for i, req := range r.protectedRequests() {
		before := r.snapshot()
		early.sendRaw(req)
		resp, err := early.readMsg(time.Second)
		if err != nil {
			t.Fatalf("early %d: %v", i, err)
		}
		if resp.status != 470 || bytes.Contains(resp.raw, []byte(huntCanary)) {
			t.Errorf("early %d: %+v", i, resp)
		}
		if before != r.snapshot() {
			t.Errorf("early %d changed state", i)
		}
	}
	r.expectNoEvent("early", early)
	// drain legit's events
	l.close()
	time.Sleep(50 * time.Millisecond)
	r.assertRefused("after legit closed", func() *huntClient { return r.dial() })
}

// P9: replay of the legit controller's M1/M3 bytes on another connection
func TestHuntC01_P09_ReplayLegitVerify(t *testing.T) {
	r := newHuntRig(t)
	// run a legit verify and record what went over the wire
	l := r.dial()
	defer l.close()
	vs := pair.NewVerifySession()
	_, out, _ := l.verifyM1(vs.PublicKey[:])
	var spk [32]byte
	copy(spk[:], out.GetBytes(pair.TagPublicKey))
	vs.GenerateSharedKeyWithOtherPublicKey(spk)
	vs.SetupEncryptionKey([]byte("Pair-Verify-Encrypt-Salt"), []byte("Pair-Verify-Encrypt-Info"))
	var material []byte
	material = append(material, vs.PublicKey[:]...)
	material = append(material, r.ctrl.Name()...)
	material = append(material, spk[:]...)
	sig, _ := crypto.ED25519Signature(r.ctrl.PrivateKey(), material)
	sub := util.NewTLV8Container()
	sub.SetString(pair.TagUsername, r.ctrl.Name())
	sub.SetBytes(pair.TagSignature, sig)
	// what an eavesdropper sees:
	encKeyBytes := vs.EncryptionKey[:]
	_ = encKeyBytes
	l.verifyM3(vs.EncryptionKey[:], r.ctrl.Name(), sig)

	r.assertRefused("replay", func() *huntClient {
		h := r.dial()
		h.verifyM1(vs.PublicKey[:]) // same A as the legit controller
		// the eavesdropper replays the recorded M3 ciphertext (it cannot re-encrypt); we give it even
		// more: the inner signature, re-encrypted under whatever key - it must still fail
		h.verifyM3(vs.EncryptionKey[:], r.ctrl.Name(), sig)
		return h
	})
}

// P10: path, method and protocol variants of the protected endpoints
func TestHuntC01_P10_PathVariants(t *testing.T) {
	r := newHuntRig(t)
	before := r.snapshot()
	paths := []string{"/accessories", "//accessories", "/accessories/", "/./accessories", "/x/../accessories",
		"/accessories?x=1", "/ACCESSORIES", "http://hunt/accessories", "/accessories#f", "/%61ccessories",
		"/characteristics?id=1.4", "/characteristics/?id=1.4", "//characteristics?id=1.4", "/resource", "/pairings", "*"}
	methods := []string{"GET", "HEAD", "POST", "PUT", "OPTIONS", "CONNECT", "DELETE", "PATCH"}
	for _, p := range paths {
		for _, m := range methods {
			for _, proto := range []string{"HTTP/1.1", "HTTP/1.0"} {
				h := r.dial()
				body := r.putBody(true, true)
				req := fmt.Sprintf("%s %s %s\r\nHost: hunt\r\nContent-Length: %d\r\n\r\n%s", m, p, proto, len(body), body)
				h.c.Write([]byte(req))
				h.c.SetReadDeadline(time.Now().Add(60 * time.Millisecond))
				buf := make([]byte, 8192)
				n, _ := h.br.Read(buf)
				if bytes.Contains(buf[:n], []byte(huntCanary)) || bytes.Contains(buf[:n], []byte(`"iid"`)) {
					t.Errorf("%s %s %s disclosed: %q", m, p, proto, buf[:n])
				}
				h.close()
			}
		}
	}
	if before != r.snapshot() {
		t.Errorf("state changed %+v -> %+v", before, r.snapshot())
	}
}

// P11: pipelining: M1 + protected request in one segment; protected request + M1; chunked PUT; Expect
func TestHuntC01_P11_Pipelining(t *testing.T) {
	r := newHuntRig(t)
	before := r.snapshot()
	vs := pair.NewVerifySession()
	m1 := util.NewTLV8Container()
	m1.SetByte(pair.TagSequence, pair.VerifyStepStartRequest.Byte())
	m1.SetBytes(pair.TagPublicKey, vs.PublicKey[:])
	m1req := huntReq("POST", "/pair-verify", hap.HTTPContentTypePairingTLV8, m1.BytesBuffer().Bytes())
	put := r.putBody(true, true)
	chunked := []byte(fmt.Sprintf("PUT /characteristics HTTP/1.1\r\nHost: h\r\nTransfer-Encoding: chunked\r\n\r\n%x\r\n%s\r\n0\r\n\r\n", len(put), put))
	expect := []byte(fmt.Sprintf("PUT /characteristics HTTP/1.1\r\nHost: h\r\nExpect: 100-continue\r\nContent-Length: %d\r\n\r\n%s", len(put), put))
	var all []byte
	for _, p := range r.protectedRequests() {
		all = append(all, p...)
	}
	bursts := [][]byte{
		append(append([]byte{}, m1req...), all...),
		append(append([]byte{}, all...), m1req...),
		chunked, expect,
		bytes.Repeat(all, 5),
	}
	for i, b := range bursts {
		h := r.dial()
		h.c.Write(b)
		h.c.SetReadDeadline(time.Now().Add(400 * time.Millisecond))
		var got bytes.Buffer
		buf := make([]byte, 65536)
		for {
			n, err := h.br.Read(buf)
			got.Write(buf[:n])
			if err != nil {
				break
			}
		}
		if bytes.Contains(got.Bytes(), []byte(huntCanary)) || bytes.Contains(got.Bytes(), []byte(`"iid"`)) {
			t.Errorf("burst %d disclosed %q", i, got.Bytes())
		}
		h.close()
	}
	if before != r.snapshot() {
		t.Errorf("state changed %+v -> %+v", before, r.snapshot())
	}
}

// P12: /identify is reachable without verification (outside the property's list; recorded only)
func TestHuntC01_P12_IdentifyInfo(t *testing.T) {
	r := newHuntRig(t)
	h := r.dial()
	defer h.close()
	resp, err := h.do("POST", "/identify", "", nil)
	t.Logf("identify: %v %+v identify callbacks=%d", err, resp, atomic.LoadInt32(&r.identify))
}

// P15: the controller's verified, subscribed connection ends (RST); the attacker immediately connects
// from the very same source address and port: no verification, no subscription may be inherited.
func TestHuntC01_P15_SamePortAfterClose(t *testing.T) {
	r := newHuntRig(t)
	for round := 0; round < 20; round++ {
		l := r.dial()
		r.legitVerify(l)
		if resp, err := l.do("PUT", "/characteristics", hap.HTTPContentTypeHAPJson, r.putBody(nil, true)); err != nil || resp.status != 204 {
			t.Fatalf("legit subscribe: %v %+v", err, resp)
		}
		la := l.c.LocalAddr().(*net.TCPAddr)
		l.c.(*net.TCPConn).SetLinger(0)
		l.c.Close()
		d := net.Dialer{LocalAddr: &net.TCPAddr{IP: la.IP, Port: la.Port}, Timeout: time.Second}
		var c net.Conn
		var err error
		for i := 0; i < 50; i++ {
			if c, err = d.Dial("tcp", "127.0.0.1:"+r.port); err == nil {
				break
			}
			time.Sleep(time.Millisecond)
		}
		if err != nil {
			t.Log("cannot rebind port in this round:", err)
			continue
		}
		h := huntWrap(c)
		before := r.snapshot()
		resp, err := h.do("GET", "/accessories", "", nil)
		if err == nil && (resp.status != 470 || bytes.Contains(resp.raw, []byte(huntCanary))) {
			t.Errorf("round %d: %+v", round, resp)
		}
		h2 := h
		if err != nil { // the late Close of the old connection may have dropped our session: reconnect not possible, go on
			h.close()
			continue
		}
		h2.sendRaw(huntReq("PUT", "/characteristics", hap.HTTPContentTypeHAPJson, r.putBody(true, nil)))
		h2.readMsg(300 * time.Millisecond)
		if before != r.snapshot() {
			t.Errorf("round %d: state changed", round)
		}
		r.expectNoEvent("same port after close", h2)
		h.close()
	}
}

package hc

import (
	"runtime"
	"os"
	hclog "github.com/brutella/hc/log"
	"bytes"
	"net"
	"strings"
	"sync/atomic"
	"testing"
	"time"

	"github.com/brutella/hc/crypto"
	"github.com/brutella/hc/hap"
	"github.com/brutella/hc/hap/pair"
)

// huntCollide opens connections to another address of the accessory (the transport listens on
// every address of the host) until the kernel hands out the source port that the controller's
// connection uses. Nothing but plain connect() is used: Linux gives the same ephemeral port to
// two connect()ed sockets when their destinations differ. The server then sees two live
// connections whose RemoteAddr() strings are equal.
func huntCollide(t *testing.T, dst string, wantLocal string) net.Conn {
	deadline := time.Now().Add(45 * time.Second)
	for i := 0; time.Now().Before(deadline); i++ {
		c, err := net.DialTimeout("tcp", dst, 2*time.Second)
		if err != nil {
			t.Fatalf("dial %d: %v", i, err)
		}
		if c.LocalAddr().String() == wantLocal {
			t.Logf("attacker got source address %s after %d connects", wantLocal, i+1)
			return c
		}
		c.(*net.TCPConn).SetLinger(0)
		c.Close()
	}
	t.Skip("could not obtain the colliding source port in time (kernel dependent)")
	return nil
}

// The attacker never runs pair-verify and owns no paired key. It shares the source IP address with
// the controller (another process on the controller's host, or a host behind the same NAT) and
// reaches the accessory through a second address of the accessory.
func TestHuntC01_P13_VerificationCarriesOverBetweenConnectionsWithEqualRemoteAddr(t *testing.T) {
	r := newHuntRig(t)

	// 1. the controller connects (ordinary connect, kernel-chosen port)
	legit := r.dial()
	defer legit.close()

	// 2. the attacker connects to 127.0.0.2:<port> until its source port equals the controller's
	ac := huntCollide(t, "127.0.0.2:"+r.port, legit.c.LocalAddr().String())
	att := huntWrap(ac)
	defer att.close()
	if att.c.RemoteAddr().String() == legit.c.RemoteAddr().String() {
		t.Fatal("harness: the two connections are the same 4-tuple?")
	}

	// 3. the attacker's connection is not verified: plaintext request refused
	resp, err := att.do("GET", "/accessories", "", nil)
	if err != nil || resp.status != 470 {
		t.Fatalf("expected refusal before anything happened: %v %+v", err, resp)
	}

	before := r.snapshot()

	// 4. the controller completes pair-verify on ITS connection and works normally
	r.legitVerify(legit)
	resp, err = legit.do("GET", "/accessories", "", nil)
	if err != nil || !bytes.Contains(resp.body, []byte(huntCanary)) {
		t.Fatalf("controller GET /accessories: %v %+v", err, resp)
	}
	if before != r.snapshot() {
		t.Fatal("harness: state changed by the controller's own work")
	}

	huntDebugOn()
	// 5. the attacker sends PLAINTEXT protected requests on its own, never verified connection
	apub, apriv, _ := crypto.ED25519GenerateKey("attacker-attacker-attacker-attack")
	var burst []byte
	burst = append(burst, huntReq("PUT", "/characteristics", hap.HTTPContentTypeHAPJson, r.putBody(true, true))...)
	burst = append(burst, huntReq("POST", "/resource", hap.HTTPContentTypeHAPJson, []byte(`{"resource-type":"image","image-width":2,"image-height":2}`))...)
	// (the pairing request goes last: its handler spends a second in the mDNS update)
	burst = append(burst, huntReq("POST", "/pairings", hap.HTTPContentTypePairingTLV8, r.pairingsBody(pair.PairingMethodAdd.Byte(), "evil", apub))...)
	if _, err := att.c.Write(burst); err != nil {
		t.Fatal(err)
	}
	for i := 0; i < 50; i++ {
		time.Sleep(100 * time.Millisecond)
		if _, err := r.tr.database.EntityWithName("evil"); err == nil {
			break
		}
	}
	if os.Getenv("HUNT_DEBUG") != "" {
		buf := make([]byte, 1<<20)
		os.Stderr.Write(buf[:runtime.Stack(buf, true)])
	}

	after := r.snapshot()
	if before != after {
		t.Errorf("VIOLATION: plaintext requests on a connection that never ran pair-verify were executed:\n before %+v\n after  %+v", before, after)
	}
	if _, err := r.tr.database.EntityWithName("evil"); err == nil {
		t.Errorf("VIOLATION: the unverified connection stored a pairing for 'evil'")
	}
	if atomic.LoadInt32(&r.remoteUpd) != 0 || r.sw.Switch.On.GetValue() {
		t.Errorf("VIOLATION: the unverified connection wrote the On characteristic (callbacks=%d value=%v)", atomic.LoadInt32(&r.remoteUpd), r.sw.Switch.On.GetValue())
	}
	if atomic.LoadInt32(&r.imgCalls) != 0 {
		t.Errorf("VIOLATION: the unverified connection triggered the snapshot callback")
	}

	// 6. consequence: the attacker now owns a stored pairing and reads everything on a fresh connection
	if _, err := r.tr.database.EntityWithName("evil"); err == nil {
		evil := r.dial()
		defer evil.close()
		vs := pair.NewVerifySession()
		_, out, err := evil.verifyM1(vs.PublicKey[:])
		if err != nil {
			t.Fatal(err)
		}
		var spk [32]byte
		copy(spk[:], out.GetBytes(pair.TagPublicKey))
		vs.GenerateSharedKeyWithOtherPublicKey(spk)
		vs.SetupEncryptionKey([]byte("Pair-Verify-Encrypt-Salt"), []byte("Pair-Verify-Encrypt-Info"))
		var m []byte
		m = append(m, vs.PublicKey[:]...)
		m = append(m, "evil"...)
		m = append(m, spk[:]...)
		sig, _ := crypto.ED25519Signature(apriv, m)
		_, out, err = evil.verifyM3(vs.EncryptionKey[:], "evil", sig)
		t.Logf("attacker pair-verify as 'evil': err=%v", err)
		if err == nil && out.GetByte(pair.TagErrCode) == 0 {
			evil.sec, _ = crypto.NewSecureClientSessionFromSharedKey(vs.SharedKey)
			time.Sleep(50 * time.Millisecond)
			resp, err := evil.do("GET", "/accessories", "", nil)
			t.Logf("attacker as 'evil': GET /accessories -> err=%v status=%d len=%d", err, resp.status, len(resp.body))
			if err == nil && strings.Contains(string(resp.body), huntCanary) {
				t.Errorf("VIOLATION (consequence): attacker read the accessory database, canary %q disclosed", huntCanary)
			}
		}
	}
}

func huntDebugOn() {
	if os.Getenv("HUNT_DEBUG") != "" {
		hclog.Debug.Enable()
	}
}

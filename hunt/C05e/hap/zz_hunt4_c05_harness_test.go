package hap

import (
	"bytes"
	"encoding/binary"
	"io"
	"io/ioutil"
	"math/rand"
	"net"
	"testing"
	"time"

	"github.com/brutella/hc/crypto"
)

type h4Addr string

func (a h4Addr) Network() string { return "tcp" }
func (a h4Addr) String() string  { return string(a) }

type h4Timeout struct{}

func (h4Timeout) Error() string   { return "i/o timeout" }
func (h4Timeout) Timeout() bool   { return true }
func (h4Timeout) Temporary() bool { return true }

// h4Event is one thing the socket does on a Read: deliver bytes, or fail.
type h4Event struct {
	data []byte
	err  error
}

type h4Conn struct {
	events []h4Event
	closed bool
	wrote  bytes.Buffer
}

func (c *h4Conn) Read(b []byte) (int, error) {
	if c.closed {
		return 0, io.ErrClosedPipe
	}
	if len(c.events) == 0 {
		return 0, io.EOF
	}
	ev := &c.events[0]
	if ev.err != nil {
		err := ev.err
		c.events = c.events[1:]
		return 0, err
	}
	n := copy(b, ev.data)
	ev.data = ev.data[n:]
	if len(ev.data) == 0 {
		c.events = c.events[1:]
	}
	return n, nil
}
func (c *h4Conn) Write(b []byte) (int, error)        { return c.wrote.Write(b) }
func (c *h4Conn) Close() error                       { c.closed = true; return nil }
func (c *h4Conn) LocalAddr() net.Addr                { return h4Addr("10.0.0.1:80") }
func (c *h4Conn) RemoteAddr() net.Addr               { return h4Addr("10.0.0.2:5000") }
func (c *h4Conn) SetDeadline(t time.Time) error      { return nil }
func (c *h4Conn) SetReadDeadline(t time.Time) error  { return nil }
func (c *h4Conn) SetWriteDeadline(t time.Time) error { return nil }

func h4Key(seed byte) [32]byte {
	var k [32]byte
	for i := range k {
		k[i] = seed + byte(i)*3
	}
	return k
}

// h4Frames encrypts each message on its own and returns the frames one by one
func h4Frames(t *testing.T, enc crypto.Encrypter, msgs [][]byte) (frames [][]byte, plains [][]byte) {
	for _, m := range msgs {
		r, err := enc.Encrypt(bytes.NewReader(m))
		if err != nil {
			t.Fatal(err)
		}
		all, _ := ioutil.ReadAll(r)
		off := 0
		for len(all) > 0 {
			l := int(binary.LittleEndian.Uint16(all[:2]))
			n := 2 + l + 16
			frames = append(frames, append([]byte{}, all[:n]...))
			plains = append(plains, append([]byte{}, m[off:off+l]...))
			off += l
			all = all[n:]
		}
	}
	return
}

func h4Setup(t *testing.T, seed byte) (*Connection, *h4Conn, crypto.Cryptographer, Context) {
	ctx := NewContextForSecuredDevice(nil)
	fc := &h4Conn{}
	con := NewConnection(fc, ctx)
	srv, err := crypto.NewSecureSessionFromSharedKey(h4Key(seed))
	if err != nil {
		t.Fatal(err)
	}
	cli, err := crypto.NewSecureClientSessionFromSharedKey(h4Key(seed))
	if err != nil {
		t.Fatal(err)
	}
	ctx.GetSessionForConnection(fc).SetCryptographer(srv)
	return con, fc, cli, ctx
}

// readAll reads with varying buffer sizes until an error; time-outs are retried
func h4ReadAll(con *Connection, rnd *rand.Rand, sizes []int) ([]byte, error) {
	var out []byte
	for i := 0; i < 100000; i++ {
		sz := sizes[rnd.Intn(len(sizes))]
		b := make([]byte, sz)
		n, err := con.Read(b)
		out = append(out, b[:n]...)
		if err != nil {
			if ne, ok := err.(net.Error); ok && ne.Timeout() {
				continue
			}
			return out, err
		}
	}
	return out, nil
}

func h4Chunk(rnd *rand.Rand, stream []byte, timeouts bool) []h4Event {
	var evs []h4Event
	for len(stream) > 0 {
		n := 1 + rnd.Intn(1500)
		if rnd.Intn(3) == 0 {
			n = 1 + rnd.Intn(20)
		}
		if n > len(stream) {
			n = len(stream)
		}
		evs = append(evs, h4Event{data: stream[:n]})
		stream = stream[n:]
		if timeouts && rnd.Intn(3) == 0 {
			evs = append(evs, h4Event{err: h4Timeout{}})
		}
	}
	return evs
}

func TestHunt4C05RandomAlterations(t *testing.T) {
	rnd := rand.New(rand.NewSource(4))
	lens := []int{0, 1, 2, 15, 16, 17, 100, 1023, 1024, 1025, 2047, 2048, 2049, 3000, 4000}
	for iter := 0; iter < 40000; iter++ {
		con, fc, cli, _ := h4Setup(t, byte(iter))
		nm := 1 + rnd.Intn(4)
		var msgs [][]byte
		for i := 0; i < nm; i++ {
			l := lens[rnd.Intn(len(lens))]
			if l == 0 {
				l = 1 + rnd.Intn(50)
			}
			m := make([]byte, l)
			rnd.Read(m)
			msgs = append(msgs, m)
		}
		frames, plains := h4Frames(t, cli, msgs)
		// alteration
		kind := rnd.Intn(8)
		firstBad := len(frames) // index of the first altered frame
		lenFlip := false
		alt := make([][]byte, len(frames))
		for i := range frames {
			alt[i] = append([]byte{}, frames[i]...)
		}
		var stream []byte
		switch kind {
		case 0: // none
		case 1: // bit flip
			fi := rnd.Intn(len(alt))
			bi := rnd.Intn(len(alt[fi]) * 8)
			alt[fi][bi/8] ^= 1 << uint(bi%8)
			firstBad = fi
			lenFlip = bi < 16
		case 2: // drop
			fi := rnd.Intn(len(alt))
			alt = append(alt[:fi], alt[fi+1:]...)
			firstBad = fi
		case 3: // duplicate
			fi := rnd.Intn(len(alt))
			d := append([]byte{}, alt[fi]...)
			alt = append(alt[:fi+1], append([][]byte{d}, alt[fi+1:]...)...)
			firstBad = fi + 1
		case 4: // swap
			if len(alt) >= 2 {
				fi := rnd.Intn(len(alt) - 1)
				if !bytes.Equal(alt[fi], alt[fi+1]) {
					alt[fi], alt[fi+1] = alt[fi+1], alt[fi]
					firstBad = fi
				}
			}
		case 5: // truncate inside a frame
			fi := rnd.Intn(len(alt))
			cut := rnd.Intn(len(alt[fi]))
			alt[fi] = alt[fi][:cut]
			alt = alt[:fi+1]
			firstBad = fi
		case 6: // reflect: a frame of the accessory's own direction
			srv2, _ := crypto.NewSecureSessionFromSharedKey(h4Key(byte(iter)))
			fi := rnd.Intn(len(alt))
			// bring the counter to fi
			for j := 0; j < fi; j++ {
				srv2.Encrypt(bytes.NewReader([]byte{1}))
			}
			r, _ := srv2.Encrypt(bytes.NewReader(plains[fi]))
			x, _ := ioutil.ReadAll(r)
			if len(x) > 0 {
				alt[fi] = x
				firstBad = fi
			}
		case 7: // other session's frame at the same counter
			cli2, _ := crypto.NewSecureClientSessionFromSharedKey(h4Key(byte(iter) + 1))
			fi := rnd.Intn(len(alt))
			for j := 0; j < fi; j++ {
				cli2.Encrypt(bytes.NewReader([]byte{1}))
			}
			r, _ := cli2.Encrypt(bytes.NewReader(plains[fi]))
			x, _ := ioutil.ReadAll(r)
			if len(x) > 0 {
				alt[fi] = x
				firstBad = fi
			}
		}
		for _, f := range alt {
			stream = append(stream, f...)
		}
		fc.events = h4Chunk(rnd, stream, rnd.Intn(2) == 0)
		got, err := h4ReadAll(con, rnd, []int{1, 2, 7, 512, 1024, 4096, 8192})

		var want []byte
		for i := 0; i < firstBad && i < len(plains); i++ {
			want = append(want, plains[i]...)
		}
		if !bytes.Equal(got, want) {
			t.Fatalf("iter %d kind %d: released %d bytes, want %d (firstBad %d of %d frames) err=%v", iter, kind, len(got), len(want), firstBad, len(frames), err)
		}
		if err == nil {
			t.Fatalf("iter %d kind %d: no error at all", iter, kind)
		}
		if kind != 0 && kind != 5 && !lenFlip && firstBad < len(alt) && err == io.EOF {
			t.Fatalf("iter %d kind %d: only EOF reported, firstBad %d", iter, kind, firstBad)
		}
		if kind == 5 && err == io.EOF {
			// noted separately
		}
	}
}

package hap

import (
	"bytes"
	"io"
	"testing"
)

// Clause: "It reports an error no later than the first altered frame."
// Alteration: truncation inside a frame (the adversary cuts the stream after the
// first k bytes of frame 1 and ends it). crypto.Decrypt reports
// io.ErrUnexpectedEOF for the very same bytes; Connection.Read reports the plain
// io.EOF which it also reports for a stream that ended between two frames, i.e.
// the reader (net/http) is told "the peer has finished sending" and not that the
// stream was cut inside a frame.
func TestHunt4C05TruncationInsideFrameLooksLikeCleanEnd(t *testing.T) {
	for _, cut := range []int{1, 2, 3, 10, 2 + 40 + 15} {
		con, fc, cli, _ := h4Setup(t, 7)
		frames, plains := h4Frames(t, cli, [][]byte{bytes.Repeat([]byte("a"), 30), bytes.Repeat([]byte("b"), 40)})
		stream := append(append([]byte{}, frames[0]...), frames[1][:cut]...)
		fc.events = []h4Event{{data: stream}}

		b := make([]byte, 4096)
		n, err := con.Read(b)
		if err != nil || !bytes.Equal(b[:n], plains[0]) {
			t.Fatalf("frame 0: %d %v", n, err)
		}
		n, err = con.Read(b)
		if n != 0 {
			t.Fatalf("cut %d: released %d bytes of a truncated frame", cut, n)
		}
		if err == io.EOF {
			t.Errorf("cut %d: frame 1 was truncated after %d of %d bytes, Read reports the clean end of the stream (io.EOF), not an error", cut, cut, len(frames[1]))
		}
	}
}

// Clause: "the receiving side never releases plaintext other than an unmodified
// prefix ... of what the peer sent". History: the first bytes of a frame are in
// the read-ahead buffer (the rest is withheld / delayed), the connection is closed
// by another goroutine (Server.ListenAndServe does that for every active
// connection when the transport stops), then the reader (net/http after its
// handler returned) calls Read once more: the session is gone, Read takes the
// "not encrypted yet" path and hands out the buffered CIPHERTEXT bytes as data,
// without an error.
func TestHunt4C05ReadAfterCloseReleasesCiphertext(t *testing.T) {
	con, fc, cli, _ := h4Setup(t, 9)
	frames, plains := h4Frames(t, cli, [][]byte{[]byte("GET /accessories HTTP/1.1\r\n\r\n"), []byte("GET /characteristics?id=1.2 HTTP/1.1\r\n\r\n")})
	// frame 0 complete, frame 1 without its last byte, then a time-out (what
	// net/http's abortPendingRead provokes), nothing else
	stream := append(append([]byte{}, frames[0]...), frames[1][:len(frames[1])-1]...)
	fc.events = []h4Event{{data: stream}, {err: h4Timeout{}}}

	b := make([]byte, 4096)
	n, err := con.Read(b)
	if err != nil || !bytes.Equal(b[:n], plains[0]) {
		t.Fatalf("frame 0: %d %v", n, err)
	}
	if n, err = con.Read(b); n != 0 || err == nil {
		t.Fatalf("incomplete frame: %d %v", n, err)
	}

	con.Close() // transport stops

	var released []byte
	for i := 0; i < 100; i++ {
		n, err = con.Read(b)
		released = append(released, b[:n]...)
		if err != nil {
			break
		}
	}
	if len(released) > 0 {
		t.Errorf("Read after Close released %d bytes which the peer never sent as plain text (they are ciphertext: % x ...), last err=%v", len(released), released[:8], err)
	}
}

package hap

import (
	"bufio"
	"bytes"
	"testing"
)

// Aside, not C05 (write side): EncryptedWrite returns the number of ciphertext
// bytes, which is larger than len(b) and breaks the io.Writer contract; a
// bufio.Writer (net/http's) which passes a large slice through panics.
func TestHunt4AsideEncryptedWriteCount(t *testing.T) {
	con, _, _, _ := h4Setup(t, 3)
	con.Read(make([]byte, 0)) // install the keys (Decrypter())
	con.getDecrypter()
	p := bytes.Repeat([]byte("x"), 100)
	n, err := con.Write(p)
	if err != nil || n != len(p) {
		t.Errorf("Write(%d bytes) = %d, %v", len(p), n, err)
	}
	defer func() {
		if r := recover(); r != nil {
			t.Errorf("bufio.Writer over the connection panics on a 9000 byte write: %v", r)
		}
	}()
	w := bufio.NewWriterSize(con, 4096)
	w.Write(bytes.Repeat([]byte("y"), 9000))
}

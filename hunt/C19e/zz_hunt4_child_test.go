package hc

import (
	"fmt"
	"os"
	"testing"

	"github.com/brutella/hc/accessory"
	"github.com/brutella/hc/db"
)

// child: HUNT4_DIR, HUNT4_MODEL, HUNT4_PAIR
func TestZZHunt4ChildTransport(t *testing.T) {
	dir := os.Getenv("HUNT4_DIR")
	if dir == "" {
		t.Skip()
	}
	a := accessory.NewSwitch(accessory.Info{Name: "sw", Model: os.Getenv("HUNT4_MODEL")})
	tr, err := NewIPTransport(Config{StoragePath: dir}, a.Accessory)
	if err != nil {
		t.Fatal(err)
	}
	if os.Getenv("HUNT4_PAIR") != "" {
		if err := tr.database.SaveEntity(db.NewEntity("ctrl", []byte("0123456789abcdef0123456789abcdef"), nil)); err != nil {
			t.Fatal(err)
		}
	}
	e, _ := tr.database.EntityWithName(tr.config.id)
	fmt.Printf("STATE id=%s version=%d paired=%v pub=%x\n", tr.config.id, tr.config.version, tr.isPaired(), e.PublicKey)
}

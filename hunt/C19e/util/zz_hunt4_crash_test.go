package util

// Hunt 4, property C19: "If the process is killed at any point during a storage
// write, then after restart the key holds either its previous value or the new
// value in full [...] and ALL OTHER KEYS ARE UNTOUCHED."
//
// Clause shown broken: "all other keys are untouched". A child process which
// runs the real fileStorage.Set is killed with SIGKILL (injected by strace at
// the entry of a system call, i.e. before that call runs) between the
// file-system operations of the write: create(tmp) | write | close | rename.
// A fresh store on the same directory then has a key which nobody ever set,
// "<32 hex>.tmp": KeysWithSuffix lists it and Get returns an empty, truncated
// or full copy of the value that was being written. Nothing ever removes it.

import (
	"bytes"
	"encoding/hex"
	"fmt"
	"io/ioutil"
	"os"
	"os/exec"
	"path/filepath"
	"reflect"
	"sort"
	"strings"
	"testing"
)

func hunt4RunChild(t *testing.T, dir, key string, val []byte, inject string) (killed bool, log string) {
	strace, err := exec.LookPath("strace")
	if err != nil {
		t.Skip("strace is needed to kill the child between two system calls")
	}
	logf := filepath.Join(dir+"-log", "strace.txt")
	os.MkdirAll(filepath.Dir(logf), 0755)
	args := []string{"-f", "-o", logf, "-e", "trace=openat,write,close,renameat,rename,renameat2,unlinkat"}
	if inject != "" {
		args = append(args, "-e", "inject="+inject)
	}
	args = append(args, os.Args[0], "-test.run", "^TestZZHunt4Child$")
	cmd := exec.Command(strace, args...)
	cmd.Env = append(os.Environ(), "HUNT4_DIR="+dir, "HUNT4_KEY="+key, "HUNT4_VAL="+hex.EncodeToString(val))
	out, err := cmd.CombinedOutput()
	b, _ := ioutil.ReadFile(logf)
	if inject == "" && err != nil {
		t.Fatalf("dry run failed: %v\n%s", err, out)
	}
	return err != nil && strings.Contains(string(b), "killed by SIGKILL"), string(b)
}

// number of the close() of the temporary file among all close() calls of the child
func hunt4CloseIndex(log string) int {
	n, seenTmp := 0, false
	for _, l := range strings.Split(log, "\n") {
		if strings.Contains(l, tempFileSuffix+"\", O_WRONLY") {
			seenTmp = true
		}
		if strings.Contains(l, " close(") {
			n++
			if seenTmp {
				return n
			}
		}
	}
	return -1
}

func TestZZHunt4CrashLeavesForeignKey(t *testing.T) {
	base, _ := ioutil.TempDir("", "hunt4c19")
	defer os.RemoveAll(base)

	newVal := bytes.Repeat([]byte("N"), 40)
	olds := map[string][]byte{
		"absent":  nil,
		"shorter": []byte("old"),
		"equal":   bytes.Repeat([]byte("O"), 40),
		"longer":  bytes.Repeat([]byte("O"), 100),
	}

	// dry run: where is the close of the temporary file?
	dry := filepath.Join(base, "dry")
	_, log := hunt4RunChild(t, dry, "uuid", newVal, "")
	ci := hunt4CloseIndex(log)
	if ci < 0 {
		t.Fatalf("no temporary file in the trace:\n%s", log)
	}

	points := []struct{ name, inject string }{
		{"after-create-before-write", "write:signal=SIGKILL:when=1"},
		{"after-write-before-close", fmt.Sprintf("close:signal=SIGKILL:when=%d", ci)},
		{"after-close-before-rename", "renameat:signal=SIGKILL:when=1"},
	}

	names := []string{"absent", "shorter", "equal", "longer"}
	for _, on := range names {
		old := olds[on]
		for _, p := range points {
			dir := filepath.Join(base, on+"-"+p.name)
			st, err := NewFileStorage(dir)
			if err != nil {
				t.Fatal(err)
			}
			st.Set("other", []byte("keep"))
			if old != nil {
				st.Set("uuid", old)
			}
			before, _ := st.KeysWithSuffix("")
			sort.Strings(before)

			killed, log := hunt4RunChild(t, dir, "uuid", newVal, p.inject)
			if !killed {
				t.Fatalf("%s/%s: child was not killed\n%s", on, p.name, log)
			}

			// restart: a fresh store on the same directory
			st2, _ := NewFileStorage(dir)
			got, gerr := st2.Get("uuid")
			if old == nil {
				if gerr == nil && !bytes.Equal(got, newVal) {
					t.Errorf("%s/%s: uuid = %q", on, p.name, got)
				}
			} else if !bytes.Equal(got, old) && !bytes.Equal(got, newVal) {
				t.Errorf("%s/%s: uuid = %q, neither old nor new", on, p.name, got)
			}
			if o, _ := st2.Get("other"); string(o) != "keep" {
				t.Errorf("%s/%s: other = %q", on, p.name, o)
			}

			after, _ := st2.KeysWithSuffix("")
			sort.Strings(after)
			want := before
			if gerr == nil && old == nil {
				want = append(append([]string{}, before...), "uuid")
				sort.Strings(want)
			}
			if !reflect.DeepEqual(after, want) {
				for _, k := range after {
					if strings.HasSuffix(k, tempFileSuffix) {
						v, _ := st2.Get(k)
						t.Errorf("old=%s crash=%s: keys before %v, after restart %v: key %q which was never set holds %q",
							on, p.name, before, after, k, v)
					}
				}
			}
		}
	}
}

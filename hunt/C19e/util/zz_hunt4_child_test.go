package util

import (
	"encoding/hex"
	"os"
	"testing"
)

// child: HUNT4_DIR, HUNT4_KEY, HUNT4_VAL (hex)
func TestZZHunt4Child(t *testing.T) {
	dir := os.Getenv("HUNT4_DIR")
	if dir == "" {
		t.Skip()
	}
	st, err := NewFileStorage(dir)
	if err != nil {
		t.Fatal(err)
	}
	v, _ := hex.DecodeString(os.Getenv("HUNT4_VAL"))
	if err := st.Set(os.Getenv("HUNT4_KEY"), v); err != nil {
		t.Fatal(err)
	}
}

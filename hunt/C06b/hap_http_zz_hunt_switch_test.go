package http

import (
	"io/ioutil"
	"math/rand"
	"net/http"
	"testing"
	"time"
)

// first encrypted request right after the key installation response
func huntSwitch(t *testing.T, delay time.Duration, runs int) (failed int) {
	rnd := rand.New(rand.NewSource(31))
	var key [32]byte
	rnd.Read(key[:])
	old := huntFirstRequestDelay
	huntFirstRequestDelay = delay
	defer func() { huntFirstRequestDelay = old }()
	for i := 0; i < runs; i++ {
		e := newE2E(t, key, 1)
		e.raw.SetDeadline(time.Now().Add(1 * time.Second))
		e.send(t, []byte("GET /accessories HTTP/1.1\r\nHost: x\r\n\r\n"), rnd, 0)
		resp, err := http.ReadResponse(e.plain, nil)
		if err != nil {
			failed++
			t.Logf("run %d: first request on the secure session got no answer: %v", i, err)
		} else {
			ioutil.ReadAll(resp.Body)
		}
		e.raw.Close()
		e.cancel()
	}
	return
}

func TestHuntSwitchImmediate(t *testing.T) {
	if f := huntSwitch(t, 0, 400); f > 0 {
		t.Fatalf("%d of 400 runs failed", f)
	}
}

func TestHuntSwitchDelayed(t *testing.T) {
	if f := huntSwitch(t, 2*time.Millisecond, 400); f > 0 {
		t.Fatalf("%d of 400 runs failed", f)
	}
}

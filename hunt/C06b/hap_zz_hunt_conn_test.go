package hap

import (
	"bytes"
	"io"
	"io/ioutil"
	"math/rand"
	"net"
	"sync"
	"testing"
	"time"

	"github.com/brutella/hc/crypto"
)

type huntPair struct {
	acc    *Connection // accessory end (hc Connection)
	raw    net.Conn    // controller end (raw tcp)
	client crypto.Cryptographer
	ctx    Context
}

func newHuntPair(t *testing.T, key [32]byte) *huntPair {
	ln, err := net.Listen("tcp", "127.0.0.1:0")
	if err != nil {
		t.Fatal(err)
	}
	defer ln.Close()
	var srv net.Conn
	var wg sync.WaitGroup
	wg.Add(1)
	go func() {
		defer wg.Done()
		srv, _ = ln.Accept()
	}()
	raw, err := net.Dial("tcp", ln.Addr().String())
	if err != nil {
		t.Fatal(err)
	}
	wg.Wait()
	raw.(*net.TCPConn).SetNoDelay(true)
	ctx := NewContextForSecuredDevice(nil)
	acc := NewConnection(srv, ctx)
	s, err := crypto.NewSecureSessionFromSharedKey(key)
	if err != nil {
		t.Fatal(err)
	}
	c, err := crypto.NewSecureClientSessionFromSharedKey(key)
	if err != nil {
		t.Fatal(err)
	}
	sess := ctx.GetSessionForConnection(srv)
	sess.SetCryptographer(s)
	sess.Decrypter() // switch
	if sess.Encrypter() == nil {
		t.Fatal("no encrypter")
	}
	return &huntPair{acc: acc, raw: raw, client: c, ctx: ctx}
}

func (p *huntPair) close() {
	p.raw.Close()
	p.acc.Close()
}

func enc(t *testing.T, c crypto.Cryptographer, b []byte) []byte {
	r, err := c.Encrypt(bytes.NewReader(b))
	if err != nil {
		t.Fatal(err)
	}
	w, _ := ioutil.ReadAll(r)
	return w
}

// readN reads exactly n plaintext bytes from the hc connection with a buffer of size bs, tolerating timeouts
func readN(t *testing.T, con *Connection, n, bs int, deadline time.Duration) []byte {
	var got []byte
	buf := make([]byte, bs)
	end := time.Now().Add(10 * time.Second)
	for len(got) < n {
		if time.Now().After(end) {
			t.Fatalf("timeout: got %d of %d bytes", len(got), n)
		}
		if deadline > 0 {
			con.SetReadDeadline(time.Now().Add(deadline))
		} else {
			con.SetReadDeadline(time.Now().Add(3 * time.Second))
		}
		k, err := con.Read(buf)
		got = append(got, buf[:k]...)
		if err != nil {
			if ne, ok := err.(net.Error); ok && ne.Timeout() && deadline > 0 {
				continue
			}
			t.Fatalf("read error after %d of %d bytes: %v", len(got), n, err)
		}
	}
	return got
}

// controller -> accessory, lengths around frame boundaries, various tcp chunkings and read buffer sizes
func TestHuntConnInbound(t *testing.T) {
	rnd := rand.New(rand.NewSource(11))
	var key [32]byte
	rnd.Read(key[:])
	lengths := []int{1, 2, 17, 1023, 1024, 1025, 2047, 2048, 2049, 3071, 3072, 3073, 4095, 4096, 4097, 5120, 8192, 10240, 20000}
	for _, bs := range []int{1, 7, 512, 1024, 4096, 65536} {
		p := newHuntPair(t, key)
		for _, l := range lengths {
			if bs == 1 && l > 4097 {
				continue
			}
			payload := make([]byte, l)
			rnd.Read(payload)
			wire := enc(t, p.client, payload)
			mode := rnd.Intn(3)
			go func() {
				switch mode {
				case 0:
					p.raw.Write(wire)
				case 1:
					for i := 0; i < len(wire); {
						k := 1 + rnd.Intn(700)
						if i+k > len(wire) {
							k = len(wire) - i
						}
						p.raw.Write(wire[i : i+k])
						i += k
						time.Sleep(200 * time.Microsecond)
					}
				case 2:
					// split in the middle of the header of the 2nd frame if any
					cut := 1
					if len(wire) > 1043 {
						cut = 1043
					}
					p.raw.Write(wire[:cut])
					time.Sleep(5 * time.Millisecond)
					p.raw.Write(wire[cut:])
				}
			}()
			got := readN(t, p.acc, l, bs, 0)
			if !bytes.Equal(got, payload) {
				t.Fatalf("bs %d len %d mode %d: differs", bs, l, mode)
			}
		}
		p.close()
	}
}

// read deadlines expiring while a frame dribbles in
func TestHuntConnInboundTimeouts(t *testing.T) {
	rnd := rand.New(rand.NewSource(12))
	var key [32]byte
	rnd.Read(key[:])
	p := newHuntPair(t, key)
	defer p.close()
	for _, l := range []int{1, 1024, 1025, 2048, 3000, 4096, 4097} {
		payload := make([]byte, l)
		rnd.Read(payload)
		wire := enc(t, p.client, payload)
		go func() {
			for i := 0; i < len(wire); {
				k := 1 + rnd.Intn(300)
				if i+k > len(wire) {
					k = len(wire) - i
				}
				p.raw.Write(wire[i : i+k])
				i += k
				time.Sleep(3 * time.Millisecond)
			}
		}()
		got := readN(t, p.acc, l, 4096, 1*time.Millisecond)
		if !bytes.Equal(got, payload) {
			t.Fatalf("len %d: differs", l)
		}
	}
}

// many messages written back to back before the accessory reads
func TestHuntConnInboundBackToBack(t *testing.T) {
	rnd := rand.New(rand.NewSource(13))
	var key [32]byte
	rnd.Read(key[:])
	p := newHuntPair(t, key)
	defer p.close()
	var all []byte
	var wire []byte
	for _, l := range []int{1024, 5, 2048, 1024, 1024, 1, 4096, 3, 1023, 1025, 0, 7} {
		payload := make([]byte, l)
		rnd.Read(payload)
		all = append(all, payload...)
		wire = append(wire, enc(t, p.client, payload)...)
	}
	go p.raw.Write(wire)
	got := readN(t, p.acc, len(all), 4096, 0)
	if !bytes.Equal(got, all) {
		t.Fatal("differs")
	}
}

// accessory -> controller: wire decrypts by client session; Write return value
func TestHuntConnOutbound(t *testing.T) {
	rnd := rand.New(rand.NewSource(14))
	var key [32]byte
	rnd.Read(key[:])
	p := newHuntPair(t, key)
	defer p.close()
	for _, l := range []int{0, 1, 1023, 1024, 1025, 2048, 2049, 4096, 4097, 10000, 100000} {
		payload := make([]byte, l)
		rnd.Read(payload)
		frames := (l + 1023) / 1024
		wantWire := l + frames*18
		done := make(chan []byte)
		go func() {
			b := make([]byte, wantWire)
			p.raw.SetReadDeadline(time.Now().Add(5 * time.Second))
			_, err := io.ReadFull(p.raw, b)
			if err != nil {
				t.Errorf("len %d: raw read: %v", l, err)
			}
			done <- b
		}()
		n, err := p.acc.Write(payload)
		if err != nil {
			t.Fatal(err)
		}
		_ = n
		wire := <-done
		d, err := p.client.Decrypt(bytes.NewReader(wire))
		if err != nil {
			t.Fatalf("len %d: %v", l, err)
		}
		got, _ := ioutil.ReadAll(d)
		if !bytes.Equal(got, payload) {
			t.Fatalf("len %d differs", l)
		}
	}
}

// concurrent writers (responses and notifications): the stream must still decrypt
func TestHuntConnConcurrentWrites(t *testing.T) {
	rnd := rand.New(rand.NewSource(15))
	var key [32]byte
	rnd.Read(key[:])
	p := newHuntPair(t, key)
	defer p.close()
	const writers = 8
	const per = 50
	total := 0
	var msgs [writers][]byte
	for i := range msgs {
		l := []int{10, 1024, 1500, 3000, 2048, 1, 4097, 700}[i]
		msgs[i] = bytes.Repeat([]byte{byte('a' + i)}, l)
		total += l * per
	}
	var wg sync.WaitGroup
	for i := 0; i < writers; i++ {
		wg.Add(1)
		go func(i int) {
			defer wg.Done()
			for k := 0; k < per; k++ {
				if _, err := p.acc.Write(msgs[i]); err != nil {
					t.Error(err)
					return
				}
			}
		}(i)
	}
	go func() { wg.Wait(); time.Sleep(100 * time.Millisecond); p.acc.connection.(*net.TCPConn).CloseWrite() }()
	wire, err := ioutil.ReadAll(p.raw)
	if err != nil {
		t.Fatal(err)
	}
	src := bytes.NewReader(wire)
	count := map[byte]int{}
	n := 0
	for src.Len() > 0 {
		d, err := p.client.Decrypt(src)
		if err != nil {
			t.Fatalf("decrypt after %d bytes: %v", n, err)
		}
		b, _ := ioutil.ReadAll(d)
		for _, x := range b {
			count[x]++
		}
		n += len(b)
	}
	if n != total {
		t.Fatalf("got %d want %d", n, total)
	}
	for i := range msgs {
		if count[byte('a'+i)] != len(msgs[i])*per {
			t.Fatalf("writer %d: %d", i, count[byte('a'+i)])
		}
	}
}

package crypto

import (
	"bytes"
	"crypto/hmac"
	"crypto/sha512"
	"encoding/binary"
	"io"
	"io/ioutil"
	"math/rand"
	"testing"

	"golang.org/x/crypto/chacha20"
	"golang.org/x/crypto/poly1305"
)

// ---- independent reference ----

func refHKDF(secret, salt, info []byte) []byte {
	m := hmac.New(sha512.New, salt)
	m.Write(secret)
	prk := m.Sum(nil)
	m = hmac.New(sha512.New, prk)
	m.Write(info)
	m.Write([]byte{1})
	return m.Sum(nil)[:32]
}

func pad16(n int) []byte {
	if n%16 == 0 {
		return nil
	}
	return make([]byte, 16-n%16)
}

func refSeal(key []byte, counter uint64, pt, aad []byte) []byte {
	var nonce [12]byte
	binary.LittleEndian.PutUint64(nonce[4:], counter)
	c, err := chacha20.NewUnauthenticatedCipher(key, nonce[:])
	if err != nil {
		panic(err)
	}
	var block0 [64]byte
	c.XORKeyStream(block0[:], block0[:])
	var pk [32]byte
	copy(pk[:], block0[:32])
	ct := make([]byte, len(pt))
	c.XORKeyStream(ct, pt)
	var macIn bytes.Buffer
	macIn.Write(aad)
	macIn.Write(pad16(len(aad)))
	macIn.Write(ct)
	macIn.Write(pad16(len(ct)))
	var l [16]byte
	binary.LittleEndian.PutUint64(l[:8], uint64(len(aad)))
	binary.LittleEndian.PutUint64(l[8:], uint64(len(ct)))
	macIn.Write(l[:])
	var tag [16]byte
	poly1305.Sum(&tag, macIn.Bytes(), &pk)
	return append(ct, tag[:]...)
}

type refEnd struct {
	key     []byte
	counter uint64
}

func (e *refEnd) frame(payload []byte) []byte {
	var out bytes.Buffer
	for len(payload) > 0 {
		n := len(payload)
		if n > 1024 {
			n = 1024
		}
		var l [2]byte
		binary.LittleEndian.PutUint16(l[:], uint16(n))
		out.Write(l[:])
		out.Write(refSeal(e.key, e.counter, payload[:n], l[:]))
		e.counter++
		payload = payload[n:]
	}
	return out.Bytes()
}

// ---- chunking readers ----

type oneByteReader struct{ r io.Reader }

func (o oneByteReader) Read(p []byte) (int, error) {
	if len(p) == 0 {
		return 0, nil
	}
	return o.r.Read(p[:1])
}

type halfReader struct{ r io.Reader }

func (o halfReader) Read(p []byte) (int, error) {
	if len(p) > 1 {
		p = p[:(len(p)+1)/2]
	}
	return o.r.Read(p)
}

// dataWithEOF returns the last bytes together with io.EOF
type dataWithEOF struct {
	b []byte
}

func (d *dataWithEOF) Read(p []byte) (int, error) {
	n := copy(p, d.b)
	d.b = d.b[n:]
	if len(d.b) == 0 {
		return n, io.EOF
	}
	return n, nil
}

// zeroThenData returns (0,nil) every other call
type zeroThenData struct {
	r io.Reader
	i int
}

func (z *zeroThenData) Read(p []byte) (int, error) {
	z.i++
	if z.i%2 == 1 {
		return 0, nil
	}
	return z.r.Read(p)
}

// randomChunks
type randChunks struct {
	r   io.Reader
	rnd *rand.Rand
}

func (z *randChunks) Read(p []byte) (int, error) {
	if len(p) > 1 {
		p = p[:1+z.rnd.Intn(len(p))]
	}
	return z.r.Read(p)
}

func readers(b []byte, rnd *rand.Rand) map[string]func() io.Reader {
	return map[string]func() io.Reader{
		"full":     func() io.Reader { return bytes.NewReader(b) },
		"buffer":   func() io.Reader { return bytes.NewBuffer(append([]byte{}, b...)) },
		"onebyte":  func() io.Reader { return oneByteReader{bytes.NewReader(b)} },
		"half":     func() io.Reader { return halfReader{bytes.NewReader(b)} },
		"dataEOF":  func() io.Reader { return &dataWithEOF{b: b} },
		"zerodata": func() io.Reader { return &zeroThenData{r: bytes.NewReader(b)} },
		"rand":     func() io.Reader { return &randChunks{r: bytes.NewReader(b), rnd: rnd} },
	}
}

func newPair(t *testing.T, key [32]byte) (*secureSession, *secureSession) {
	s, err := NewSecureSessionFromSharedKey(key)
	if err != nil {
		t.Fatal(err)
	}
	c, err := NewSecureClientSessionFromSharedKey(key)
	if err != nil {
		t.Fatal(err)
	}
	return s.(*secureSession), c.(*secureSession)
}

func TestHuntKeys(t *testing.T) {
	rnd := rand.New(rand.NewSource(1))
	for i := 0; i < 50; i++ {
		var key [32]byte
		rnd.Read(key[:])
		if i == 0 {
			key = [32]byte{}
		}
		s, c := newPair(t, key)
		rk := refHKDF(key[:], []byte("Control-Salt"), []byte("Control-Read-Encryption-Key"))
		wk := refHKDF(key[:], []byte("Control-Salt"), []byte("Control-Write-Encryption-Key"))
		if !bytes.Equal(s.encryptKey[:], rk) || !bytes.Equal(s.decryptKey[:], wk) {
			t.Fatal("server keys")
		}
		if !bytes.Equal(c.encryptKey[:], wk) || !bytes.Equal(c.decryptKey[:], rk) {
			t.Fatal("client keys")
		}
	}
}

// every length 0..4097, each chunking, both directions, wire format compared with reference, then decrypted
func TestHuntExhaustiveLengths(t *testing.T) {
	rnd := rand.New(rand.NewSource(2))
	var key [32]byte
	rnd.Read(key[:])
	lengths := []int{}
	for l := 0; l <= 4097; l++ {
		lengths = append(lengths, l)
	}
	lengths = append(lengths, 5000, 8191, 8192, 8193, 10240, 65535, 65536, 65537, 100*1024, 100*1024+1, 1<<20)
	for _, l := range lengths {
		payload := make([]byte, l)
		rnd.Read(payload)
		for name, mk := range readers(payload, rnd) {
			if l > 8193 && name == "onebyte" {
				continue
			}
			s, c := newPair(t, key)
			refS := &refEnd{key: refHKDF(key[:], []byte("Control-Salt"), []byte("Control-Read-Encryption-Key"))}
			refC := &refEnd{key: refHKDF(key[:], []byte("Control-Salt"), []byte("Control-Write-Encryption-Key"))}
			for dir := 0; dir < 2; dir++ {
				enc, dec, ref := s, c, refS
				if dir == 1 {
					enc, dec, ref = c, s, refC
				}
				// two messages to check continuity
				for m := 0; m < 2; m++ {
					r, err := enc.Encrypt(mk())
					if err != nil {
						t.Fatal(l, name, err)
					}
					wire, _ := ioutil.ReadAll(r)
					want := ref.frame(payload)
					if !bytes.Equal(wire, want) {
						t.Fatalf("len %d reader %s dir %d msg %d: wire differs from reference (got %d bytes want %d)", l, name, dir, m, len(wire), len(want))
					}
					// decrypt, wire delivered through same chunking
					var src io.Reader
					switch name {
					case "onebyte":
						src = oneByteReader{bytes.NewReader(wire)}
					case "half":
						src = halfReader{bytes.NewReader(wire)}
					case "dataEOF":
						src = &dataWithEOF{b: wire}
					case "zerodata":
						src = &zeroThenData{r: bytes.NewReader(wire)}
					case "rand":
						src = &randChunks{r: bytes.NewReader(wire), rnd: rnd}
					default:
						src = bytes.NewReader(wire)
					}
					d, err := dec.Decrypt(src)
					if err != nil {
						t.Fatalf("len %d reader %s dir %d msg %d: decrypt: %v", l, name, dir, m, err)
					}
					got, _ := ioutil.ReadAll(d)
					if !bytes.Equal(got, payload) {
						t.Fatalf("len %d reader %s dir %d msg %d: round trip differs (got %d bytes)", l, name, dir, m, len(got))
					}
				}
			}
		}
	}
}

// sequences of messages of random lengths on one session; decrypt from a single continuous stream
// and frame by frame
func TestHuntSequences(t *testing.T) {
	rnd := rand.New(rand.NewSource(3))
	special := []int{0, 1, 1023, 1024, 1025, 2047, 2048, 2049, 3072, 4096, 4097}
	for iter := 0; iter < 300; iter++ {
		var key [32]byte
		rnd.Read(key[:])
		s, c := newPair(t, key)
		ref := &refEnd{key: refHKDF(key[:], []byte("Control-Salt"), []byte("Control-Read-Encryption-Key"))}
		var stream bytes.Buffer
		var all bytes.Buffer
		var msgs [][]byte
		var wires [][]byte
		for m := 0; m < 8; m++ {
			l := special[rnd.Intn(len(special))]
			if rnd.Intn(3) == 0 {
				l = rnd.Intn(5000)
			}
			p := make([]byte, l)
			rnd.Read(p)
			r, err := s.Encrypt(bytes.NewReader(p))
			if err != nil {
				t.Fatal(err)
			}
			w, _ := ioutil.ReadAll(r)
			if !bytes.Equal(w, ref.frame(p)) {
				t.Fatalf("iter %d msg %d len %d: wire differs", iter, m, l)
			}
			stream.Write(w)
			all.Write(p)
			msgs = append(msgs, p)
			wires = append(wires, w)
		}
		if iter%2 == 0 {
			// message by message
			for i, w := range wires {
				d, err := c.Decrypt(bytes.NewReader(w))
				if err != nil {
					t.Fatalf("iter %d msg %d: %v", iter, i, err)
				}
				got, _ := ioutil.ReadAll(d)
				if !bytes.Equal(got, msgs[i]) {
					t.Fatalf("iter %d msg %d len %d: got %d bytes", iter, i, len(msgs[i]), len(got))
				}
			}
		} else {
			// one continuous stream, Decrypt called until the stream is exhausted
			var got bytes.Buffer
			src := bytes.NewReader(stream.Bytes())
			for k := 0; k < 100 && src.Len() > 0; k++ {
				d, err := c.Decrypt(src)
				if err != nil {
					t.Fatalf("iter %d: %v", iter, err)
				}
				io.Copy(&got, d)
			}
			if !bytes.Equal(got.Bytes(), all.Bytes()) {
				t.Fatalf("iter %d: stream differs: got %d want %d", iter, got.Len(), all.Len())
			}
		}
	}
}

// reference -> hc and hc -> reference with all contents patterns
func TestHuntContents(t *testing.T) {
	var key [32]byte
	for i := range key {
		key[i] = byte(i * 7)
	}
	pats := [][]byte{
		bytes.Repeat([]byte{0}, 2048),
		bytes.Repeat([]byte{0xff}, 2049),
		bytes.Repeat([]byte{0x00, 0x04}, 1024),
		bytes.Repeat([]byte{0x0d, 0x0a}, 513),
	}
	for _, p := range pats {
		s, c := newPair(t, key)
		ref := &refEnd{key: refHKDF(key[:], []byte("Control-Salt"), []byte("Control-Write-Encryption-Key"))}
		// reference controller -> hc accessory
		d, err := s.Decrypt(bytes.NewReader(ref.frame(p)))
		if err != nil {
			t.Fatal(err)
		}
		got, _ := ioutil.ReadAll(d)
		if !bytes.Equal(got, p) {
			t.Fatal("ref->hc")
		}
		r, _ := c.Encrypt(bytes.NewReader(p))
		w, _ := ioutil.ReadAll(r)
		ref2 := &refEnd{key: ref.key}
		if !bytes.Equal(w, ref2.frame(p)) {
			t.Fatal("client wire")
		}
	}
}

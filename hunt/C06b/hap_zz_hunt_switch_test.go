package hap

import (
	"bytes"
	"net"
	"sync"
	"testing"
	"time"

	"github.com/brutella/hc/crypto"
)

// A read is pending on the connection (net/http's background read) while pair-verify installs the keys;
// the controller's first frame arrives before that read has been aborted.
func TestHuntPendingReadAtSwitch(t *testing.T) {
	ln, err := net.Listen("tcp", "127.0.0.1:0")
	if err != nil {
		t.Fatal(err)
	}
	defer ln.Close()
	var srv net.Conn
	var wg sync.WaitGroup
	wg.Add(1)
	go func() { defer wg.Done(); srv, _ = ln.Accept() }()
	raw, err := net.Dial("tcp", ln.Addr().String())
	if err != nil {
		t.Fatal(err)
	}
	defer raw.Close()
	wg.Wait()
	ctx := NewContextForSecuredDevice(nil)
	acc := NewConnection(srv, ctx)
	defer acc.Close()
	var key [32]byte
	s, _ := crypto.NewSecureSessionFromSharedKey(key)
	c, _ := crypto.NewSecureClientSessionFromSharedKey(key)

	type res struct {
		b   []byte
		err error
	}
	pending := make(chan res)
	go func() {
		var one [1]byte
		n, err := acc.Read(one[:]) // as net/http's connReader.backgroundRead does
		pending <- res{one[:n], err}
	}()
	time.Sleep(50 * time.Millisecond) // the read is blocked in the socket now

	ctx.GetSessionForConnection(srv).SetCryptographer(s) // pair-verify finish

	payload := []byte("GET /accessories HTTP/1.1\r\nHost: x\r\n\r\n")
	wire := enc(t, c, payload)
	raw.Write(wire)

	var got []byte
	r := <-pending
	got = append(got, r.b...)
	if r.err != nil {
		t.Fatalf("pending read: %v", r.err)
	}
	buf := make([]byte, 4096)
	for len(got) < len(payload) {
		acc.SetReadDeadline(time.Now().Add(500 * time.Millisecond))
		n, err := acc.Read(buf)
		got = append(got, buf[:n]...)
		if err != nil {
			t.Fatalf("after %d of %d bytes (%q): %v", len(got), len(payload), got, err)
		}
	}
	if !bytes.Equal(got, payload) {
		t.Fatalf("got %q", got)
	}
}

package crypto

import (
	"bytes"
	"errors"
	"io"
	"io/ioutil"
	"math/rand"
	"testing"
)

type tempErr struct{}

func (tempErr) Error() string   { return "i/o timeout" }
func (tempErr) Timeout() bool   { return true }
func (tempErr) Temporary() bool { return true }

// flaky returns a temporary error at the given absolute offsets (once each), before delivering the byte at that offset
type flaky struct {
	b    []byte
	off  int
	at   map[int]bool
	done map[int]bool
}

func (f *flaky) Read(p []byte) (int, error) {
	if f.at[f.off] && !f.done[f.off] {
		f.done[f.off] = true
		return 0, tempErr{}
	}
	if f.off >= len(f.b) {
		return 0, io.EOF
	}
	// deliver up to the next error offset
	end := len(f.b)
	for o := range f.at {
		if o > f.off && o < end && !f.done[o] {
			end = o
		}
	}
	n := copy(p, f.b[f.off:end])
	f.off += n
	return n, nil
}

// temporary errors exactly between frames: nothing lost, nothing duplicated
func TestHuntTempErrorBetweenFrames(t *testing.T) {
	rnd := rand.New(rand.NewSource(5))
	var key [32]byte
	rnd.Read(key[:])
	for _, l := range []int{1024, 2048, 2049, 3000, 4096, 4097} {
		s, c := newPair(t, key)
		payload := make([]byte, l)
		rnd.Read(payload)
		r, _ := s.Encrypt(bytes.NewReader(payload))
		wire, _ := ioutil.ReadAll(r)
		at := map[int]bool{0: true}
		for o := 1042; o <= len(wire); o += 1042 {
			at[o] = true
		}
		src := &flaky{b: wire, at: at, done: map[int]bool{}}
		var got bytes.Buffer
		for i := 0; i < 50; i++ {
			d, err := c.Decrypt(src)
			if err != nil {
				if _, ok := err.(tempErr); ok {
					continue
				}
				t.Fatalf("len %d: %v", l, err)
			}
			n, _ := io.Copy(&got, d)
			if n == 0 && src.off >= len(wire) {
				break
			}
		}
		if !bytes.Equal(got.Bytes(), payload) {
			t.Fatalf("len %d: got %d bytes", l, got.Len())
		}
	}
}

// a stream cut at any position never yields anything but whole leading frames of the payload
func TestHuntTruncation(t *testing.T) {
	rnd := rand.New(rand.NewSource(6))
	var key [32]byte
	rnd.Read(key[:])
	payload := make([]byte, 2500)
	rnd.Read(payload)
	s0, _ := newPair(t, key)
	r, _ := s0.Encrypt(bytes.NewReader(payload))
	wire, _ := ioutil.ReadAll(r)
	for cut := 0; cut <= len(wire); cut++ {
		_, c := newPair(t, key)
		d, err := c.Decrypt(bytes.NewReader(wire[:cut]))
		if err != nil {
			continue
		}
		got, _ := ioutil.ReadAll(d)
		if len(got)%1024 != 0 && cut != len(wire) {
			t.Fatalf("cut %d: %d bytes", cut, len(got))
		}
		if !bytes.HasPrefix(payload, got) {
			t.Fatalf("cut %d: not a prefix", cut)
		}
		if cut == len(wire) && len(got) != len(payload) {
			t.Fatal("full")
		}
		if cut%1042 != 0 && cut != len(wire) {
			t.Fatalf("cut %d inside a frame gave no error (%d bytes)", cut, len(got))
		}
	}
}

// a flipped bit anywhere: error, and nothing delivered afterwards either
func TestHuntBitFlips(t *testing.T) {
	rnd := rand.New(rand.NewSource(7))
	var key [32]byte
	rnd.Read(key[:])
	payload := make([]byte, 2100)
	rnd.Read(payload)
	s0, _ := newPair(t, key)
	r, _ := s0.Encrypt(bytes.NewReader(payload))
	wire, _ := ioutil.ReadAll(r)
	r2, _ := s0.Encrypt(bytes.NewReader([]byte("next message")))
	wire2, _ := ioutil.ReadAll(r2)
	for pos := 0; pos < len(wire); pos++ {
		if pos > 40 && pos < 1030 && pos%13 != 0 {
			continue
		}
		for bit := 0; bit < 8; bit++ {
			w := append([]byte{}, wire...)
			w[pos] ^= 1 << uint(bit)
			w = append(w, wire2...)
			_, c := newPair(t, key)
			src := bytes.NewReader(w)
			d, err := c.Decrypt(src)
			if err == nil {
				got, _ := ioutil.ReadAll(d)
				t.Fatalf("pos %d bit %d: no error, %d bytes", pos, bit, len(got))
			}
			if d2, err := c.Decrypt(src); err == nil {
				got, _ := ioutil.ReadAll(d2)
				t.Fatalf("pos %d bit %d: second call delivered %d bytes", pos, bit, len(got))
			}
		}
	}
}

// two sessions from the same secret have independent counters; sessions from different secrets do not interoperate
func TestHuntIndependentSessions(t *testing.T) {
	var key [32]byte
	s1, c1 := newPair(t, key)
	s2, c2 := newPair(t, key)
	for i := 0; i < 3; i++ {
		r, _ := s1.Encrypt(bytes.NewReader([]byte("abc")))
		d, err := c1.Decrypt(r)
		if err != nil {
			t.Fatal(err)
		}
		ioutil.ReadAll(d)
	}
	r, _ := s2.Encrypt(bytes.NewReader([]byte("xyz")))
	d, err := c2.Decrypt(r)
	if err != nil {
		t.Fatal(err)
	}
	b, _ := ioutil.ReadAll(d)
	if string(b) != "xyz" {
		t.Fatal(string(b))
	}
	if s1.encryptCount != 3 || s2.encryptCount != 1 || c1.decryptCount != 3 || c2.decryptCount != 1 {
		t.Fatal("counters")
	}
}

type errAfter struct {
	b   []byte
	err error
}

func (e *errAfter) Read(p []byte) (int, error) {
	if len(e.b) == 0 {
		return 0, e.err
	}
	n := copy(p, e.b)
	e.b = e.b[n:]
	return n, nil
}

// not part of the property (a failing source does not define a payload); informational only
func TestHuntInfoEncryptSourceError(t *testing.T) {
	var key [32]byte
	s, _ := newPair(t, key)
	r, err := s.Encrypt(&errAfter{b: make([]byte, 1500), err: errors.New("boom")})
	if err != nil {
		t.Log("error reported:", err)
		return
	}
	w, _ := ioutil.ReadAll(r)
	t.Logf("source failed after 1500 bytes: Encrypt returned %d wire bytes and a nil error", len(w))
}

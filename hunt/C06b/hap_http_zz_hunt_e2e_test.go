package http

import (
	"bufio"
	"bytes"
	"encoding/binary"
	"fmt"
	"io"
	"io/ioutil"
	"math/rand"
	"net"
	"net/http"
	"sync"
	"testing"
	"time"

	"context"

	"github.com/brutella/hc/accessory"
	"github.com/brutella/hc/crypto"
	"github.com/brutella/hc/db"
	"github.com/brutella/hc/event"
	"github.com/brutella/hc/hap"
	"github.com/brutella/hc/util"
)

var huntFirstRequestDelay = 3 * time.Millisecond

type e2e struct {
	srv    *Server
	raw    net.Conn
	client crypto.Cryptographer
	plain  *bufio.Reader // decrypted inbound stream
	cancel func()
}

// frameReader decrypts the raw tcp stream frame by frame with the client session
type frameReader struct {
	raw    net.Conn
	client crypto.Cryptographer
	buf    bytes.Buffer
}

func (f *frameReader) Read(p []byte) (int, error) {
	for f.buf.Len() == 0 {
		var h [2]byte
		if _, err := io.ReadFull(f.raw, h[:]); err != nil {
			return 0, err
		}
		l := int(binary.LittleEndian.Uint16(h[:]))
		if l > 1024 || l == 0 {
			return 0, fmt.Errorf("frame with %d plaintext bytes on the wire", l)
		}
		frame := make([]byte, 2+l+16)
		copy(frame, h[:])
		if _, err := io.ReadFull(f.raw, frame[2:]); err != nil {
			return 0, err
		}
		d, err := f.client.Decrypt(bytes.NewReader(frame))
		if err != nil {
			return 0, err
		}
		io.Copy(&f.buf, d)
	}
	return f.buf.Read(p)
}

func newE2E(t *testing.T, key [32]byte, accessories int) *e2e {
	storage, err := util.NewTempFileStorage()
	if err != nil {
		t.Fatal(err)
	}
	database := db.NewDatabaseWithStorage(storage)
	device, err := hap.NewSecuredDevice("Hunt Bridge", "001-02-003", database)
	if err != nil {
		t.Fatal(err)
	}
	hctx := hap.NewContextForSecuredDevice(device)
	container := accessory.NewContainer()
	for i := 0; i < accessories; i++ {
		sw := accessory.NewSwitch(accessory.Info{Name: fmt.Sprintf("Switch %d", i), SerialNumber: "1", Manufacturer: "m", Model: "x"})
		container.AddAccessory(sw.Accessory)
	}
	srv := NewServer(Config{
		Port:      "127.0.0.1:0",
		Context:   hctx,
		Database:  database,
		Container: container,
		Device:    device,
		Mutex:     &sync.Mutex{},
		Emitter:   event.NewEmitter(),
	})
	// plays the role of pair-verify: installs the session keys from inside a handler
	srv.Mux.HandleFunc("/zzsetkey", func(w http.ResponseWriter, r *http.Request) {
		ioutil.ReadAll(r.Body)
		// pair-verify computes signatures between reading the body and installing the keys; by then
		// net/http's background read (started when the body hit EOF) is blocked in the plain socket read
		time.Sleep(5 * time.Millisecond)
		s, err := crypto.NewSecureSessionFromSharedKey(key)
		if err != nil {
			t.Error(err)
		}
		hctx.GetSessionForRequest(r).SetCryptographer(s)
		w.WriteHeader(204)
	})
	srv.Mux.HandleFunc("/zzecho", func(w http.ResponseWriter, r *http.Request) {
		b, err := ioutil.ReadAll(r.Body)
		if err != nil {
			t.Errorf("echo: body read: %v", err)
		}
		w.Header().Set("Content-Type", "application/octet-stream")
		wr := hap.NewChunkedWriter(w, 2048)
		wr.Write(b)
	})
	ctx, cancel := context.WithCancel(context.Background())
	go srv.ListenAndServe(ctx)

	raw, err := net.Dial("tcp", "127.0.0.1:"+srv.Port())
	if err != nil {
		t.Fatal(err)
	}
	raw.(*net.TCPConn).SetNoDelay(true)
	raw.SetDeadline(time.Now().Add(30 * time.Second))
	// plaintext key installation
	fmt.Fprintf(raw, "POST /zzsetkey HTTP/1.1\r\nHost: x\r\nContent-Length: 2\r\n\r\nhi")
	br := bufio.NewReader(raw)
	resp, err := http.ReadResponse(br, nil)
	if err != nil {
		t.Fatal(err)
	}
	if resp.StatusCode != 204 {
		t.Fatal(resp.Status)
	}
	if br.Buffered() != 0 {
		t.Fatal("unexpected extra plaintext")
	}
	client, err := crypto.NewSecureClientSessionFromSharedKey(key)
	if err != nil {
		t.Fatal(err)
	}
	// a controller needs some time before its first encrypted request; without this pause the
	// tests below hit the race shown by TestHuntSwitchImmediate now and then
	time.Sleep(huntFirstRequestDelay)
	e := &e2e{srv: srv, raw: raw, client: client, cancel: cancel}
	e.plain = bufio.NewReader(&frameReader{raw: raw, client: client})
	return e
}

func (e *e2e) send(t *testing.T, req []byte, rnd *rand.Rand, mode int) {
	r, err := e.client.Encrypt(bytes.NewReader(req))
	if err != nil {
		t.Fatal(err)
	}
	wire, _ := ioutil.ReadAll(r)
	switch mode {
	case 0:
		e.raw.Write(wire)
	case 1:
		for i := 0; i < len(wire); {
			k := 1 + rnd.Intn(500)
			if i+k > len(wire) {
				k = len(wire) - i
			}
			e.raw.Write(wire[i : i+k])
			i += k
			time.Sleep(300 * time.Microsecond)
		}
	case 2:
		// frame by frame with a pause after each frame
		for i := 0; i < len(wire); {
			l := int(binary.LittleEndian.Uint16(wire[i:])) + 18
			e.raw.Write(wire[i : i+l])
			i += l
			time.Sleep(2 * time.Millisecond)
		}
	}
}

// builds an echo request whose total size is exactly total bytes
func echoRequest(total int, rnd *rand.Rand) ([]byte, []byte) {
	for bl := total; bl >= 0; bl-- {
		head := fmt.Sprintf("POST /zzecho HTTP/1.1\r\nHost: x\r\nContent-Length: %d\r\n\r\n", bl)
		if len(head)+bl == total {
			body := make([]byte, bl)
			rnd.Read(body)
			return append([]byte(head), body...), body
		}
	}
	return nil, nil
}

func TestHuntE2EEcho(t *testing.T) {
	rnd := rand.New(rand.NewSource(21))
	var key [32]byte
	rnd.Read(key[:])
	e := newE2E(t, key, 1)
	defer e.cancel()
	defer e.raw.Close()
	totals := []int{100, 1023, 1024, 1025, 2047, 2048, 2049, 3072, 4095, 4096, 4097, 5120, 8192, 8193, 10240, 30000}
	for round := 0; round < 3; round++ {
		for _, total := range totals {
			req, body := echoRequest(total, rnd)
			if req == nil {
				t.Fatal("no request of size", total)
			}
			e.send(t, req, rnd, round)
			resp, err := http.ReadResponse(e.plain, nil)
			if err != nil {
				t.Fatalf("round %d total %d: response: %v", round, total, err)
			}
			got, err := ioutil.ReadAll(resp.Body)
			if err != nil {
				t.Fatalf("round %d total %d: body: %v", round, total, err)
			}
			if !bytes.Equal(got, body) {
				t.Fatalf("round %d total %d: echoed body differs (%d vs %d bytes)", round, total, len(got), len(body))
			}
		}
	}
}

// two requests in one tcp write, the first of exactly 1024 / 2048 bytes
func TestHuntE2EPipelined(t *testing.T) {
	rnd := rand.New(rand.NewSource(22))
	var key [32]byte
	rnd.Read(key[:])
	e := newE2E(t, key, 1)
	defer e.cancel()
	defer e.raw.Close()
	for _, total := range []int{1024, 2048, 500, 1025} {
		req1, body1 := echoRequest(total, rnd)
		req2, body2 := echoRequest(777, rnd)
		r1, _ := e.client.Encrypt(bytes.NewReader(req1))
		r2, _ := e.client.Encrypt(bytes.NewReader(req2))
		w1, _ := ioutil.ReadAll(r1)
		w2, _ := ioutil.ReadAll(r2)
		e.raw.Write(append(w1, w2...))
		for i, body := range [][]byte{body1, body2} {
			resp, err := http.ReadResponse(e.plain, nil)
			if err != nil {
				t.Fatalf("total %d resp %d: %v", total, i, err)
			}
			got, _ := ioutil.ReadAll(resp.Body)
			if !bytes.Equal(got, body) {
				t.Fatalf("total %d resp %d: differs", total, i)
			}
		}
	}
}

// the real handlers: /accessories of growing size
func TestHuntE2EAccessories(t *testing.T) {
	rnd := rand.New(rand.NewSource(23))
	var key [32]byte
	rnd.Read(key[:])
	for _, n := range []int{1, 2, 3, 5, 8, 20} {
		e := newE2E(t, key, n)
		for k := 0; k < 3; k++ {
			e.send(t, []byte("GET /accessories HTTP/1.1\r\nHost: x\r\n\r\n"), rnd, k)
			resp, err := http.ReadResponse(e.plain, nil)
			if err != nil {
				t.Fatalf("n %d: %v", n, err)
			}
			got, err := ioutil.ReadAll(resp.Body)
			if err != nil {
				t.Fatalf("n %d: %v", n, err)
			}
			want, _ := JSONEncode(e.srv.container)
			if !bytes.Equal(got, want.Bytes()) {
				t.Fatalf("n %d: body differs: %d vs %d", n, len(got), want.Len())
			}
		}
		e.raw.Close()
		e.cancel()
	}
}

#!/bin/bash
# Applies each behaviour-preserving refactoring in /verif/benign to a scratch worktree and runs all 20 checks there: any report is a false alarm.
cd /verif
for d in benign/*${1:-}*/; do
  d=${d%/}
  WT=/tmp/wt_benign_$$
  git -C /repo worktree add -q --detach $WT HEAD || exit 3
  if ! git -C $WT apply $(realpath $d/patch.diff) 2>/dev/null; then echo "$(basename $d) PATCH-DOES-NOT-APPLY"; git -C /repo worktree remove --force $WT; continue; fi
  EV=/tmp/wt_benign_ev_$$; mkdir -p $EV; cp known_findings.json $EV/
  out=$(${HCSA_BIN:-bin/hcsa} check all -repo $WT -verif $EV 2>&1 | sed "s#$WT/##g")
  bad=$(echo "$out" | grep -E '^  C[0-9]+-R|^UNDECIDED' | cut -c1-230)
  if [ -z "$bad" ]; then echo "$(basename $d) SILENT"; else echo "$(basename $d) ALARM"; echo "$bad" | sed 's/^/      /'; fi
  rm -rf $EV; git -C /repo worktree remove --force $WT
done
